/-
C06 — the header-style parser on every well-formed document (`headers_sound`, policy-legal names), and
both parsers together under the hypothesis of finding K3 (`sound_narrow`).
-/
import DebInspector.Thm.C06
namespace Props.C06H
open Py Model.Email Proofs.LinesAscii

/-! ### lines with their terminators -/

/-- the source lines of a text made of `lines` joined by `\n`, with a final `\n` or not -/
def withEnds : List Str → Bool → List Str
  | [], _ => []
  | [l], fin => [l ++ (if fin then ['\n'] else [])]
  | l :: m :: r, fin => (l ++ ['\n']) :: withEnds (m :: r) fin

theorem ske_prefix (l rest cur : Str) (h : NoT l) :
    splitKeepEndsAux (l ++ rest) cur false = splitKeepEndsAux rest (l.reverse ++ cur) false := by
  induction l generalizing cur with
  | nil => rfl
  | cons c cs ih =>
    have hn : c ≠ '\n' := fun e => h.1 (by simp [e])
    have hr : c ≠ '\r' := fun e => h.2 (by simp [e])
    have hcs : NoT cs := ⟨fun m => h.1 (List.mem_cons_of_mem _ m), fun m => h.2 (List.mem_cons_of_mem _ m)⟩
    simp only [List.cons_append, splitKeepEndsAux, Bool.false_eq_true, if_false, hn, hr]
    rw [ih _ hcs]; simp

theorem ske_line (l rest : Str) (h : NoT l) :
    splitKeepEndsAux (l ++ '\n' :: rest) [] false = (l ++ ['\n']) :: splitKeepEndsAux rest [] false := by
  rw [ske_prefix l _ [] h]
  simp [splitKeepEndsAux]

theorem ske_last (l : Str) (h : NoT l) (hne : l ≠ []) : splitKeepEndsAux l [] false = [l] := by
  have := ske_prefix l [] [] h
  simp only [List.append_nil] at this
  rw [this]
  simp [splitKeepEndsAux, hne]

theorem splitKeepEnds_joinNl (ls : List Str) (fin : Bool) (hne : ls ≠ []) (h : ∀ l ∈ ls, NoT l ∧ l ≠ []) :
    splitKeepEnds (Props.C06.joinNl ls ++ (if fin then ['\n'] else [])) = withEnds ls fin := by
  unfold splitKeepEnds
  induction ls with
  | nil => exact absurd rfl hne
  | cons l ls ih =>
    cases ls with
    | nil =>
      simp only [Props.C06.joinNl, withEnds]
      cases fin with
      | true =>
        simp only [if_true]
        rw [ske_line l [] (h l (by simp)).1]
        simp [splitKeepEndsAux]
      | false =>
        simp only [Bool.false_eq_true, if_false, List.append_nil]
        exact ske_last l (h l (by simp)).1 (h l (by simp)).2
    | cons m r =>
      have e : Props.C06.joinNl (l :: m :: r) ++ (if fin then ['\n'] else []) =
          l ++ '\n' :: (Props.C06.joinNl (m :: r) ++ (if fin then ['\n'] else [])) := by
        simp [Props.C06.joinNl]
      rw [e, ske_line l _ (h l (by simp)).1, ih (by simp) (fun x hx => h x (by simp [hx]))]
      rfl

theorem withEnds_append (a b : List Str) (fin : Bool) (hb : b ≠ []) :
    withEnds (a ++ b) fin = a.map (· ++ ['\n']) ++ withEnds b fin := by
  induction a with
  | nil => rfl
  | cons x xs ih =>
    cases hxs : xs ++ b with
    | nil => cases xs <;> simp_all
    | cons y ys =>
      simp only [List.cons_append, hxs, withEnds, List.map_cons]
      rw [← hxs, ih]

theorem withEnds_true (a : List Str) : withEnds a true = a.map (· ++ ['\n']) := by
  induction a with
  | nil => rfl
  | cons x xs ih =>
    cases xs with
    | nil => simp [withEnds]
    | cons y ys => simp only [withEnds, List.map_cons, ih]

theorem withEnds_flatten (ls : List Str) (fin : Bool) (hne : ls ≠ []) :
    (withEnds ls fin).flatten = Props.C06.joinNl ls ++ (if fin then ['\n'] else []) := by
  induction ls with
  | nil => exact absurd rfl hne
  | cons l ls ih =>
    cases ls with
    | nil => simp [withEnds, Props.C06.joinNl]
    | cons m r =>
      have := ih (by simp)
      simp only [withEnds, List.flatten_cons, this, Props.C06.joinNl]
      simp [List.append_assoc]


/-! ### the header loop on groups of source lines -/

def spTab (c : Char) : Bool := c = ' ' || c = '\t'

/-- a header's first source line, as the loop needs it -/
structure FirstOK (first : Str) : Prop where
  notCont : headP (fun c => c = ' ' || c = '\t') first = false
  notFrom : startsWith first fromSpace = false
  notColon : headP (· = ':') first = false

def srcLines (g : Str × List Str) : List Str := g.1 :: g.2

theorem parse_conts (n idx : Nat) (first : Str) (acc : Parsed) (pre cs : List Str) (more : List Str)
    (hc : ∀ c ∈ cs, headP (fun c => c = ' ' || c = '\t') c = true) :
    parseHeaderLines n idx ⟨some (first, pre), acc⟩ (cs ++ more) =
      parseHeaderLines n (idx + cs.length) ⟨some (first, pre ++ cs), acc⟩ more := by
  induction cs generalizing idx pre with
  | nil => simp
  | cons c cs ih =>
    simp only [List.cons_append, parseHeaderLines, hc c (by simp), if_true]
    rw [ih (idx + 1) (pre ++ [c]) (fun x hx => hc x (by simp [hx]))]
    simp only [List.length_cons, List.append_assoc, List.singleton_append]
    rw [show idx + 1 + cs.length = idx + (cs.length + 1) by omega]

theorem parse_group (n idx : Nat) (s : HSt) (g : Str × List Str) (more : List Str) (hf : FirstOK g.1)
    (hc : ∀ c ∈ g.2, headP (fun c => c = ' ' || c = '\t') c = true) :
    parseHeaderLines n idx s (srcLines g ++ more) =
      parseHeaderLines n (idx + 1 + g.2.length) ⟨some (g.1, g.2), (flushHeader s).acc⟩ more := by
  obtain ⟨first, cs⟩ := g
  simp only [srcLines, List.cons_append]
  rw [parseHeaderLines]
  simp only [hf.notCont, Bool.false_eq_true, if_false, hf.notFrom, hf.notColon]
  have := parse_conts n (idx + 1) first (flushHeader s).acc [] cs more hc
  simp only [List.nil_append] at this
  exact this

theorem flushHeader_some (first : Str) (cs : List Str) (acc : Parsed) :
    flushHeader ⟨some (first, cs), acc⟩ = ⟨none, { acc with headers := acc.headers ++ [headerSourceParse first cs] }⟩ := rfl

theorem flushHeader_none (acc : Parsed) : flushHeader ⟨none, acc⟩ = ⟨none, acc⟩ := rfl

theorem parse_groups (n : Nat) (gs : List (Str × List Str)) (idx : Nat) (s : HSt)
    (hg : ∀ g ∈ gs, FirstOK g.1 ∧ ∀ c ∈ g.2, headP (fun c => c = ' ' || c = '\t') c = true) :
    parseHeaderLines n idx s (gs.flatMap srcLines) =
      ⟨none, { (flushHeader s).acc with
                 headers := (flushHeader s).acc.headers ++ gs.map fun g => headerSourceParse g.1 g.2 }⟩ := by
  induction gs generalizing idx s with
  | nil =>
    simp only [List.flatMap_nil, parseHeaderLines, List.map_nil, List.append_nil]
    cases s with
    | mk last acc =>
      cases last with
      | none => rfl
      | some fc => obtain ⟨f, c⟩ := fc; rfl
  | cons g gs ih =>
    simp only [List.flatMap_cons]
    rw [parse_group n idx s g _ (hg g (by simp)).1 (hg g (by simp)).2, ih _ _ (fun x hx => hg x (by simp [hx]))]
    simp only [flushHeader_some, List.map_cons, List.append_assoc, List.singleton_append]

theorem takeHeaderLines_all (ls : List Str) (h : ∀ l ∈ ls, isHeaderLine l = true) : takeHeaderLines ls = (ls, []) := by
  induction ls with
  | nil => rfl
  | cons l ls ih => simp [takeHeaderLines, h l (by simp), ih (fun x hx => h x (by simp [hx]))]


/-! ### one field -/

open Props.C06 in
/-- what the header parser needs of a well-formed field -/
structure HF (f : Field) : Prop where
  nameNe : f.name ≠ []
  nameCh : ∀ c ∈ f.name, isHeaderNameChar c = true ∧ c ≠ ':' ∧ c ≠ ' ' ∧ c ≠ '\t'
  sp : ∀ c ∈ f.sp, c = ' ' ∨ c = '\t'
  valueHead : ∀ c ∈ f.value.head?, c ≠ ' ' ∧ c ≠ '\t'
  valueLast : ∀ c ∈ f.value.getLast?, c ≠ '\n' ∧ c ≠ '\r'
  conts : ∀ c ∈ f.conts, headP (fun c => c = ' ' || c = '\t') c = true ∧ (∀ x ∈ c.getLast?, x ≠ '\n' ∧ x ≠ '\r')

theorem lstripSpTab_append (sp rest : Str) (hs : ∀ c ∈ sp, c = ' ' ∨ c = '\t')
    (hr : ∀ c ∈ rest.head?, c ≠ ' ' ∧ c ≠ '\t') : lstripSpTab (sp ++ rest) = rest := by
  induction sp with
  | nil =>
    cases rest with
    | nil => rfl
    | cons c cs =>
      have := hr c (by simp)
      simp [lstripSpTab, this.1, this.2]
  | cons c cs ih =>
    have hc : (c = ' ' || c = '\t') = true := by
      rcases hs c (by simp) with h | h <;> simp [h]
    simp only [List.cons_append, lstripSpTab, hc, if_true]
    exact ih (fun d hd => hs d (by simp [hd]))

theorem rstripCrLf_id (x : Str) (h : ∀ c ∈ x.getLast?, c ≠ '\n' ∧ c ≠ '\r') : rstripCrLf x = x := by
  induction x with
  | nil => rfl
  | cons c cs ih =>
    cases cs with
    | nil =>
      have := h c (by simp)
      simp [rstripCrLf, this.1, this.2]
    | cons d ds =>
      have := ih (fun x hx => h x (by simpa [List.getLast?_cons_cons] using hx))
      simp only [rstripCrLf] at this ⊢
      rw [this]

theorem rstripCrLf_nl (x : Str) (h : ∀ c ∈ x.getLast?, c ≠ '\n' ∧ c ≠ '\r') : rstripCrLf (x ++ ['\n']) = x := by
  induction x with
  | nil => simp [rstripCrLf]
  | cons c cs ih =>
    cases cs with
    | nil =>
      have := h c (by simp)
      simp [rstripCrLf, this.1, this.2]
    | cons d ds =>
      have := ih (fun x hx => h x (by simpa [List.getLast?_cons_cons] using hx))
      simp only [List.cons_append, rstripCrLf] at this ⊢
      rw [this]

def LastOK (x : Str) : Prop := ∀ c ∈ x.getLast?, c ≠ '\n' ∧ c ≠ '\r'

theorem joinNl_ne_nil (l : Str) (ls : List Str) (h : l ≠ []) : Props.C06.joinNl (l :: ls) ≠ [] := by
  cases ls with
  | nil => simpa [Props.C06.joinNl] using h
  | cons m ms => cases l <;> simp_all [Props.C06.joinNl]

theorem lastOK_joinNl (l : Str) (ls : List Str) (hl : LastOK l) (hls : ∀ x ∈ ls, x ≠ [] ∧ LastOK x) :
    LastOK (Props.C06.joinNl (l :: ls)) := by
  induction ls generalizing l with
  | nil => simpa [Props.C06.joinNl] using hl
  | cons m ms ih =>
    have hm := hls m (by simp)
    have := ih m hm.2 (fun x hx => hls x (by simp [hx]))
    have hne := joinNl_ne_nil m ms hm.1
    intro c hc
    have e : Props.C06.joinNl (l :: m :: ms) = (l ++ ['\n']) ++ Props.C06.joinNl (m :: ms) := by simp [Props.C06.joinNl]
    rw [e, List.getLast?_append] at hc
    cases hj : (Props.C06.joinNl (m :: ms)).getLast? with
    | none =>
      have : Props.C06.joinNl (m :: ms) = [] := List.getLast?_eq_none_iff.mp hj
      exact absurd this hne
    | some d =>
      rw [hj] at hc
      have hcd : c = d := by simpa using hc.symm
      rw [hcd]
      exact this d hj


open Props.C06 in
theorem dropNameChars_name (n rest : Str) (h : ∀ c ∈ n, isHeaderNameChar c = true) :
    Model.Email.dropNameChars (n ++ ':' :: rest) = ':' :: rest := by
  induction n with
  | nil =>
    have : isHeaderNameChar ':' = false := by decide
    simp [Model.Email.dropNameChars, this]
  | cons c cs ih =>
    simp only [List.cons_append, Model.Email.dropNameChars, h c (by simp), if_true]
    exact ih (fun d hd => h d (by simp [hd]))

theorem not_from (n rest : Str) (hsp : ' ' ∉ n) : startsWith (n ++ ':' :: rest) fromSpace = false := by
  -- position |n| holds a colon, which "From " does not; if |n| ≥ 5 the fifth character is in `n` and is not a space
  have hF : fromSpace = ['F', 'r', 'o', 'm', ' '] := rfl
  rw [hF]
  match n, hsp with
  | [], _ => simp [startsWith]
  | [a], _ => simp [startsWith]
  | [a, b], _ => simp [startsWith]
  | [a, b, c], _ => simp [startsWith]
  | [a, b, c, d], _ => simp [startsWith]
  | a :: b :: c :: d :: e :: r, hsp =>
    have : e ≠ ' ' := fun h => hsp (by simp [h])
    simp [startsWith, this]

open Props.C06 in
/-- the source lines of one field, the first one and the rest, as the header parser reads them -/
theorem field_src (f : Field) (hf : HF f) (fin : Bool) (first : Str) (rest : List Str)
    (hw : withEnds (fieldLines f) fin = first :: rest) :
    headerSourceParse first rest = (f.name, Props.C06.joinNl (f.value :: f.conts)) ∧
    FirstOK first ∧ (∀ c ∈ rest, headP (fun c => c = ' ' || c = '\t') c = true) ∧
    (∀ l ∈ first :: rest, isHeaderLine l = true) := by
  -- the first source line is the declaration line followed by its terminator
  obtain ⟨t0, ht0, hfirst⟩ : ∃ t0, (t0 = [] ∨ t0 = ['\n']) ∧ first = (f.name ++ ':' :: f.sp ++ f.value) ++ t0 := by
    cases hc : f.conts with
    | nil =>
      simp only [fieldLines, hc, withEnds, List.cons.injEq] at hw
      cases fin with
      | true => exact ⟨['\n'], Or.inr rfl, by rw [← hw.1]; simp⟩
      | false => exact ⟨[], Or.inl rfl, by rw [← hw.1]; simp⟩
    | cons c cs =>
      simp only [fieldLines, hc, withEnds, List.cons.injEq] at hw
      exact ⟨['\n'], Or.inr rfl, by rw [← hw.1]⟩
  have hcolon : ':' ∉ f.name := fun hm => (hf.nameCh _ hm).2.1 rfl
  have hspn : ' ' ∉ f.name := fun hm => (hf.nameCh _ hm).2.2.1 rfl
  have hfirst' : first = f.name ++ ':' :: (f.sp ++ f.value ++ t0) := by rw [hfirst]; simp [List.append_assoc]
  obtain ⟨c0, cs0, hn0⟩ : ∃ c cs, f.name = c :: cs := by
    cases hn : f.name with
    | nil => exact absurd hn hf.nameNe
    | cons c cs => exact ⟨c, cs, rfl⟩
  have hc0 := hf.nameCh c0 (by rw [hn0]; simp)
  -- the continuation source lines
  have hrest : ∀ c ∈ rest, ∃ c' ∈ f.conts, ∃ t, c = c' ++ t := by
    intro c hc
    have hmem : c ∈ withEnds (fieldLines f) fin := by rw [hw]; exact List.mem_cons_of_mem _ hc
    have hall : ∀ ls : List Str, ∀ x ∈ withEnds ls fin, ∃ x' ∈ ls, ∃ t, x = x' ++ t := by
      intro ls
      induction ls with
      | nil => intro x hx; cases hx
      | cons l ls ih =>
        cases ls with
        | nil => intro x hx; simp only [withEnds, List.mem_singleton] at hx; exact ⟨l, by simp, _, hx⟩
        | cons m r =>
          intro x hx
          simp only [withEnds, List.mem_cons] at hx
          rcases hx with rfl | hx
          · exact ⟨l, by simp, _, rfl⟩
          · obtain ⟨x', hx', t, e⟩ := ih x (by simpa [withEnds] using hx)
            exact ⟨x', List.mem_cons_of_mem _ hx', t, e⟩
    -- `c` comes from a continuation line: the head of the list is `first`
    cases hcs : f.conts with
    | nil =>
      simp only [fieldLines, hcs, withEnds, List.cons.injEq] at hw
      rw [← hw.2] at hc; cases hc
    | cons c1 cs1 =>
      have hw' : rest = withEnds (c1 :: cs1) fin := by
        simp only [fieldLines, hcs, withEnds, List.cons.injEq] at hw
        exact hw.2.symm
      rw [hw'] at hc
      obtain ⟨x', hx', t, e⟩ := hall (c1 :: cs1) c hc
      exact ⟨x', hx', t, e⟩
  have hrestHead : ∀ c ∈ rest, headP (fun c => c = ' ' || c = '\t') c = true := by
    intro c hc
    obtain ⟨c', hc', t, rfl⟩ := hrest c hc
    have := (hf.conts c' hc').1
    cases c' with
    | nil => simp [headP] at this
    | cons x xs => simpa [headP] using this
  refine ⟨?_, ?_, hrestHead, ?_⟩
  · -- header_source_parse
    unfold headerSourceParse
    rw [hfirst', partitionChar_split ':' f.name _ hcolon]
    simp only
    -- what follows the blanks after the colon
    have hflat : (first :: rest).flatten = Props.C06.joinNl (fieldLines f) ++ (if fin then ['\n'] else []) := by
      rw [← hw]; exact withEnds_flatten _ _ (by simp [fieldLines])
    have hjoin : Props.C06.joinNl (fieldLines f) =
        (f.name ++ ':' :: f.sp) ++ Props.C06.joinNl (f.value :: f.conts) := by
      cases hc : f.conts with
      | nil => simp [fieldLines, hc, Props.C06.joinNl]
      | cons c cs => simp [fieldLines, hc, Props.C06.joinNl, List.append_assoc]
    have hrf : t0 ++ rest.flatten =
        (Props.C06.joinNl (f.value :: f.conts) ++ (if fin then ['\n'] else [])).drop f.value.length := by
      have h1 : first ++ rest.flatten = (f.name ++ ':' :: f.sp) ++ (Props.C06.joinNl (f.value :: f.conts) ++ (if fin then ['\n'] else [])) := by
        have := hflat
        simp only [List.flatten_cons] at this
        rw [this, hjoin]; simp [List.append_assoc]
      rw [hfirst] at h1
      have h2 : (f.name ++ ':' :: f.sp) ++ (f.value ++ (t0 ++ rest.flatten)) =
          (f.name ++ ':' :: f.sp) ++ (Props.C06.joinNl (f.value :: f.conts) ++ (if fin then ['\n'] else [])) := by
        rw [← h1]; simp [List.append_assoc]
      have h3 := List.append_cancel_left h2
      have : (f.value ++ (t0 ++ rest.flatten)).drop f.value.length = t0 ++ rest.flatten := by simp
      rw [← this, h3]
    have hval : lstripSpTab (f.sp ++ f.value ++ t0) = f.value ++ t0 := by
      rw [List.append_assoc]
      apply lstripSpTab_append _ _ hf.sp
      intro c hc
      cases hv : f.value with
      | nil =>
        rw [hv] at hc
        rcases ht0 with h | h
        · rw [h] at hc; simp at hc
        · rw [h] at hc; simp at hc; subst hc; exact ⟨by decide, by decide⟩
      | cons v vs =>
        rw [hv] at hc
        have hcv : c = v := by simpa using hc.symm
        rw [hcv]
        exact hf.valueHead v (by rw [hv]; simp)
    rw [hval, List.append_assoc, hrf]
    have hJ : (Props.C06.joinNl (f.value :: f.conts) ++ (if fin then ['\n'] else [])).drop f.value.length =
        (Props.C06.joinNl (f.value :: f.conts)).drop f.value.length ++ (if fin then ['\n'] else []) := by
      have hle : f.value.length ≤ (Props.C06.joinNl (f.value :: f.conts)).length := by
        cases f.conts <;> simp [Props.C06.joinNl]
      rw [List.drop_append_of_le_length hle]
    have hJ2 : f.value ++ (Props.C06.joinNl (f.value :: f.conts)).drop f.value.length = Props.C06.joinNl (f.value :: f.conts) := by
      cases f.conts <;> simp [Props.C06.joinNl]
    rw [hJ, ← List.append_assoc, hJ2]
    have hlast : LastOK (Props.C06.joinNl (f.value :: f.conts)) :=
      lastOK_joinNl f.value f.conts hf.valueLast (fun x hx => by
        refine ⟨?_, (hf.conts x hx).2⟩
        intro e; have := (hf.conts x hx).1; rw [e] at this; simp [headP] at this)
    congr 1
    cases fin with
    | true => exact rstripCrLf_nl _ hlast
    | false => simpa using rstripCrLf_id _ hlast
  · refine ⟨?_, ?_, ?_⟩
    · rw [hfirst', hn0]; simp [headP, hc0.2.2.1, hc0.2.2.2]
    · rw [hfirst']; exact not_from f.name _ hspn
    · rw [hfirst', hn0]; simp [headP, hc0.2.1]
  · intro l hl
    rcases List.mem_cons.mp hl with rfl | hl
    · unfold isHeaderLine
      rw [hfirst', dropNameChars_name f.name _ (fun c hc => (hf.nameCh c hc).1)]
      simp [headP]
    · unfold isHeaderLine
      have := hrestHead l hl
      cases l with
      | nil => simp [headP] at this
      | cons x xs =>
        simp only [headP, Bool.or_eq_true, decide_eq_true_eq] at this
        rcases this with h | h <;> simp [headP, h]


/-! ### merging items with distinct names -/

def keyOf (nv : Str × Str) : Str := strip (lowerAscii nv.1)

def dd (acc : List Str) (ns : List Str) : List Str :=
  ns.foldl (fun acc n => if acc.contains n then acc else acc ++ [n]) acc

theorem dd_length_le (ns acc : List Str) : (dd acc ns).length ≤ acc.length + ns.length := by
  induction ns generalizing acc with
  | nil => simp [dd]
  | cons n ns ih =>
    simp only [dd, List.foldl_cons, List.length_cons]
    split
    · have := ih acc; simp only [dd] at this; omega
    · have := ih (acc ++ [n]); simp only [dd, List.length_append, List.length_singleton] at this; omega

theorem dset_absent (d : Dict) (k v : Str) (h : k ∉ d.map (·.1)) : dset d k v = d ++ [(k, v)] := by
  induction d with
  | nil => rfl
  | cons a as ih =>
    obtain ⟨a1, a2⟩ := a
    simp only [List.map_cons, List.mem_cons, not_or] at h
    have : ¬ a1 = k := fun e => h.1 e.symm
    simp [dset, this, ih h.2]

theorem lookup_absent {β} (d : List (Str × β)) (k : Str) (h : k ∉ d.map (·.1)) : d.lookup k = none := by
  induction d with
  | nil => rfl
  | cons a as ih =>
    obtain ⟨a1, a2⟩ := a
    simp only [List.map_cons, List.mem_cons, not_or] at h
    have hb : (k == a1) = false := by simpa using h.1
    simp [List.lookup, hb, ih h.2]

theorem vset_absent (d : VDict) (k : Str) (v : List Str) (h : k ∉ d.map (·.1)) : vset d k v = d ++ [(k, v)] := by
  induction d with
  | nil => rfl
  | cons a as ih =>
    obtain ⟨a1, a2⟩ := a
    simp only [List.map_cons, List.mem_cons, not_or] at h
    have : ¬ a1 = k := fun e => h.1 e.symm
    simp [vset, this, ih h.2]

/-- the values kept for a name spelled once: its trimmed value, unless empty -/
def once (v : Str) : List Str := if (strip v).isEmpty then [] else [strip v]

theorem joinNl_once (v : Str) : Model.Email.joinNl (once v) = strip v := by
  unfold once
  cases h : (strip v).isEmpty with
  | true => simp only [if_true, Model.Email.joinNl]; exact (List.isEmpty_iff.mp h).symm
  | false => simp [Model.Email.joinNl]

theorem fold_distinct (items : List (Str × Str)) (d : VDict)
    (hlen : (dd (d.map (·.1)) (items.map keyOf)).length = d.length + items.length) :
    items.foldl mergeStep d = d ++ items.map (fun nv => (keyOf nv, once nv.2)) := by
  induction items generalizing d with
  | nil => simp
  | cons nv rest ih =>
    simp only [List.map_cons, dd, List.foldl_cons, List.length_cons] at hlen
    have hnot : (d.map (·.1)).contains (keyOf nv) = false := by
      cases hc : (d.map (·.1)).contains (keyOf nv) with
      | false => rfl
      | true =>
        rw [hc] at hlen
        simp only [if_true] at hlen
        have := dd_length_le (rest.map keyOf) (d.map (·.1))
        simp only [dd, List.length_map] at this
        omega
    have hnm : keyOf nv ∉ d.map (·.1) := by simpa using hnot
    rw [hnot] at hlen
    simp only [Bool.false_eq_true, if_false] at hlen
    have hstep : mergeStep d nv = d ++ [(keyOf nv, once nv.2)] := by
      unfold mergeStep
      simp only
      have : d.lookup (strip (lowerAscii nv.1)) = none := lookup_absent d _ hnm
      rw [this]
      have hv : (if (strip nv.2).isEmpty || ((none : Option (List Str)).getD []).contains (strip nv.2) then (none : Option (List Str)).getD []
          else (none : Option (List Str)).getD [] ++ [strip nv.2]) = once nv.2 := by
        unfold once
        cases (strip nv.2).isEmpty <;> simp
      rw [hv]
      exact vset_absent d _ _ hnm
    simp only [List.foldl_cons, hstep]
    rw [ih (d ++ [(keyOf nv, once nv.2)]) (by
      simp only [List.map_append, List.map_cons, List.map_nil, List.length_append, List.length_singleton, dd]
      rw [hlen]; omega)]
    simp [List.append_assoc]

theorem mergeItems_distinct (items : List (Str × Str))
    (hlen : (dd [] (items.map keyOf)).length = items.length) :
    mergeItems items = items.map (fun nv => (keyOf nv, strip nv.2)) := by
  unfold mergeItems
  have := fold_distinct items [] (by simpa using hlen)
  rw [this]
  simp only [List.nil_append, List.map_map]
  apply List.map_congr_left
  intro nv _
  simp only [Function.comp, joinNl_once]


/-! ### one paragraph -/

open Props.C06

def srcGroup (f : Field) (b : Bool) : Str × List Str :=
  match withEnds (fieldLines f) b with
  | first :: rest => (first, rest)
  | [] => ([], [])

theorem srcGroup_lines (f : Field) (b : Bool) : srcLines (srcGroup f b) = withEnds (fieldLines f) b := by
  unfold srcGroup
  cases hw : withEnds (fieldLines f) b with
  | nil =>
    cases hc : f.conts with
    | nil => simp [fieldLines, hc, withEnds] at hw
    | cons c cs => simp [fieldLines, hc, withEnds] at hw
  | cons first rest => rfl

def groupsOf : List Field → Bool → List (Str × List Str)
  | [], _ => []
  | [f], fin => [srcGroup f fin]
  | f :: g :: r, fin => srcGroup f true :: groupsOf (g :: r) fin

theorem flatMap_fieldLines_ne_nil (f : Field) (fs : List Field) : (f :: fs).flatMap fieldLines ≠ [] := by
  simp [fieldLines]

theorem withEnds_fields (fs : List Field) (fin : Bool) :
    withEnds (fs.flatMap fieldLines) fin = (groupsOf fs fin).flatMap srcLines := by
  induction fs with
  | nil => rfl
  | cons f fs ih =>
    cases fs with
    | nil => simp [groupsOf, srcGroup_lines]
    | cons g r =>
      simp only [List.flatMap_cons] at ih ⊢
      rw [withEnds_append _ _ fin (by simp [fieldLines]), ih, ← withEnds_true, ← srcGroup_lines]
      rfl

theorem groupsOf_facts (fs : List Field) (fin : Bool) (hf : ∀ f ∈ fs, HF f) :
    (∀ g ∈ groupsOf fs fin, FirstOK g.1 ∧ ∀ c ∈ g.2, headP (fun c => c = ' ' || c = '\t') c = true) ∧
    (∀ l ∈ (groupsOf fs fin).flatMap srcLines, isHeaderLine l = true) ∧
    (groupsOf fs fin).map (fun g => headerSourceParse g.1 g.2) =
      fs.map fun f => (f.name, Props.C06.joinNl (f.value :: f.conts)) := by
  have one : ∀ f b, HF f → FirstOK (srcGroup f b).1 ∧
      (∀ c ∈ (srcGroup f b).2, headP (fun c => c = ' ' || c = '\t') c = true) ∧
      (∀ l ∈ srcLines (srcGroup f b), isHeaderLine l = true) ∧
      headerSourceParse (srcGroup f b).1 (srcGroup f b).2 = (f.name, Props.C06.joinNl (f.value :: f.conts)) := by
    intro f b hff
    have hl := srcGroup_lines f b
    obtain ⟨h1, h2, h3, h4⟩ := field_src f hff b (srcGroup f b).1 (srcGroup f b).2 (by rw [← hl]; rfl)
    exact ⟨h2, h3, h4, h1⟩
  induction fs with
  | nil => exact ⟨(by intro g hg; cases hg), (by intro l hl; simp [groupsOf] at hl), rfl⟩
  | cons f fs ih =>
    cases fs with
    | nil =>
      obtain ⟨a, b, c, d⟩ := one f fin (hf f (by simp))
      refine ⟨?_, ?_, ?_⟩
      · intro g hg; simp only [groupsOf, List.mem_singleton] at hg; subst hg; exact ⟨a, b⟩
      · intro l hl; simp only [groupsOf, List.flatMap_cons, List.flatMap_nil, List.append_nil] at hl; exact c l hl
      · simp [groupsOf, d]
    | cons g r =>
      obtain ⟨a, b, c, d⟩ := one f true (hf f (by simp))
      obtain ⟨i1, i2, i3⟩ := ih (fun x hx => hf x (by simp [hx]))
      refine ⟨?_, ?_, ?_⟩
      · intro x hx
        simp only [groupsOf, List.mem_cons] at hx
        rcases hx with rfl | hx
        · exact ⟨a, b⟩
        · exact i1 x (by simpa [groupsOf] using hx)
      · intro l hl
        simp only [groupsOf, List.flatMap_cons, List.mem_append] at hl
        rcases hl with hl | hl
        · exact c l hl
        · exact i2 l (by simpa [groupsOf] using hl)
      · simp only [groupsOf, List.map_cons, d]
        congr 1

/-- **one paragraph through the header parser**: uniquely named well-formed fields come back as
`(lower-cased name, trimmed value)` pairs in order -/
theorem getParagraphData_para (fs : List Field) (fin : Bool) (hne : fs ≠ []) (hf : ∀ f ∈ fs, HF f)
    (hlines : ∀ l ∈ fs.flatMap fieldLines, NoT l ∧ l ≠ [])
    (hdist : (dd [] (fs.map fun f => keyOf (f.name, ([] : Str)))).length = fs.length) :
    getParagraphData (Props.C06.joinNl (fs.flatMap fieldLines) ++ (if fin then ['\n'] else [])) =
      fs.map fun f => (strip (lowerAscii f.name), strip (Props.C06.joinNl (f.value :: f.conts))) := by
  obtain ⟨f0, fs0, hfs⟩ : ∃ f fs', fs = f :: fs' := by
    cases fs with
    | nil => exact absurd rfl hne
    | cons f fs' => exact ⟨f, fs', rfl⟩
  have hlne : fs.flatMap fieldLines ≠ [] := by rw [hfs]; exact flatMap_fieldLines_ne_nil f0 fs0
  have hske := splitKeepEnds_joinNl (fs.flatMap fieldLines) fin hlne hlines
  obtain ⟨g1, g2, g3⟩ := groupsOf_facts fs fin hf
  have htext_ne : (Props.C06.joinNl (fs.flatMap fieldLines) ++ (if fin then ['\n'] else [])).isEmpty = false := by
    have : Props.C06.joinNl (fs.flatMap fieldLines) ≠ [] := by
      cases hl : fs.flatMap fieldLines with
      | nil => exact absurd hl hlne
      | cons l ls => exact joinNl_ne_nil l ls (hlines l (by rw [hl]; simp)).2
    cases hj : Props.C06.joinNl (fs.flatMap fieldLines) with
    | nil => exact absurd hj this
    | cons c cs => simp
  unfold getParagraphData
  rw [htext_ne]
  simp only [Bool.false_eq_true, if_false]
  have hparse : parseHeaders (Props.C06.joinNl (fs.flatMap fieldLines) ++ (if fin then ['\n'] else [])) =
      { headers := fs.map fun f => (f.name, Props.C06.joinNl (f.value :: f.conts)),
        unixfrom := none, defects := false, payload := [] } := by
    unfold parseHeaders
    simp only [hske, withEnds_fields, takeHeaderLines_all _ g2]
    rw [parse_groups _ _ 0 _ g1]
    simp [flushHeader, g3]
  rw [hparse]
  have hhne : (fs.map fun f => (f.name, Props.C06.joinNl (f.value :: f.conts))).isEmpty = false := by
    rw [hfs]; rfl
  simp only [hhne, Bool.false_or, Bool.false_eq_true, if_false, List.isEmpty_nil, if_true, List.append_nil, List.nil_append]
  rw [mergeItems_distinct _ (by
    have e : (fs.map fun f => (f.name, Props.C06.joinNl (f.value :: f.conts))).map keyOf =
        fs.map fun f => keyOf (f.name, ([] : Str)) := by simp [List.map_map, keyOf, Function.comp]
    rw [e, List.length_map]; exact hdist)]
  simp [List.map_map, keyOf, Function.comp]


/-! ### splitting the document into paragraphs -/

/-- no `\n\n` starts inside `q` when `q` is followed by `tail` -/
def NoBreak : Str → Str → Prop
  | [], _ => True
  | c :: cs, tail => (c = '\n' → headP (· = '\n') (cs ++ tail) = false) ∧ NoBreak cs tail

theorem spa_chunk (q tail cur : Str) (fuel : Nat) (hq : NoBreak q tail) (hfuel : (q ++ tail).length < fuel) :
    splitParagraphsAux fuel (q ++ tail) cur = splitParagraphsAux (fuel - q.length) tail (q.reverse ++ cur) := by
  induction q generalizing fuel cur with
  | nil => simp
  | cons c cs ih =>
    obtain ⟨h1, h2⟩ := hq
    cases fuel with
    | zero => simp at hfuel
    | succ f =>
      simp only [List.cons_append, splitParagraphsAux]
      have hcond : (c = '\n' && headP (· = '\n') (cs ++ tail)) = false := by
        by_cases hc : c = '\n'
        · simp [hc, h1 hc]
        · simp [hc]
      simp only [hcond, Bool.false_eq_true, if_false]
      rw [ih (c :: cur) f h2 (by simp at hfuel ⊢; omega)]
      simp only [List.length_cons, List.reverse_cons, List.append_assoc, List.singleton_append]
      congr 1
      omega

theorem noBreak_line (l tail : Str) (h : '\n' ∉ l) : NoBreak l tail := by
  induction l with
  | nil => trivial
  | cons c cs ih =>
    exact ⟨fun e => absurd (by simp [e]) h, ih (fun hm => h (List.mem_cons_of_mem _ hm))⟩

theorem noBreak_append (a b tail : Str) (ha : NoBreak a (b ++ tail)) (hb : NoBreak b tail) : NoBreak (a ++ b) tail := by
  induction a with
  | nil => exact hb
  | cons c cs ih =>
    obtain ⟨h1, h2⟩ := ha
    exact ⟨fun e => by simpa [List.append_assoc] using h1 e, ih h2⟩

/-- a paragraph's text (non-empty lines joined by `\n`) contains no paragraph break, whatever non-newline
character or end of text follows -/
theorem noBreak_joinNl (ls : List Str) (tail : Str) (h : ∀ l ∈ ls, NoT l ∧ l ≠ []) :
    NoBreak (Props.C06.joinNl ls) tail := by
  induction ls with
  | nil => trivial
  | cons l ls ih =>
    cases ls with
    | nil => simpa [Props.C06.joinNl] using noBreak_line l tail (h l (by simp)).1.1
    | cons m r =>
      have e : Props.C06.joinNl (l :: m :: r) = l ++ ('\n' :: Props.C06.joinNl (m :: r)) := by simp [Props.C06.joinNl]
      rw [e]
      apply noBreak_append
      · exact noBreak_line l _ (h l (by simp)).1.1
      · refine ⟨fun _ => ?_, ih (fun x hx => h x (by simp [hx]))⟩
        -- the next line is not empty and holds no newline
        have hm := h m (by simp)
        cases hmm : m with
        | nil => exact absurd hmm hm.2
        | cons c cs =>
          have hc : c ≠ '\n' := fun e => hm.1.1 (by rw [hmm]; simp [e])
          cases r <;> simp [Props.C06.joinNl, headP, hc]

theorem dropWhileSpTab_blanks (l rest : Str) (hl : ∀ c ∈ l, c = ' ' ∨ c = '\t') :
    dropWhileSpTab (l ++ '\n' :: rest) = '\n' :: rest := by
  induction l with
  | nil => simp [dropWhileSpTab]
  | cons c cs ih =>
    have hc : (c = ' ' || c = '\t') = true := by rcases hl c (by simp) with h | h <;> simp [h]
    simp only [List.cons_append, dropWhileSpTab, hc, if_true]
    exact ih (fun d hd => hl d (by simp [hd]))

theorem skip_seps (sep : List Str) (R : Str) (fuel : Nat) (hs : ∀ l ∈ sep, ∀ c ∈ l, c = ' ' ∨ c = '\t')
    (hR : ∀ c ∈ R.head?, c ≠ ' ' ∧ c ≠ '\t' ∧ c ≠ '\n') (hfuel : sep.length ≤ fuel) :
    skipBlankLines fuel ((sep.flatMap fun l => l ++ ['\n']) ++ R) = R := by
  induction sep generalizing fuel with
  | nil =>
    simp only [List.flatMap_nil, List.nil_append]
    cases fuel with
    | zero => rfl
    | succ f =>
      simp only [skipBlankLines]
      cases R with
      | nil => rfl
      | cons c cs =>
        have := hR c (by simp)
        simp [dropWhileSpTab, this.1, this.2.1, this.2.2]
  | cons l ls ih =>
    cases fuel with
    | zero => simp at hfuel
    | succ f =>
      have e : ((l :: ls).flatMap fun l => l ++ ['\n']) ++ R = l ++ '\n' :: ((ls.flatMap fun l => l ++ ['\n']) ++ R) := by
        simp [List.flatMap_cons, List.append_assoc]
      have hdrop := dropWhileSpTab_blanks l ((ls.flatMap fun l => l ++ ['\n']) ++ R) (hs l (by simp))
      rw [e]
      simp only [skipBlankLines, hdrop]
      exact ih f (fun x hx => hs x (by simp [hx])) (by simpa using hfuel)


def pieces : List Para → Bool → List Str
  | [], _ => []
  | [p], fin => [renderPara p ++ (if fin then ['\n'] else [])]
  | p :: q :: r, fin => renderPara p :: pieces (q :: r) fin

structure ParaH (p : Para) : Prop where
  ne : p.fields ≠ []
  lines : ∀ l ∈ paraLines p, NoT l ∧ l ≠ []
  sep : ∀ l ∈ p.sep, ∀ c ∈ l, c = ' ' ∨ c = '\t'
  head : ∀ c ∈ (renderPara p).head?, c ≠ ' ' ∧ c ≠ '\t' ∧ c ≠ '\n'

theorem flatMap_length_ge (sep : List Str) : sep.length ≤ (sep.flatMap fun l => l ++ ['\n']).length := by
  induction sep with
  | nil => simp
  | cons l ls ih => simp only [List.flatMap_cons, List.length_append, List.length_cons, List.length_nil] at ih ⊢; omega

theorem render_head (p : Para) (rest : List Para) (fin : Bool) (hp : ParaH p) :
    ∀ c ∈ (render (p :: rest) fin).head?, c ≠ ' ' ∧ c ≠ '\t' ∧ c ≠ '\n' := by
  intro c hc
  have hne : renderPara p ≠ [] := by
    rw [Props.C06.renderPara_eq]
    cases hl : paraLines p with
    | nil =>
      cases hf : p.fields with
      | nil => exact absurd hf hp.ne
      | cons f fs => simp [paraLines, hf, fieldLines] at hl
    | cons l ls => exact joinNl_ne_nil l ls (hp.lines l (by rw [hl]; simp)).2
  apply hp.head c
  cases hr : renderPara p with
  | nil => exact absurd hr hne
  | cons x xs =>
    cases rest with
    | nil => simp only [render, hr] at hc; simpa using hc
    | cons q r => simp only [render, hr] at hc; simpa using hc

theorem split_render (paras : List Para) (fin : Bool) (hp : ∀ p ∈ paras, ParaH p) (hne : paras ≠ []) :
    ∀ fuel cur, (render paras fin).length < fuel →
      splitParagraphsAux fuel (render paras fin) cur =
        (match pieces paras fin with | [] => [] | x :: xs => (cur.reverse ++ x) :: xs) := by
  induction paras with
  | nil => exact absurd rfl hne
  | cons p rest ih =>
    have ph := hp p (by simp)
    intro fuel cur hfuel
    cases rest with
    | nil =>
      simp only [render, pieces]
      have hnb : NoBreak (renderPara p ++ (if fin then ['\n'] else [])) [] := by
        apply noBreak_append
        · rw [Props.C06.renderPara_eq]; exact noBreak_joinNl _ _ ph.lines
        · cases fin <;> simp [NoBreak, headP]
      have := spa_chunk (renderPara p ++ (if fin then ['\n'] else [])) [] cur fuel hnb (by simpa [render] using hfuel)
      simp only [List.append_nil] at this
      rw [this]
      cases fuel - (renderPara p ++ if fin = true then ['\n'] else []).length <;> simp [splitParagraphsAux]
    | cons q r =>
      have ih' := ih (fun x hx => hp x (List.mem_cons_of_mem _ hx)) (by simp)
      have hr : render (p :: q :: r) fin =
          renderPara p ++ ('\n' :: '\n' :: ((p.sep.flatMap fun l => l ++ ['\n']) ++ render (q :: r) fin)) := by
        simp [render, List.append_assoc]
      have hnb : NoBreak (renderPara p) ('\n' :: '\n' :: ((p.sep.flatMap fun l => l ++ ['\n']) ++ render (q :: r) fin)) := by
        rw [Props.C06.renderPara_eq]; exact noBreak_joinNl _ _ ph.lines
      rw [hr] at hfuel ⊢
      rw [spa_chunk _ _ cur fuel hnb hfuel]
      simp only [List.length_append, List.length_cons] at hfuel
      obtain ⟨f, hf⟩ : ∃ f, fuel - (renderPara p).length = f + 1 := ⟨fuel - (renderPara p).length - 1, by omega⟩
      rw [hf]
      simp only [splitParagraphsAux, headP, decide_true, Bool.and_self, if_true, List.tail_cons, List.length_cons]
      rw [skip_seps p.sep (render (q :: r) fin) _ ph.sep (render_head q r fin (hp q (by simp)))
        (by have := flatMap_length_ge p.sep; simp only [List.length_append]; omega)]
      rw [ih' f [] (by omega)]
      simp only [pieces, List.reverse_append, List.reverse_reverse, List.reverse_nil, List.nil_append]
      cases hpc : pieces (q :: r) fin with
      | nil => cases r <;> simp [pieces] at hpc
      | cons x xs => simp


/-! ### from the grammar to the facts, and the theorem -/

def inRange (c : Char) : Bool := 0x21 ≤ c.toNat && c.toNat ≤ 0x7e

theorem range_lower_not_space : ∀ n ∈ List.range 127, 33 ≤ n → isSpace (lowerAsciiChar (Char.ofNat n)) = false := by
  decide +kernel

theorem inRange_facts {c : Char} (h : inRange c = true) :
    c ≠ ' ' ∧ c ≠ '\t' ∧ c ≠ '\n' ∧ c ≠ '\r' ∧ isSpace (lowerAsciiChar c) = false := by
  simp only [inRange, Bool.and_eq_true, decide_eq_true_eq] at h
  refine ⟨?_, ?_, ?_, ?_, ?_⟩
  · intro e; subst e; revert h; decide
  · intro e; subst e; revert h; decide
  · intro e; subst e; revert h; decide
  · intro e; subst e; revert h; decide
  · have := range_lower_not_space c.toNat (by simp; omega) h.1
    rwa [Char.ofNat_toNat] at this

theorem headerNameChar_of {c : Char} (h : inRange c = true) (hc : c ≠ ':') : isHeaderNameChar c = true := by
  simp only [inRange, Bool.and_eq_true, decide_eq_true_eq] at h
  have hne : c.toNat ≠ 0x3a := by
    intro e
    apply hc
    have := Char.ofNat_toNat c
    rw [e] at this
    rw [← this]
  simp only [isHeaderNameChar, Bool.or_eq_true, Bool.and_eq_true, decide_eq_true_eq]
  omega

theorem lineOk_facts (l : Str) (h : lineOk l = true) : NoT l ∧ LastOK l := by
  simp only [lineOk, Bool.and_eq_true, Bool.not_eq_true'] at h
  have h1 : '\n' ∉ l := by simpa using h.1.1
  have h2 : '\r' ∉ l := by simpa using h.1.2
  refine ⟨⟨h1, h2⟩, ?_⟩
  intro c hc
  have : c ∈ l := List.mem_of_getLast? hc
  exact ⟨fun e => h1 (e ▸ this), fun e => h2 (e ▸ this)⟩

theorem hf_of_fieldOk (f : Field) (h : fieldOk policyName f = true) :
    HF f ∧ (∀ l ∈ fieldLines f, NoT l ∧ l ≠ []) ∧ (∀ c ∈ f.name, inRange c = true) := by
  simp only [fieldOk, Bool.and_eq_true, Bool.not_eq_true', Bool.or_eq_true, List.all_eq_true, bne_iff_ne, ne_eq,
    policyName, List.isEmpty_eq_false_iff, decide_eq_true_eq, beq_iff_eq] at h
  obtain ⟨⟨⟨⟨⟨⟨⟨⟨hnne, hnall⟩, _⟩, _⟩, hvline⟩, hvhead⟩, hconts⟩, hsp⟩, hvsp⟩ := h
  have hrange : ∀ c ∈ f.name, inRange c = true := by
    intro c hc
    have := hnall c hc
    simp [inRange, this.1.1, this.1.2]
  have hncolon : ∀ c ∈ f.name, c ≠ ':' := fun c hc => (hnall c hc).2
  obtain ⟨hvT, hvL⟩ := lineOk_facts f.value hvline
  have hfacts : HF f := by
    refine ⟨hnne, ?_, hsp, ?_, hvL, ?_⟩
    · intro c hc
      have hr := inRange_facts (hrange c hc)
      exact ⟨headerNameChar_of (hrange c hc) (hncolon c hc), hncolon c hc, hr.1, hr.2.1⟩
    · intro c hc
      cases hv : f.value with
      | nil => rw [hv] at hc; cases hc
      | cons v vs =>
        rw [hv] at hc hvhead
        have hcv : c = v := by simpa using hc.symm
        rw [hcv]
        simp only [headP] at hvhead
        constructor <;> (intro e; subst e; revert hvhead; decide)
    · intro c hc
      have := hconts c hc
      refine ⟨?_, (lineOk_facts c this.1).2⟩
      have hcont := this.2
      simp only [Model.Deb822.isCont, Bool.and_eq_true] at hcont
      exact hcont.1
  refine ⟨hfacts, ?_, hrange⟩
  intro l hl
  rw [Props.C06.fieldLines_eq] at hl
  rcases List.mem_cons.mp hl with rfl | hl
  · refine ⟨⟨?_, ?_⟩, ?_⟩
    · intro hm
      simp only [Props.C06.declLine, List.mem_append, List.mem_cons] at hm
      rcases hm with (hm | hm | hm) | hm
      · exact (inRange_facts (hrange _ hm)).2.2.1 rfl
      · revert hm; decide
      · rcases hsp _ hm with e | e <;> (revert e; decide)
      · exact hvT.1 hm
    · intro hm
      simp only [Props.C06.declLine, List.mem_append, List.mem_cons] at hm
      rcases hm with (hm | hm | hm) | hm
      · exact (inRange_facts (hrange _ hm)).2.2.2.1 rfl
      · revert hm; decide
      · rcases hsp _ hm with e | e <;> (revert e; decide)
      · exact hvT.2 hm
    · cases hn : f.name with
      | nil => exact absurd hn hnne
      | cons c cs => simp [Props.C06.declLine, hn]
  · have := hconts l hl
    refine ⟨(lineOk_facts l this.1).1, ?_⟩
    intro e; subst e
    have := this.2
    simp [Model.Deb822.isCont, headP] at this


theorem head_joinNl_cons (x : Char) (l : Str) (rest : List Str) :
    (Props.C06.joinNl ((x :: l) :: rest)).head? = some x := by
  cases rest <;> simp [Props.C06.joinNl]

theorem strip_lower_name (n : Str) (h : ∀ c ∈ n, inRange c = true) : strip (lowerAscii n) = lowerAscii n := by
  apply Proofs.VersionPrint.strip_id
  intro c hc
  simp only [lowerAscii, List.mem_map] at hc
  obtain ⟨d, hd, rfl⟩ := hc
  exact (inRange_facts (h d hd)).2.2.2.2

theorem joinNl_value (f : Field) :
    Props.C06.joinNl (f.value :: f.conts) = (if f.conts.isEmpty then f.value else f.value ++ '\n' :: Props.C06.joinNl f.conts) := by
  cases f.conts <;> simp [Props.C06.joinNl]

theorem getParagraphsData_pieces (paras : List Para) (fin : Bool)
    (hp : ∀ p ∈ paras, p.fields ≠ [] ∧ (∀ f ∈ p.fields, fieldOk policyName f = true) ∧ distinctNames p = true) :
    (pieces paras fin).map getParagraphData = paras.map fun p => p.fields.map fun f =>
      (lowerAscii f.name, strip (if f.conts.isEmpty then f.value else f.value ++ '\n' :: Props.C06.joinNl f.conts)) := by
  have one : ∀ p, (p.fields ≠ [] ∧ (∀ f ∈ p.fields, fieldOk policyName f = true) ∧ distinctNames p = true) → ∀ b : Bool,
      getParagraphData (renderPara p ++ (if b then ['\n'] else [])) = p.fields.map fun f =>
        (lowerAscii f.name, strip (if f.conts.isEmpty then f.value else f.value ++ '\n' :: Props.C06.joinNl f.conts)) := by
    intro p ⟨hne, hfs, hd⟩ b
    have hkey : ∀ f ∈ p.fields, keyOf (f.name, ([] : Str)) = lowerAscii f.name :=
      fun f hf => strip_lower_name f.name (hf_of_fieldOk f (hfs f hf)).2.2
    have := getParagraphData_para p.fields b hne (fun f hf => (hf_of_fieldOk f (hfs f hf)).1)
      (by
        intro l hl
        simp only [List.mem_flatMap] at hl
        obtain ⟨f, hf, hlf⟩ := hl
        exact (hf_of_fieldOk f (hfs f hf)).2.1 l hlf)
      (by
        simp only [distinctNames, beq_iff_eq] at hd
        have e : (p.fields.map fun f => keyOf (f.name, ([] : Str))) = p.fields.map fun f => lowerAscii f.name :=
          List.map_congr_left hkey
        rw [e]
        simp only [dd]
        rw [← hd]; simp)
    rw [Props.C06.renderPara_eq]
    simp only [paraLines]
    rw [this]
    apply List.map_congr_left
    intro f hf
    have hk := hkey f hf
    simp only [keyOf] at hk
    rw [hk, joinNl_value]
  induction paras with
  | nil => rfl
  | cons p rest ih =>
    cases rest with
    | nil => simp only [pieces, List.map_cons, List.map_nil]; rw [one p (hp p (by simp)) fin]
    | cons q r =>
      simp only [pieces, List.map_cons]
      have := one p (hp p (by simp)) false
      have e0 : renderPara p ++ (if false = true then ['\n'] else []) = renderPara p := by simp
      rw [e0] at this
      rw [this]
      congr 1
      exact ih (fun x hx => hp x (List.mem_cons_of_mem _ hx))

theorem piece_ne_nil (paras : List Para) (fin : Bool) (hp : ∀ p ∈ paras, renderPara p ≠ []) :
    ∀ x ∈ pieces paras fin, x.isEmpty = false := by
  induction paras with
  | nil => intro x hx; cases hx
  | cons p rest ih =>
    have hpne := hp p (by simp)
    cases rest with
    | nil =>
      intro x hx
      simp only [pieces, List.mem_singleton] at hx
      subst hx
      cases hr : renderPara p with
      | nil => exact absurd hr hpne
      | cons c cs => simp
    | cons q r =>
      intro x hx
      simp only [pieces, List.mem_cons] at hx
      rcases hx with rfl | hx
      · cases hr : renderPara p with
        | nil => exact absurd hr hpne
        | cons c cs => rfl
      · exact ih (fun y hy => hp y (List.mem_cons_of_mem _ hy)) x (by simpa [pieces] using hx)

/-- **C06, header-style parser** — for every well-formed deb822 document with policy-legal field names
the model of `get_paragraphs_data` returns the document's paragraphs in order, each with exactly its
fields in order: names lower-cased, values trimmed, continuation lines kept, whatever the number of
empty or white-space-only separator lines and with or without a final newline. -/
theorem headers_sound (i : Input) (h : wfWith policyName i = true) :
    (Props.C06.model i).headers = .ok (expectedHeaders i) := by
  simp only [wfWith, Bool.and_eq_true, Bool.not_eq_true', List.all_eq_true, beq_iff_eq, List.isEmpty_eq_false_iff] at h
  obtain ⟨⟨hne, hparas⟩, htext⟩ := h
  have hfacts : ∀ p ∈ i.paras, p.fields ≠ [] ∧ (∀ f ∈ p.fields, fieldOk policyName f = true) ∧ distinctNames p = true := by
    intro p hp
    have := hparas p hp
    exact ⟨this.1.1.1, this.1.1.2, this.1.2⟩
  have hparaH : ∀ p ∈ i.paras, ParaH p := by
    intro p hp
    obtain ⟨hfne, hfs, _⟩ := hfacts p hp
    have hsep := (hparas p hp)
    simp only [Bool.or_eq_true, beq_iff_eq] at hsep
    refine ⟨hfne, ?_, fun l hl c hc => hsep.2 l hl c hc, ?_⟩
    · intro l hl
      simp only [paraLines, List.mem_flatMap] at hl
      obtain ⟨f, hf, hlf⟩ := hl
      exact (hf_of_fieldOk f (hfs f hf)).2.1 l hlf
    · intro c hc
      cases hpf : p.fields with
      | nil => exact absurd hpf hfne
      | cons f fs =>
        obtain ⟨hff, _, hrange⟩ := hf_of_fieldOk f (hfs f (by rw [hpf]; simp))
        cases hn : f.name with
        | nil => exact absurd hn hff.nameNe
        | cons x xs =>
          have hx := inRange_facts (hrange x (by rw [hn]; simp))
          have hhead : (renderPara p).head? = some x := by
            rw [Props.C06.renderPara_eq]
            simp only [paraLines, hpf, List.flatMap_cons, Props.C06.fieldLines_eq, Props.C06.declLine, hn]
            exact head_joinNl_cons x _ _
          rw [hhead] at hc
          have hcx : c = x := by simpa using hc.symm
          rw [hcx]
          exact ⟨hx.1, hx.2.1, hx.2.2.1⟩
  have hrender_ne : ∀ p ∈ i.paras, renderPara p ≠ [] := by
    intro p hp
    obtain ⟨hfne, hlines, _, _⟩ := hparaH p hp
    rw [Props.C06.renderPara_eq]
    cases hl : paraLines p with
    | nil =>
      cases hf : p.fields with
      | nil => exact absurd hf hfne
      | cons f fs => simp [paraLines, hf, fieldLines] at hl
    | cons l ls => exact joinNl_ne_nil l ls (hlines l (by rw [hl]; simp)).2
  have hsplit : splitInParagraphs i.text = pieces i.paras i.finalNl := by
    unfold splitInParagraphs
    rw [htext, split_render i.paras i.finalNl hparaH hne _ [] (by omega)]
    cases hpc : pieces i.paras i.finalNl with
    | nil => rfl
    | cons x xs =>
      simp only [List.reverse_nil, List.nil_append]
      rw [List.filter_eq_self.mpr]
      intro y hy
      have := piece_ne_nil i.paras i.finalNl hrender_ne y (by rw [hpc]; exact hy)
      simp [this]
  simp only [Props.C06.model, getParagraphsData, hsplit, expectedHeaders]
  rw [getParagraphsData_pieces i.paras i.finalNl hfacts]


/-! ### both parsers (hypothesis K3: narrow names) -/

theorem alnum_range {c : Char} (h : (isAsciiAlnum c || c == '-') = true) :
    (0x21 ≤ c.toNat && c.toNat ≤ 0x7e && c != ':') = true := by
  simp only [Bool.or_eq_true, beq_iff_eq] at h
  rcases h with h | h
  · simp only [isAsciiAlnum, Char.isAlphanum, Char.isAlpha, Char.isUpper, Char.isLower, Char.isDigit, Bool.or_eq_true,
      Bool.and_eq_true, decide_eq_true_eq] at h
    have hne : c ≠ ':' := by
      intro e; subst e; revert h; decide
    have hr : 0x21 ≤ c.toNat ∧ c.toNat ≤ 0x7e := by
      have h1 : c.val.toNat = c.toNat := rfl
      rcases h with (⟨a, b⟩ | ⟨a, b⟩) | ⟨a, b⟩ <;>
        (have a' := UInt32.le_iff_toNat_le.mp a; have b' := UInt32.le_iff_toNat_le.mp b; simp at a' b'; omega)
    simp [hr.1, hr.2, hne]
  · subst h; decide

theorem narrow_policy (n : Str) (h : narrowName n = true) : policyName n = true := by
  simp only [narrowName, Bool.and_eq_true, List.all_eq_true] at h
  obtain ⟨hh, ha⟩ := h
  cases n with
  | nil => simp [headP] at hh
  | cons c cs =>
    simp only [headP] at hh
    simp only [policyName, List.isEmpty_cons, Bool.not_false, Bool.true_and, Bool.and_eq_true, List.all_eq_true,
      Bool.not_eq_true', headP]
    refine ⟨fun x hx => by have := alnum_range (ha x hx); simpa [Bool.and_eq_true] using this, ?_⟩
    have : c ≠ '#' ∧ c ≠ '-' := by
      constructor <;> (intro e; subst e; revert hh; decide)
    simp [this.1, this.2]

theorem fieldOk_mono (f : Field) (h : fieldOk narrowName f = true) : fieldOk policyName f = true := by
  simp only [fieldOk, Bool.and_eq_true] at h ⊢
  obtain ⟨⟨⟨⟨⟨⟨h1, h2⟩, h3⟩, h4⟩, h5⟩, h6⟩, h7⟩ := h
  exact ⟨⟨⟨⟨⟨⟨narrow_policy _ h1, h2⟩, h3⟩, h4⟩, h5⟩, h6⟩, h7⟩

theorem wf_mono (i : Input) (h : wfWith narrowName i = true) : wfWith policyName i = true := by
  simp only [wfWith, Bool.and_eq_true, List.all_eq_true] at h ⊢
  obtain ⟨⟨h1, h2⟩, h3⟩ := h
  refine ⟨⟨h1, fun p hp => ?_⟩, h3⟩
  obtain ⟨⟨⟨a, b⟩, c⟩, d⟩ := h2 p hp
  exact ⟨⟨⟨a, fun f hf => fieldOk_mono f (b f hf)⟩, c⟩, d⟩

/-- **C06 (hypothesis K3)** — for every well-formed deb822 document whose field names are a letter
followed by letters, digits and hyphens, both the header-style parser and the line-tracking parser
return the document's paragraphs in order, each with exactly its fields in order, independently of
the number of separator lines and of a final newline. -/
theorem sound_narrow (i : Input) : holdsOnNarrow i (Props.C06.model i) = true := by
  unfold holdsOnNarrow holdsWith
  cases hw : wfWith narrowName i with
  | false => rfl
  | true =>
    have h1 := Props.C06.tracking_sound i hw
    have h2 := headers_sound i (wf_mono i hw)
    simp [h1, h2]

end Props.C06H
