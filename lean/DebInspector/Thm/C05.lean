/-
C05 — property theorems: clause 1 (line numbers) from a sublist argument, and `sound`: every clause,
for every text, by an invariant over the generator loop (accumulated output + abstract open paragraph).
-/
import DebInspector.Props.C05
import DebInspector.Proofs.Deb822
import DebInspector.Proofs.StrLemmas

namespace Props.C05
open Py Model.Deb822 Proofs.Deb822

theorem allNums_model (t : Str) : allNums (model t) = nums (parse t) := by
  simp [allNums, model, obsOf, nums, List.flatMap_map, List.map_map]
  rfl

/-- **for every text** the reported line numbers, in result order, are a sublist of `1, 2, …, n`
(`n` = number of source lines): each source line is reported at most once, under its true number -/
theorem numbers_sublist (t : Str) :
    (allNums (model t)).Sublist (List.range' 1 (srcLines t).length) := by
  rw [allNums_model]
  have := nums_go none (linesFromText t)
  simp only [stNums, List.nil_append, linesFromText, numberFrom_nums] at this
  exact this

/-- … hence strictly increasing across the whole result and within `1..n` -/
theorem numbers_increasing (t : Str) :
    (allNums (model t)).Pairwise (· < ·) ∧ ∀ n ∈ allNums (model t), 1 ≤ n ∧ n ≤ (srcLines t).length := by
  have hs := numbers_sublist t
  refine ⟨List.Pairwise.sublist hs (List.pairwise_lt_range'), ?_⟩
  intro n hn
  have := hs.subset hn
  simp only [List.mem_range'_1] at this
  omega

/-- non-vacuity: a blank line absorbed after a value-less declaration, junk next to a paragraph
boundary, a form feed inside a line -/
example : model "License:\n\n text\x0cmore\njunk\nA: b\n".toList =
    [[("license".toList, [(1, []), (2, []), (3, " text\x0cmore".toList)])],
     [("unknown".toList, [(4, "junk".toList)])],
     [("a".toList, [(5, "b".toList)])]] := by decide +kernel
example : holdsOn "License:\n\n text\x0cmore\njunk\nA: b\n".toList (model "License:\n\n text\x0cmore\njunk\nA: b\n".toList) = true := by
  decide +kernel


/-! ### raw fields as the loop builds them -/

def conts (src : List Str) (n cnt : Nat) : List NL :=
  (List.range cnt).map fun i => ⟨n + 1 + i, rstrip (lineAt src (n + 1 + i))⟩

def mkField (src : List Str) (n cnt : Nat) : Fld :=
  ⟨normName (lineAt src n), ⟨n, declValue (lineAt src n)⟩ :: conts src n cnt⟩

def mkFields (src : List Str) : Nat → List Nat → List Fld
  | _, [] => []
  | s, c :: cs => mkField src s c :: mkFields src (s + c + 1) cs

def total : List Nat → Nat
  | [] => 0
  | c :: cs => c + 1 + total cs

def declStarts (src : List Str) : Nat → List Nat → Prop
  | _, [] => True
  | s, c :: cs => isDecl (lineAt src s) = true ∧ declStarts src (s + c + 1) cs

theorem total_append (a b : List Nat) : total (a ++ b) = total a + total b := by
  induction a with
  | nil => simp [total]
  | cons c cs ih => simp [total, ih]; omega

theorem mkFields_append (src : List Str) (s : Nat) (a b : List Nat) :
    mkFields src s (a ++ b) = mkFields src s a ++ mkFields src (s + total a) b := by
  induction a generalizing s with
  | nil => simp [mkFields, total]
  | cons c cs ih =>
    simp only [List.cons_append, mkFields, total, ih]
    congr 3; omega

theorem declStarts_append (src : List Str) (s : Nat) (a b : List Nat) :
    declStarts src s (a ++ b) ↔ declStarts src s a ∧ declStarts src (s + total a) b := by
  induction a generalizing s with
  | nil => simp [declStarts, total]
  | cons c cs ih =>
    simp only [List.cons_append, declStarts, total, ih, and_assoc]
    have : s + c + 1 + total cs = s + (c + 1 + total cs) := by omega
    rw [this]

theorem conts_succ (src : List Str) (n cnt : Nat) :
    conts src n (cnt + 1) = conts src n cnt ++ [⟨n + 1 + cnt, rstrip (lineAt src (n + 1 + cnt))⟩] := by
  simp [conts, List.range_succ]

theorem fromLine_eq (src : List Str) (k : Nat) : fromLine ⟨k, lineAt src k⟩ = mkField src k 0 := by
  simp [fromLine, mkField, conts, normName, declValue]

theorem addLine_mkField (src : List Str) (done : List Fld) (n cnt : Nat) :
    addLine (done, mkField src n cnt) ⟨n + 1 + cnt, rstrip (lineAt src (n + 1 + cnt))⟩ = (done, mkField src n (cnt + 1)) := by
  simp [addLine, mkField, conts_succ]

/-! ### rstripLines -/

theorem consecutive_prefix (xs ys : List Nat) (h : consecutive (xs ++ ys) = true) : consecutive xs = true := by
  induction xs with
  | nil => rfl
  | cons a as ih =>
    cases as with
    | nil => rfl
    | cons b bs =>
      simp only [List.cons_append, consecutive, Bool.and_eq_true] at h ⊢
      exact ⟨h.1, ih h.2⟩

theorem consecutive_range' (n m : Nat) : consecutive (List.range' n m) = true := by
  induction m generalizing n with
  | zero => rfl
  | succ m ih =>
    cases m with
    | zero => rfl
    | succ m =>
      have := ih (n + 1)
      simp only [List.range'_succ] at this ⊢
      simp [consecutive, this]

theorem conts_nums (src : List Str) (n cnt : Nat) : (conts src n cnt).map (·.num) = List.range' (n + 1) cnt := by
  induction cnt with
  | zero => simp [conts]
  | succ c ih => rw [conts_succ, List.map_append, ih, List.range'_concat]; simp

/-! ### one cleaned field -/

def obsF (f : Fld) : FieldObs := (f.name, f.lines.map fun l => (l.num, l.val))

def droppable (src : List Str) (n : Nat) : Prop :=
  isBlank (lineAt src n) = true ∨ (isDecl (lineAt src n) = true ∧ (declValue (lineAt src n)).isEmpty = true)

theorem strip_blank_nil (y : Str) (h : isBlank (strip y) = true) : strip y = [] := by
  have := (rstrip_eq_nil_iff (strip y)).mpr h
  unfold strip at this ⊢
  rw [rstrip_idem] at this
  exact this

theorem blank_of_rstrip_blank (y : Str) (h : isBlank (rstrip y) = true) : isBlank y = true := by
  cases hb : isBlank y with
  | true => rfl
  | false => rw [isBlank_rstrip hb] at h; cases h

/-- the lines of the field declared at line `n` with `cnt` continuation lines, after trailing blank
lines are dropped -/
def cleanedLines (src : List Str) (n cnt : Nat) : List NL := rstripLines (mkField src n cnt).lines

theorem cleaned_ownText (src : List Str) (n cnt : Nat) (hd : isDecl (lineAt src n) = true) :
    fieldOwnText src (normName (lineAt src n), (cleanedLines src n cnt).map fun l => (l.num, l.val)) = true := by
  obtain ⟨t, ht⟩ := rstripLines_prefix (mkField src n cnt).lines
  unfold cleanedLines
  cases hc : rstripLines (mkField src n cnt).lines with
  | nil => rfl
  | cons a as =>
    rw [hc] at ht
    simp only [mkField, List.cons_append, List.cons.injEq] at ht
    obtain ⟨ha, has⟩ := ht
    subst ha
    simp only [List.map_cons, fieldOwnText, declaration, hd, Bool.true_and, beq_self_eq_true, List.all_eq_true,
      List.mem_map, Bool.and_eq_true, true_and]
    rintro ⟨m, w⟩ ⟨l, hl, hlw⟩
    have : l ∈ conts src n cnt := by rw [has]; exact List.mem_append_left _ hl
    simp only [conts, List.mem_map, List.mem_range] at this
    obtain ⟨i, _, rfl⟩ := this
    simp only [Prod.mk.injEq] at hlw
    obtain ⟨rfl, rfl⟩ := hlw
    simp

theorem mkField_nums (src : List Str) (n cnt : Nat) :
    (mkField src n cnt).lines.map (·.num) = List.range' n (cnt + 1) := by
  simp only [mkField, List.map_cons, conts_nums]
  rw [List.range'_succ]

theorem cleaned_consecutive (src : List Str) (n cnt : Nat) :
    consecutive ((cleanedLines src n cnt).map (·.num)) = true := by
  obtain ⟨t, ht⟩ := rstripLines_prefix (mkField src n cnt).lines
  have h := consecutive_range' n (cnt + 1)
  rw [← mkField_nums src n cnt, ht, List.map_append] at h
  exact consecutive_prefix _ _ h

theorem cleaned_range (src : List Str) (n cnt : Nat) :
    ∀ m ∈ (cleanedLines src n cnt).map (·.num), n ≤ m ∧ m ≤ n + cnt := by
  intro m hm
  have hsub : ((cleanedLines src n cnt).map (·.num)).Sublist ((mkField src n cnt).lines.map (·.num)) :=
    (rstripLines_sublist _).map _
  have := hsub.subset hm
  rw [mkField_nums] at this
  simp only [List.mem_range'_1] at this
  omega

theorem cleaned_cover (src : List Str) (n cnt : Nat) (hd : isDecl (lineAt src n) = true) :
    ∀ m, n ≤ m → m ≤ n + cnt → m ∈ (cleanedLines src n cnt).map (·.num) ∨ droppable src m := by
  intro m h1 h2
  by_cases hm : m = n
  · subst hm
    have hmem : (⟨m, declValue (lineAt src m)⟩ : NL) ∈ (mkField src m cnt).lines := by simp [mkField]
    rcases rstripLines_mem_or_blank _ _ hmem with h | h
    · exact Or.inl (List.mem_map.mpr ⟨_, h, rfl⟩)
    · right; right
      refine ⟨hd, ?_⟩
      have : declValue (lineAt src m) = [] := by
        unfold declValue at h ⊢
        exact strip_blank_nil _ h
      simp [this]
  · obtain ⟨i, rfl⟩ : ∃ i, m = n + 1 + i := ⟨m - n - 1, by omega⟩
    have hi : i < cnt := by omega
    have hmem : (⟨n + 1 + i, rstrip (lineAt src (n + 1 + i))⟩ : NL) ∈ (mkField src n cnt).lines := by
      simp only [mkField, List.mem_cons, conts, List.mem_map, List.mem_range]
      exact Or.inr ⟨i, hi, rfl⟩
    rcases rstripLines_mem_or_blank _ _ hmem with h | h
    · exact Or.inl (List.mem_map.mpr ⟨_, h, rfl⟩)
    · exact Or.inr (Or.inl (blank_of_rstrip_blank _ h))


/-! ### one cleaned paragraph -/

def obsG (g : List Fld) : List FieldObs := g.map obsF

theorem obsOf_eq (ps : List (List Fld)) : obsOf ps = ps.map obsG := rfl

theorem clean_mkFields_cons (src : List Str) (s c : Nat) (cs : List Nat) :
    clean (mkFields src s (c :: cs)) =
      ⟨normName (lineAt src s), cleanedLines src s c⟩ :: clean (mkFields src (s + c + 1) cs) := by
  simp [clean, mkFields, cleanedLines, mkField]

theorem group_fields (src : List Str) (s : Nat) (cnts : List Nat) (hd : declStarts src s cnts) :
    ∀ f ∈ obsG (clean (mkFields src s cnts)),
      fieldOwnText src f = true ∧ consecutive (f.2.map (·.1)) = true := by
  induction cnts generalizing s with
  | nil => intro f hf; simp [mkFields, clean, obsG] at hf
  | cons c cs ih =>
    intro f hf
    rw [clean_mkFields_cons] at hf
    simp only [obsG, List.map_cons, List.mem_cons] at hf
    rcases hf with rfl | hf
    · refine ⟨cleaned_ownText src s c hd.1, ?_⟩
      simp only [obsF, List.map_map]
      exact cleaned_consecutive src s c
    · exact ih (s + c + 1) hd.2 f hf

theorem paraNums_cons (f : FieldObs) (g : List FieldObs) : paraNums (f :: g) = f.2.map (·.1) ++ paraNums g := by
  simp [paraNums]

theorem group_range (src : List Str) (s : Nat) (cnts : List Nat) :
    ∀ m ∈ paraNums (obsG (clean (mkFields src s cnts))), s ≤ m ∧ m < s + total cnts := by
  induction cnts generalizing s with
  | nil => intro m hm; simp [mkFields, clean, obsG, paraNums] at hm
  | cons c cs ih =>
    intro m hm
    rw [clean_mkFields_cons] at hm
    simp only [obsG, List.map_cons, paraNums_cons, List.mem_append] at hm
    rcases hm with hm | hm
    · simp only [obsF, List.map_map] at hm
      have := cleaned_range src s c m (by simpa [Function.comp] using hm)
      simp only [total]; omega
    · have := ih (s + c + 1) m hm
      simp only [total]; omega

theorem group_cover (src : List Str) (s : Nat) (cnts : List Nat) (hd : declStarts src s cnts) :
    ∀ m, s ≤ m → m < s + total cnts → m ∈ paraNums (obsG (clean (mkFields src s cnts))) ∨ droppable src m := by
  induction cnts generalizing s with
  | nil => intro m h1 h2; simp [total] at h2; omega
  | cons c cs ih =>
    intro m h1 h2
    rw [clean_mkFields_cons]
    simp only [obsG, List.map_cons, paraNums_cons, List.mem_append]
    by_cases hm : m ≤ s + c
    · rcases cleaned_cover src s c hd.1 m h1 hm with h | h
      · left; left
        simp only [obsF, List.map_map]
        simpa [Function.comp] using h
      · exact Or.inr h
    · simp only [total] at h2
      rcases ih (s + c + 1) hd.2 m (by omega) (by omega) with h | h
      · exact Or.inl (Or.inr h)
      · exact Or.inr h

theorem group_nonempty (src : List Str) (s : Nat) (cnts : List Nat) (h : cnts ≠ []) :
    obsG (clean (mkFields src s cnts)) ≠ [] := by
  cases cnts with
  | nil => exact absurd rfl h
  | cons c cs => rw [clean_mkFields_cons]; simp [obsG]


/-! ### invariants of the accumulated output -/

def pairOK (src : List Str) (p q : List FieldObs) : Bool :=
  isSynthetic src p || isSynthetic src q ||
    (match (paraNums p).getLast?, (paraNums q).head? with
     | some a, some b => (List.range (b - a - 1)).any fun k => isBlank (lineAt src (a + 1 + k))
     | _, _ => true)

theorem separated_cons2 (src : List Str) (p q : List FieldObs) (rest : List (List FieldObs)) :
    separated src (p :: q :: rest) = (pairOK src p q && separated src (q :: rest)) := by
  simp only [separated, pairOK]
  rfl

theorem separated_snoc (src : List Str) (xs : List (List FieldObs)) (q : List FieldObs) :
    separated src (xs ++ [q]) =
      (separated src xs && (match xs.getLast? with | none => true | some p => pairOK src p q)) := by
  induction xs with
  | nil => simp [separated]
  | cons a as ih =>
    cases as with
    | nil => simp [separated_cons2, separated]
    | cons b bs =>
      have e1 : (a :: b :: bs) ++ [q] = a :: b :: (bs ++ [q]) := rfl
      rw [e1, separated_cons2, separated_cons2]
      have : b :: (bs ++ [q]) = (b :: bs) ++ [q] := rfl
      rw [this, ih]
      simp [List.getLast?_cons_cons, Bool.and_assoc]

theorem allNums_append (a b : Obs) : allNums (a ++ b) = allNums a ++ allNums b := by
  simp [allNums]

theorem allNums_single (g : List FieldObs) : allNums [g] = paraNums g := by
  simp [allNums, paraNums]

def GroupsOK (src : List Str) (o : Obs) : Prop :=
  ∀ g ∈ o, g ≠ [] ∧ (∀ f ∈ g, consecutive (f.2.map (·.1)) = true) ∧
    (isSynthetic src g = true ∨ ∀ f ∈ g, fieldOwnText src f = true)

def Core (src : List Str) (o : Obs) (B : Nat) : Prop :=
  GroupsOK src o ∧ separated src o = true ∧ (∀ n ∈ allNums o, n < B) ∧
    (∀ n, 1 ≤ n → n < B → n ∈ allNums o ∨ droppable src n)

def PSep (src : List Str) (o : Obs) (B : Nat) : Prop :=
  match o.getLast? with
  | none => True
  | some p => isSynthetic src p = true ∨
      ∀ a, (paraNums p).getLast? = some a → ∃ b, a < b ∧ b < B ∧ isBlank (lineAt src b) = true

theorem core_drop (src : List Str) (o : Obs) (B : Nat) (h : Core src o B) (hd : droppable src B) :
    Core src o (B + 1) := by
  obtain ⟨h1, h2, h3, h4⟩ := h
  refine ⟨h1, h2, fun n hn => Nat.lt_succ_of_lt (h3 n hn), ?_⟩
  intro n hn1 hn2
  by_cases e : n = B
  · subst e; exact Or.inr hd
  · exact h4 n hn1 (by omega)

theorem psep_mono (src : List Str) (o : Obs) (B B' : Nat) (h : PSep src o B) (hb : B ≤ B') : PSep src o B' := by
  unfold PSep at h ⊢
  cases hl : o.getLast? with
  | none => trivial
  | some p =>
    rw [hl] at h
    rcases h with h | h
    · exact Or.inl h
    · right; intro a ha
      obtain ⟨b, h1, h2, h3⟩ := h a ha
      exact ⟨b, h1, by omega, h3⟩

theorem mem_getLast? {α} {l : List α} {a : α} (h : l.getLast? = some a) : a ∈ l := by
  exact List.mem_of_getLast? h

theorem psep_of_blank (src : List Str) (o : Obs) (B : Nat) (h : Core src o B)
    (hb : isBlank (lineAt src B) = true) : PSep src o (B + 1) := by
  unfold PSep
  cases hl : o.getLast? with
  | none => trivial
  | some p =>
    right; intro a ha
    have hp : p ∈ o := mem_getLast? hl
    have : a ∈ allNums o := by
      simp only [allNums, List.mem_flatMap]
      have ha' : a ∈ paraNums p := mem_getLast? ha
      simp only [paraNums, List.mem_flatMap] at ha'
      obtain ⟨f, hf, haf⟩ := ha'
      exact ⟨p, hp, f, hf, haf⟩
    exact ⟨B, h.2.2.1 a this, by omega, hb⟩


theorem pairOK_of_psep (src : List Str) (p q : List FieldObs) (s : Nat)
    (hp : isSynthetic src p = true ∨
      ∀ a, (paraNums p).getLast? = some a → ∃ b, a < b ∧ b < s ∧ isBlank (lineAt src b) = true)
    (hq : ∀ m ∈ paraNums q, s ≤ m) : pairOK src p q = true := by
  unfold pairOK
  rcases hp with hp | hp
  · simp [hp]
  · cases ha : (paraNums p).getLast? with
    | none => simp
    | some a =>
      cases hb : (paraNums q).head? with
      | none => simp
      | some b' =>
        obtain ⟨b, h1, h2, h3⟩ := hp a ha
        have hb' : s ≤ b' := hq b' (List.mem_of_head? hb)
        simp only [Bool.or_eq_true, List.any_eq_true, List.mem_range]
        right
        refine ⟨b - a - 1, by omega, ?_⟩
        have : a + 1 + (b - a - 1) = b := by omega
        rw [this]; exact h3

theorem core_emit (src : List Str) (o : Obs) (s : Nat) (cnts : List Nat) (h : Core src o s) (hp : PSep src o s)
    (hne : cnts ≠ []) (hd : declStarts src s cnts) :
    Core src (o ++ [obsG (clean (mkFields src s cnts))]) (s + total cnts) := by
  obtain ⟨h1, h2, h3, h4⟩ := h
  have hq := group_fields src s cnts hd
  have hr := group_range src s cnts
  refine ⟨?_, ?_, ?_, ?_⟩
  · intro g hg
    simp only [List.mem_append, List.mem_singleton] at hg
    rcases hg with hg | rfl
    · exact h1 g hg
    · exact ⟨group_nonempty src s cnts hne, fun f hf => (hq f hf).2, Or.inr fun f hf => (hq f hf).1⟩
  · rw [separated_snoc, h2]
    simp only [Bool.true_and]
    unfold PSep at hp
    cases hl : o.getLast? with
    | none => rfl
    | some p =>
      rw [hl] at hp
      exact pairOK_of_psep src p _ s hp (fun m hm => (hr m hm).1)
  · intro n hn
    rw [allNums_append, allNums_single, List.mem_append] at hn
    rcases hn with hn | hn
    · have := h3 n hn; omega
    · exact (hr n hn).2
  · intro n hn1 hn2
    rw [allNums_append, allNums_single, List.mem_append]
    by_cases hs : n < s
    · rcases h4 n hn1 hs with h | h
      · exact Or.inl (Or.inl h)
      · exact Or.inr h
    · rcases group_cover src s cnts hd n (by omega) hn2 with h | h
      · exact Or.inl (Or.inr h)
      · exact Or.inr h

def synth (src : List Str) (e : Nat) : List FieldObs := [(unknownName, [(e, lineAt src e)])]

theorem synth_isSynthetic (src : List Str) (e : Nat) (hnb : isBlank (lineAt src e) = false)
    (hnd : isDecl (lineAt src e) = false) : isSynthetic src (synth src e) = true := by
  simp [synth, isSynthetic, declaration, hnb, hnd]

theorem core_synth (src : List Str) (o : Obs) (e : Nat) (h : Core src o e)
    (hnb : isBlank (lineAt src e) = false) (hnd : isDecl (lineAt src e) = false) :
    Core src (o ++ [synth src e]) (e + 1) ∧ ∀ B, PSep src (o ++ [synth src e]) B := by
  obtain ⟨h1, h2, h3, h4⟩ := h
  have hs := synth_isSynthetic src e hnb hnd
  refine ⟨⟨?_, ?_, ?_, ?_⟩, ?_⟩
  · intro g hg
    simp only [List.mem_append, List.mem_singleton] at hg
    rcases hg with hg | rfl
    · exact h1 g hg
    · refine ⟨by simp [synth], ?_, Or.inl hs⟩
      intro f hf
      simp only [synth, List.mem_singleton] at hf
      subst hf; rfl
  · rw [separated_snoc, h2]
    cases o.getLast? with
    | none => rfl
    | some p => simp [pairOK, hs]
  · intro n hn
    rw [allNums_append, allNums_single, List.mem_append] at hn
    rcases hn with hn | hn
    · have := h3 n hn; omega
    · simp [synth, paraNums] at hn; omega
  · intro n hn1 hn2
    rw [allNums_append, allNums_single, List.mem_append]
    by_cases hs' : n < e
    · rcases h4 n hn1 hs' with h | h
      · exact Or.inl (Or.inl h)
      · exact Or.inr h
    · have : n = e := by omega
      subst this
      exact Or.inl (Or.inr (by simp [synth, paraNums]))
  · intro B
    unfold PSep
    simp [hs]


/-! ### the loop -/

inductive AS where
  | none
  | opn (s : Nat) (init : List Nat) (c : Nat)

def conc (src : List Str) : AS → St
  | .none => Option.none
  | .opn s init c => some (mkFields src s init, mkField src (s + total init) c)

def InvS (src : List Str) (o : Obs) (k : Nat) : AS → Prop
  | .none => Core src o k ∧ PSep src o k
  | .opn s init c => Core src o s ∧ PSep src o s ∧ declStarts src s (init ++ [c]) ∧ 1 ≤ s ∧ k = s + total init + c + 1

def Final (src : List Str) (o : Obs) : Prop :=
  GroupsOK src o ∧ separated src o = true ∧ ∀ n, 1 ≤ n → n ≤ src.length → n ∈ allNums o ∨ droppable src n

theorem lineAt_pre (pre rest : List Str) (l : Str) : lineAt (pre ++ l :: rest) (pre.length + 1) = l := by
  simp [lineAt]

theorem obsOf_append (a b : List (List Fld)) : obsOf (a ++ b) = obsOf a ++ obsOf b := by
  simp [obsOf]

theorem obsOf_single (g : List Fld) : obsOf [g] = [obsG g] := rfl

theorem flush_opn (src : List Str) (s : Nat) (init : List Nat) (c : Nat) :
    flush (conc src (.opn s init c)) = [clean (mkFields src s (init ++ [c]))] := by
  simp [conc, flush, mkFields_append, mkFields]

theorem total_snoc (init : List Nat) (c : Nat) : total (init ++ [c]) = total init + c + 1 := by
  rw [total_append]; simp [total]; omega

theorem declStarts_last_irrel (src : List Str) (s : Nat) (init : List Nat) (c c' : Nat) :
    declStarts src s (init ++ [c]) → declStarts src s (init ++ [c']) := by
  rw [declStarts_append, declStarts_append]
  simp [declStarts]

/-- flushing an open paragraph at line `k` -/
theorem emit_opn (src : List Str) (acc : List (List Fld)) (s : Nat) (init : List Nat) (c k : Nat)
    (h : InvS src (obsOf acc) k (.opn s init c)) :
    Core src (obsOf (acc ++ flush (conc src (.opn s init c)))) k := by
  obtain ⟨h1, h2, h3, h4, h5⟩ := h
  rw [flush_opn, obsOf_append, obsOf_single]
  have := core_emit src (obsOf acc) s (init ++ [c]) h1 h2 (by simp) h3
  rw [total_snoc] at this
  rw [h5]
  have e : s + total init + c + 1 = s + (total init + c + 1) := by omega
  rw [e]; exact this


theorem go_final (src : List Str) (rest pre : List Str) (hsrc : src = pre ++ rest)
    (acc : List (List Fld)) (a : AS) (hinv : InvS src (obsOf acc) (pre.length + 1) a) :
    Final src (obsOf (acc ++ go (conc src a) (numberFrom (pre.length + 1) rest))) := by
  induction rest generalizing pre acc a with
  | nil =>
    have hlen : src.length = pre.length := by rw [hsrc]; simp
    simp only [numberFrom, go]
    cases a with
    | none =>
      obtain ⟨⟨h1, h2, _, h4⟩, _⟩ := hinv
      simp only [conc, flush, List.append_nil]
      exact ⟨h1, h2, fun n hn1 hn2 => h4 n hn1 (by omega)⟩
    | opn s init c =>
      obtain ⟨h1, h2, _, h4⟩ := emit_opn src acc s init c _ hinv
      exact ⟨h1, h2, fun n hn1 hn2 => h4 n hn1 (by omega)⟩
  | cons l rest ih =>
    have hL : lineAt src (pre.length + 1) = l := by rw [hsrc]; exact lineAt_pre pre rest l
    have hsrc' : src = (pre ++ [l]) ++ rest := by rw [hsrc]; simp
    have hlen' : (pre ++ [l]).length + 1 = pre.length + 1 + 1 := by simp
    -- the recursive call, for any accumulated output and abstract state at line k + 1
    have recur := fun acc' a' (h : InvS src (obsOf acc') (pre.length + 1 + 1) a') => by
      have := ih (pre ++ [l]) hsrc' acc' a' (by rw [hlen']; exact h)
      rw [hlen'] at this
      exact this
    simp only [numberFrom]
    -- flush the state (if any), then continue from `none` after a blank line
    have flushBlank : isBlank l = true →
        Final src (obsOf (acc ++ (flush (conc src a) ++ go Option.none (numberFrom (pre.length + 1 + 1) rest)))) := by
      intro hb
      rw [← List.append_assoc]
      have hbl : isBlank (lineAt src (pre.length + 1)) = true := by rw [hL]; exact hb
      cases a with
      | none =>
        obtain ⟨hc, hp⟩ := hinv
        simp only [conc, flush, List.append_nil]
        exact recur acc .none ⟨core_drop src _ _ hc (Or.inl hbl), psep_mono src _ _ _ hp (by omega)⟩
      | opn s init c =>
        have hc := emit_opn src acc s init c _ hinv
        exact recur _ .none ⟨core_drop src _ _ hc (Or.inl hbl), psep_of_blank src _ _ hc hbl⟩
    -- append the current line to the open field
    have absorb : ∀ s init c, a = .opn s init c →
        Final src (obsOf (acc ++ go (some (addLine (mkFields src s init, mkField src (s + total init) c)
          ⟨pre.length + 1, rstrip l⟩)) (numberFrom (pre.length + 1 + 1) rest))) := by
      intro s init c ha
      subst ha
      obtain ⟨h1, h2, h3, h4, h5⟩ := hinv
      have e : (⟨pre.length + 1, rstrip l⟩ : NL) =
          ⟨s + total init + 1 + c, rstrip (lineAt src (s + total init + 1 + c))⟩ := by
        have : s + total init + 1 + c = pre.length + 1 := by omega
        rw [this, hL]
      rw [e, addLine_mkField]
      exact recur acc (.opn s init (c + 1)) ⟨h1, h2, declStarts_last_irrel src s init c (c + 1) h3, h4, by omega⟩
    unfold go
    split
    · -- a blank line
      rename_i hb
      cases a with
      | none => simpa [conc] using flushBlank hb
      | opn s init c =>
        simp only [conc]
        cases rest with
        | nil => simpa [conc, numberFrom] using flushBlank hb
        | cons n rest' =>
          simp only [numberFrom]
          split
          · exact absorb s init c rfl
          · simpa [conc, numberFrom] using flushBlank hb
    · rename_i hnb
      have hnb' : isBlank l = false := by simpa using hnb
      have hnbL : isBlank (lineAt src (pre.length + 1)) = false := by rw [hL]; exact hnb'
      cases a with
      | opn s init c =>
        simp only [conc]
        split
        · exact absorb s init c rfl
        · split
          · -- a new declaration inside the paragraph
            rename_i hd
            obtain ⟨h1, h2, h3, h4, h5⟩ := hinv
            have hfl : fromLine ⟨pre.length + 1, l⟩ = mkField src (pre.length + 1) 0 := by
              rw [← hL]; exact fromLine_eq src _
            have hm : mkFields src s init ++ [mkField src (s + total init) c] = mkFields src s (init ++ [c]) := by
              simp [mkFields_append, mkFields]
            have hk : pre.length + 1 = s + total (init ++ [c]) := by rw [total_snoc]; omega
            simp only [hfl, hm]
            have hds : declStarts src s ((init ++ [c]) ++ [0]) := by
              rw [declStarts_append]
              refine ⟨h3, ?_⟩
              simp only [declStarts, and_true]
              rw [← hk, hL]; exact hd
            have := recur acc (.opn s (init ++ [c]) 0) ⟨h1, h2, hds, h4, by rw [total_snoc]; omega⟩
            simp only [conc] at this
            rw [← hk] at this
            exact this
          · -- an unparsable line closes the paragraph and stands alone
            rename_i hnc hnd
            have hndL : isDecl (lineAt src (pre.length + 1)) = false := by rw [hL]; simpa using hnd
            have hc := emit_opn src acc s init c _ hinv
            obtain ⟨hc', hp'⟩ := core_synth src _ _ hc hnbL hndL
            have := recur (acc ++ flush (conc src (.opn s init c)) ++ [[⟨unknownName, [⟨pre.length + 1, l⟩]⟩]]) .none
              ⟨by rw [obsOf_append, obsOf_single]; simpa [obsG, obsF, synth, hL] using hc',
               by rw [obsOf_append, obsOf_single]; simpa [obsG, obsF, synth, hL] using hp' _⟩
            simpa [conc, List.append_assoc] using this
      | none =>
        obtain ⟨hc, hp⟩ := hinv
        simp only [conc]
        split
        · -- a declaration opens a paragraph
          rename_i hd
          have hfl : fromLine ⟨pre.length + 1, l⟩ = mkField src (pre.length + 1) 0 := by
            rw [← hL]; exact fromLine_eq src _
          rw [hfl]
          have := recur acc (.opn (pre.length + 1) [] 0)
            ⟨hc, hp, by simp only [List.nil_append, declStarts, and_true]; rw [hL]; exact hd, by omega, by simp [total]⟩
          simpa [conc, mkFields, total] using this
        · rename_i hnd
          have hndL : isDecl (lineAt src (pre.length + 1)) = false := by rw [hL]; simpa using hnd
          obtain ⟨hc', hp'⟩ := core_synth src _ _ hc hnbL hndL
          have := recur (acc ++ [[⟨unknownName, [⟨pre.length + 1, l⟩]⟩]]) .none
            ⟨by rw [obsOf_append, obsOf_single]; simpa [obsG, obsF, synth, hL] using hc',
             by rw [obsOf_append, obsOf_single]; simpa [obsG, obsF, synth, hL] using hp' _⟩
          simpa [conc, List.append_assoc] using this


theorem strictlyIncreasing_of_pairwise (l : List Nat) (h : l.Pairwise (· < ·)) : strictlyIncreasing l = true := by
  induction l with
  | nil => rfl
  | cons a as ih =>
    cases as with
    | nil => rfl
    | cons b bs =>
      have h' := List.pairwise_cons.mp h
      simp only [strictlyIncreasing, Bool.and_eq_true, decide_eq_true_eq]
      exact ⟨h'.1 b (by simp), ih h'.2⟩

/-- **C05, all clauses** — for every text, the model of `get_paragraphs_as_field_groups` satisfies the
whole property: every source line is reported at most once under its true 1-based number (lines end
at LF, CRLF, CR only), numbers increase strictly over the result and are contiguous inside a field,
every reported line carries its own text (declaration minus `Name:` and surrounding blanks under the
normalised name; continuation minus trailing blanks; an unparsable line verbatim as a one-line
`unknown` paragraph), the only unreported lines are blank lines and value-less declarations, and
consecutive paragraphs are separated by an unreported blank line or one of them is an unparsable line. -/
theorem sound (t : Str) : holdsOn t (model t) = true := by
  have hfin : Final (srcLines t) (model t) := by
    have := go_final (srcLines t) (srcLines t) [] rfl [] .none
      ⟨⟨(fun g hg => by cases hg), rfl, (fun n hn => by cases hn),
        (fun n h1 h2 => by simp at h2; omega)⟩, (by simp [PSep, obsOf])⟩
    simpa [model, parse, linesFromText, srcLines, conc] using this
  obtain ⟨hG, hS, hC⟩ := hfin
  obtain ⟨hinc, hbound⟩ := numbers_increasing t
  unfold holdsOn
  simp only [Bool.and_eq_true, List.all_eq_true, decide_eq_true_eq, Bool.or_eq_true, Bool.not_eq_true',
    List.mem_range, List.contains_iff_mem]
  refine ⟨⟨⟨⟨⟨⟨strictlyIncreasing_of_pairwise _ hinc, ?_⟩, ?_⟩, ?_⟩, ?_⟩, hS⟩, ?_⟩
  · intro n hn; exact hbound n hn
  · intro g hg f hf; exact (hG g hg).2.1 f hf
  · intro g hg
    rcases (hG g hg).2.2 with h | h
    · exact Or.inl h
    · exact Or.inr h
  · intro i hi
    rcases hC (i + 1) (by omega) (by omega) with h | h
    · exact Or.inl (Or.inl h)
    · rcases h with h | h
      · exact Or.inl (Or.inr (by simpa [lineAt] using h))
      · exact Or.inr (by simpa [lineAt, declaration] using h)
  · intro g hg
    have := (hG g hg).1
    cases g with
    | nil => exact absurd rfl this
    | cons _ _ => rfl


end Props.C05
