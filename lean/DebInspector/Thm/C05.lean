/-
C05 — property theorems (clause 1: line numbers).
-/
import DebInspector.Props.C05
import DebInspector.Proofs.Deb822

namespace Props.C05
open Py Model.Deb822 Proofs.Deb822

theorem allNums_model (t : Str) : allNums (model t) = nums (parse t) := by
  simp [allNums, model, obsOf, nums, List.flatMap_map, List.map_map]
  rfl

/-- **for every text** the reported line numbers, in result order, are a sublist of `1, 2, …, n`
(`n` = number of source lines): each source line is reported at most once, under its true number -/
theorem numbers_sublist (t : Str) :
    (allNums (model t)).Sublist (List.range' 1 (srcLines t).length) := by
  rw [allNums_model]
  have := nums_go none (linesFromText t)
  simp only [stNums, List.nil_append, linesFromText, numberFrom_nums] at this
  exact this

/-- … hence strictly increasing across the whole result and within `1..n` -/
theorem numbers_increasing (t : Str) :
    (allNums (model t)).Pairwise (· < ·) ∧ ∀ n ∈ allNums (model t), 1 ≤ n ∧ n ≤ (srcLines t).length := by
  have hs := numbers_sublist t
  refine ⟨List.Pairwise.sublist hs (List.pairwise_lt_range'), ?_⟩
  intro n hn
  have := hs.subset hn
  simp only [List.mem_range'_1] at this
  omega

/-- non-vacuity: a blank line absorbed after a value-less declaration, junk next to a paragraph
boundary, a form feed inside a line -/
example : model "License:\n\n text\x0cmore\njunk\nA: b\n".toList =
    [[("license".toList, [(1, []), (2, []), (3, " text\x0cmore".toList)])],
     [("unknown".toList, [(4, "junk".toList)])],
     [("a".toList, [(5, "b".toList)])]] := by decide +kernel
example : holdsOn "License:\n\n text\x0cmore\njunk\nA: b\n".toList (model "License:\n\n text\x0cmore\njunk\nA: b\n".toList) = true := by
  decide +kernel

end Props.C05
