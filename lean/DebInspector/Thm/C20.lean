/-
C20 — property theorems: the encoder is safe for every text; the decoder inverts it (K4 hypothesis).
-/
import DebInspector.Props.C20
import DebInspector.Proofs.Splitlines

namespace Props.C20
open Py Model.Debcon Proofs.Splitlines

theorem isBlank_cons (c : Char) (l : Str) : isBlank (c :: l) = (isSpace c && isBlank l) := by
  simp [isBlank]

theorem encLine_props (l : Str) (h : NoB l) : NoB (encLine l) ∧ encLine l ≠ [] ∧ isBlank (encLine l) = false := by
  unfold encLine
  split
  · refine ⟨?_, by simp, ?_⟩
    · intro c hc; simp only [List.mem_singleton] at hc; subst hc; exact dot_not_boundary
    · simp [isBlank, dot_not_space]
  · rename_i hb
    have hb' : isBlank l = false := by simpa using hb
    refine ⟨h, ?_, hb'⟩
    intro e; subst e; simp [isBlank] at hb'

/-- encoding any list of boundary-free lines is safe -/
theorem safe_lines (ls : List Str) (h : ∀ l ∈ ls, NoB l) : safe (asFormattedLines ls) = true := by
  unfold asFormattedLines safe
  cases ls with
  | nil => simp [joinNlSp, splitlines, splitlinesAux]
  | cons l ls =>
    have hp := encLine_props l (h l (by simp))
    have hps : ∀ q ∈ ls.map encLine, NoB q ∧ q ≠ [] := by
      intro q hq
      simp only [List.mem_map] at hq
      obtain ⟨x, hx, rfl⟩ := hq
      have := encLine_props x (h x (by simp [hx]))
      exact ⟨this.1, this.2.1⟩
    rw [List.map_cons, splitlines_joinNlSp _ _ hp.1 hp.2.1 hps]
    simp only [List.tail_cons, List.all_eq_true, List.mem_map, List.map_map]
    intro y hy
    obtain ⟨x, hx, rfl⟩ := hy
    have := encLine_props x (h x (by simp [hx]))
    simp [Function.comp, startsWith, isBlank_cons, this.2.2]

/-- **C20 safety** — for every Unicode text, every line of `as_formatted_text(t)` after the first,
lines taken at every Python line boundary, starts with a space and is not blank -/
theorem safe_enc (t : Str) : safe (asFormattedText t) = true := by
  unfold asFormattedText
  split
  · rename_i h
    have : t = [] := by simpa using h
    subst this; simp [safe, splitlines, splitlinesAux]
  · exact safe_lines _ (splitlines_noB t)

theorem safe_nil : safe [] = true := by simp [safe, splitlines, splitlinesAux]

/-- the same for `FormattedTextField.from_value(t).dumps()` -/
theorem safe_ft (t : Str) : safe (formattedTextRoundtrip t) = true := by
  unfold formattedTextRoundtrip
  simp only
  generalize (if t.isEmpty = true then t else fromFormattedText t) = text
  split
  · exact safe_nil
  · unfold lineSeparated
    split
    · simp [asFormattedLines, joinNlSp, safe_nil]
    · exact safe_lines _ (splitlines_noB _)

/-! ### the inverse clause -/

theorem rstrip_eq_nil_iff (l : Str) : rstrip l = [] ↔ isBlank l = true := by
  induction l with
  | nil => simp [rstrip, isBlank]
  | cons c cs ih =>
    simp only [rstrip, isBlank_cons]
    cases h : rstrip cs with
    | nil =>
      have := ih.mp h
      by_cases hc : isSpace c = true <;> simp [hc, this]
    | cons d ds =>
      have : isBlank cs = false := by
        cases hb : isBlank cs with
        | false => rfl
        | true => have := ih.mpr hb; rw [h] at this; cases this
      simp [this]

theorem rstrip_cons_of_nonblank (c : Char) (cs : Str) (h : isBlank (c :: cs) = false) :
    rstrip (c :: cs) = c :: rstrip cs := by
  rw [isBlank_cons] at h
  simp only [rstrip]
  cases hr : rstrip cs with
  | nil =>
    have hb := (rstrip_eq_nil_iff cs).mp hr
    have : isSpace c = false := by simpa [hb] using h
    simp [this]
  | cons d ds => rfl

theorem rstrip_idem (l : Str) : rstrip (rstrip l) = rstrip l := by
  induction l with
  | nil => simp [rstrip]
  | cons c cs ih =>
    simp only [rstrip]
    cases hr : rstrip cs with
    | nil =>
      by_cases hc : isSpace c = true
      · simp [hc, rstrip]
      · simp [hc, rstrip]
    | cons d ds =>
      rw [hr] at ih
      show rstrip (c :: d :: ds) = c :: d :: ds
      rw [rstrip, ih]


theorem lstrip_cons_nonspace (c : Char) (cs : Str) (h : isSpace c = false) : lstrip (c :: cs) = c :: cs := by
  simp [lstrip, h]

def okLine (l : Str) : Bool := !startsWith l ['.'] && !(headP (fun c => isSpace c && c != ' ') l)

/-- decoding the encoded continuation line gives the line back without trailing blanks -/
theorem decLine_enc (l : Str) (h : okLine l = true) : decLine (' ' :: encLine l) = rstrip l := by
  unfold encLine
  by_cases hb : isBlank l = true
  · simp only [hb, if_true]
    rw [(rstrip_eq_nil_iff l).mpr hb]
    decide
  · have hb' : isBlank l = false := by simpa using hb
    simp only [hb', Bool.false_eq_true, if_false]
    cases l with
    | nil => simp [isBlank] at hb'
    | cons c cs =>
      have hsp : isBlank (' ' :: c :: cs) = false := by rw [isBlank_cons, hb']; simp
      have e1 : rstrip (' ' :: c :: cs) = ' ' :: c :: rstrip cs := by
        rw [rstrip_cons_of_nonblank _ _ hsp, rstrip_cons_of_nonblank _ _ hb']
      have e2 : rstrip (c :: cs) = c :: rstrip cs := rstrip_cons_of_nonblank _ _ hb'
      simp only [okLine, startsWith, headP, Bool.and_true, Bool.and_eq_true, Bool.not_eq_true',
        beq_eq_false_iff_ne, ne_eq] at h
      unfold decLine
      simp only [e1, e2]
      by_cases hc : c = ' '
      · subst hc; simp [startsWith]
      · have hns : isSpace c = false := by
          have := h.2
          cases hs : isSpace c with
          | false => rfl
          | true => simp [hs, hc] at this
        have hd : c ≠ '.' := h.1
        have hidem : rstrip (c :: rstrip cs) = c :: rstrip cs := by rw [← e2, rstrip_idem]
        simp [startsWith, hc, hd, strip, lstrip, sp_space, hns, hidem]


/-- hypothesis of the inverse theorem, as the property states it minus the two clauses that only
concern how `trimmed` reads `t` (they are not needed): no line starts with a full stop, no later line
starts with white space other than U+0020, and (K4) the first line is not blank -/
def invertibleCore (t : Str) : Bool :=
  match splitlines t with
  | [] => false
  | l0 :: ls => !isBlank l0 && ls.all okLine

theorem invertible_imp_core (t : Str) (h : invertible t = true) (hf : firstNotBlank t = true) :
    invertibleCore t = true := by
  unfold invertible at h
  unfold firstNotBlank at hf
  unfold invertibleCore
  cases hs : splitlines t with
  | nil => rw [hs] at h; cases h
  | cons l0 ls =>
    rw [hs] at h hf
    simp only [Bool.and_eq_true, List.all_eq_true] at h ⊢
    refine ⟨hf, ?_⟩
    intro l hl
    have := h.1.1.2 l hl
    simpa [okLine] using this

/-- **C20 inverse (K4 hypothesis)** — for every text whose first line is not blank, with no line
starting with a full stop and no later line starting with a tab or other non-U+0020 white space,
`from_formatted_text(as_formatted_text(t))` is `t` with the first line trimmed and trailing blanks
removed from the other lines (space-indented lines keep their indentation). -/
theorem inverse_core (t : Str) (h : invertibleCore t = true) :
    fromFormattedText (asFormattedText t) = trimmed t := by
  unfold invertibleCore at h
  unfold trimmed
  cases hs : splitlines t with
  | nil => rw [hs] at h; cases h
  | cons l0 ls =>
    rw [hs] at h
    simp only [Bool.and_eq_true, Bool.not_eq_true', List.all_eq_true] at h
    obtain ⟨hb0, hls⟩ := h
    have hne : t.isEmpty = false := by
      cases t with
      | nil => simp [splitlines, splitlinesAux] at hs
      | cons _ _ => rfl
    have hnoB : ∀ l ∈ l0 :: ls, NoB l := by
      intro l hl; rw [← hs] at hl; exact splitlines_noB t l hl
    have hp0 := encLine_props l0 (hnoB l0 (by simp))
    have hps : ∀ q ∈ ls.map encLine, NoB q ∧ q ≠ [] := by
      intro q hq
      simp only [List.mem_map] at hq
      obtain ⟨x, hx, rfl⟩ := hq
      have := encLine_props x (hnoB x (by simp [hx]))
      exact ⟨this.1, this.2.1⟩
    have henc : asFormattedText t = joinNlSp (encLine l0 :: ls.map encLine) := by
      simp [asFormattedText, hne, hs, asFormattedLines]
    have hne2 : (joinNlSp (encLine l0 :: ls.map encLine)).isEmpty = false := by
      have : encLine l0 ≠ [] := hp0.2.1
      cases hl : encLine l0 with
      | nil => exact absurd hl this
      | cons a as => cases ls <;> simp [joinNlSp]
    have hsplit := splitlines_joinNlSp (encLine l0) (ls.map encLine) hp0.1 hp0.2.1 hps
    have he0 : encLine l0 = l0 := by simp [encLine, hb0]
    rw [henc]
    simp only [fromFormattedText, hne2, Bool.false_eq_true, if_false, lineSeparated, hsplit, fromFormattedLines]
    rw [he0]
    congr 2
    rw [List.map_map, List.map_map]
    apply List.map_congr_left
    intro l hl
    exact decLine_enc l (hls l hl)

theorem inverse_partial (t : Str) (h : invertible t = true) (hf : firstNotBlank t = true) :
    (model t).decEnc = trimmed t :=
  inverse_core t (invertible_imp_core t h hf)

/-- non-vacuity: verbatim lines, blank lines, trailing blanks, a dot-only verbatim line -/
example : invertible "a \n  x  \n\n .\nb".toList = true ∧ firstNotBlank "a \n  x  \n\n .\nb".toList = true ∧
    (model "a \n  x  \n\n .\nb".toList).decEnc = "a\n  x\n\n .\nb".toList := by decide +kernel


/-- non-vacuity: blank, whitespace-only and form-feed lines -/
example : asFormattedText "a\n\n \t \nb\x0cc".toList = "a\n .\n .\n b\n c".toList := by decide +kernel
example : (model "\nx".toList).decEnc = ".\nx".toList := by decide +kernel        -- K4
example : (model "x\n .\n .".toList).e1 = "x\n .".toList ∧ (model "x\n .\n .".toList).e2 = "x".toList := by
  decide +kernel                                                                   -- K5

end Props.C20
