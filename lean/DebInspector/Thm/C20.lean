/-
C20 — property theorems: the encoder is safe for every text.
-/
import DebInspector.Props.C20
import DebInspector.Proofs.Splitlines

namespace Props.C20
open Py Model.Debcon Proofs.Splitlines

theorem isBlank_cons (c : Char) (l : Str) : isBlank (c :: l) = (isSpace c && isBlank l) := by
  simp [isBlank]

theorem encLine_props (l : Str) (h : NoB l) : NoB (encLine l) ∧ encLine l ≠ [] ∧ isBlank (encLine l) = false := by
  unfold encLine
  split
  · refine ⟨?_, by simp, ?_⟩
    · intro c hc; simp only [List.mem_singleton] at hc; subst hc; exact dot_not_boundary
    · simp [isBlank, dot_not_space]
  · rename_i hb
    have hb' : isBlank l = false := by simpa using hb
    refine ⟨h, ?_, hb'⟩
    intro e; subst e; simp [isBlank] at hb'

/-- encoding any list of boundary-free lines is safe -/
theorem safe_lines (ls : List Str) (h : ∀ l ∈ ls, NoB l) : safe (asFormattedLines ls) = true := by
  unfold asFormattedLines safe
  cases ls with
  | nil => simp [joinNlSp, splitlines, splitlinesAux]
  | cons l ls =>
    have hp := encLine_props l (h l (by simp))
    have hps : ∀ q ∈ ls.map encLine, NoB q ∧ q ≠ [] := by
      intro q hq
      simp only [List.mem_map] at hq
      obtain ⟨x, hx, rfl⟩ := hq
      have := encLine_props x (h x (by simp [hx]))
      exact ⟨this.1, this.2.1⟩
    rw [List.map_cons, splitlines_joinNlSp _ _ hp.1 hp.2.1 hps]
    simp only [List.tail_cons, List.all_eq_true, List.mem_map, List.map_map]
    intro y hy
    obtain ⟨x, hx, rfl⟩ := hy
    have := encLine_props x (h x (by simp [hx]))
    simp [Function.comp, startsWith, isBlank_cons, this.2.2]

/-- **C20 safety** — for every Unicode text, every line of `as_formatted_text(t)` after the first,
lines taken at every Python line boundary, starts with a space and is not blank -/
theorem safe_enc (t : Str) : safe (asFormattedText t) = true := by
  unfold asFormattedText
  split
  · rename_i h
    have : t = [] := by simpa using h
    subst this; simp [safe, splitlines, splitlinesAux]
  · exact safe_lines _ (splitlines_noB t)

theorem safe_nil : safe [] = true := by simp [safe, splitlines, splitlinesAux]

/-- the same for `FormattedTextField.from_value(t).dumps()` -/
theorem safe_ft (t : Str) : safe (formattedTextRoundtrip t) = true := by
  unfold formattedTextRoundtrip
  simp only
  generalize (if t.isEmpty = true then t else fromFormattedText t) = text
  split
  · exact safe_nil
  · unfold lineSeparated
    split
    · simp [asFormattedLines, joinNlSp, safe_nil]
    · exact safe_lines _ (splitlines_noB _)

/-- non-vacuity: blank, whitespace-only and form-feed lines -/
example : asFormattedText "a\n\n \t \nb\x0cc".toList = "a\n .\n .\n b\n c".toList := by decide +kernel
example : (model "\nx".toList).decEnc = ".\nx".toList := by decide +kernel        -- K4
example : (model "x\n .\n .".toList).e1 = "x\n .".toList ∧ (model "x\n .\n .".toList).e2 = "x".toList := by
  decide +kernel                                                                   -- K5

end Props.C20
