/-
C20 — property theorems, all clauses for every text: safety of the encoder and of the three field
classes, inverse (K4 hypothesis), fixpoint (K5 hypothesis), first line; `sound_partial` combines them.
-/
import DebInspector.Props.C20
import DebInspector.Proofs.Splitlines

namespace Props.C20
open Py Model.Debcon Proofs.Splitlines

theorem encLine_props (l : Str) (h : NoB l) : NoB (encLine l) ∧ encLine l ≠ [] ∧ isBlank (encLine l) = false := by
  unfold encLine
  split
  · refine ⟨?_, by simp, ?_⟩
    · intro c hc; simp only [List.mem_singleton] at hc; subst hc; exact dot_not_boundary
    · simp [isBlank, dot_not_space]
  · rename_i hb
    have hb' : isBlank l = false := by simpa using hb
    refine ⟨h, ?_, hb'⟩
    intro e; subst e; simp [isBlank] at hb'

/-- encoding any list of boundary-free lines is safe -/
theorem safe_lines (ls : List Str) (h : ∀ l ∈ ls, NoB l) : safe (asFormattedLines ls) = true := by
  unfold asFormattedLines safe
  cases ls with
  | nil => simp [joinNlSp, splitlines, splitlinesAux]
  | cons l ls =>
    have hp := encLine_props l (h l (by simp))
    have hps : ∀ q ∈ ls.map encLine, NoB q ∧ q ≠ [] := by
      intro q hq
      simp only [List.mem_map] at hq
      obtain ⟨x, hx, rfl⟩ := hq
      have := encLine_props x (h x (by simp [hx]))
      exact ⟨this.1, this.2.1⟩
    rw [List.map_cons, splitlines_joinNlSp _ _ hp.1 hp.2.1 hps]
    simp only [List.tail_cons, List.all_eq_true, List.mem_map, List.map_map]
    intro y hy
    obtain ⟨x, hx, rfl⟩ := hy
    have := encLine_props x (h x (by simp [hx]))
    simp [Function.comp, startsWith, isBlank_cons, this.2.2]

/-- **C20 safety** — for every Unicode text, every line of `as_formatted_text(t)` after the first,
lines taken at every Python line boundary, starts with a space and is not blank -/
theorem safe_enc (t : Str) : safe (asFormattedText t) = true := by
  unfold asFormattedText
  split
  · rename_i h
    have : t = [] := by simpa using h
    subst this; simp [safe, splitlines, splitlinesAux]
  · exact safe_lines _ (splitlines_noB t)

theorem safe_nil : safe [] = true := by simp [safe, splitlines, splitlinesAux]

/-- the same for `FormattedTextField.from_value(t).dumps()` -/
theorem safe_ft (t : Str) : safe (formattedTextRoundtrip t) = true := by
  unfold formattedTextRoundtrip
  simp only
  generalize (if t.isEmpty = true then t else fromFormattedText t) = text
  split
  · exact safe_nil
  · unfold lineSeparated
    split
    · simp [asFormattedLines, joinNlSp, safe_nil]
    · exact safe_lines _ (splitlines_noB _)

/-! ### the inverse clause -/

def okLine (l : Str) : Bool := !startsWith l ['.'] && !(headP (fun c => isSpace c && c != ' ') l)

/-- decoding the encoded continuation line gives the line back without trailing blanks -/
theorem decLine_enc (l : Str) (h : okLine l = true) : decLine (' ' :: encLine l) = rstrip l := by
  unfold encLine
  by_cases hb : isBlank l = true
  · simp only [hb, if_true]
    rw [(rstrip_eq_nil_iff l).mpr hb]
    decide
  · have hb' : isBlank l = false := by simpa using hb
    simp only [hb', Bool.false_eq_true, if_false]
    cases l with
    | nil => simp [isBlank] at hb'
    | cons c cs =>
      have hsp : isBlank (' ' :: c :: cs) = false := by rw [isBlank_cons, hb']; simp
      have e1 : rstrip (' ' :: c :: cs) = ' ' :: c :: rstrip cs := by
        rw [rstrip_cons_of_nonblank _ _ hsp, rstrip_cons_of_nonblank _ _ hb']
      have e2 : rstrip (c :: cs) = c :: rstrip cs := rstrip_cons_of_nonblank _ _ hb'
      simp only [okLine, startsWith, headP, Bool.and_true, Bool.and_eq_true, Bool.not_eq_true',
        beq_eq_false_iff_ne, ne_eq] at h
      unfold decLine
      simp only [e1, e2]
      by_cases hc : c = ' '
      · subst hc; simp [startsWith]
      · have hns : isSpace c = false := by
          have := h.2
          cases hs : isSpace c with
          | false => rfl
          | true => simp [hs, hc] at this
        have hd : c ≠ '.' := h.1
        have hidem : rstrip (c :: rstrip cs) = c :: rstrip cs := by rw [← e2, rstrip_idem]
        simp [startsWith, hc, hd, strip, lstrip, sp_space, hns, hidem]


/-- hypothesis of the inverse theorem, as the property states it minus the two clauses that only
concern how `trimmed` reads `t` (they are not needed): no line starts with a full stop, no later line
starts with white space other than U+0020, and (K4) the first line is not blank -/
def invertibleCore (t : Str) : Bool :=
  match splitlines t with
  | [] => false
  | l0 :: ls => !isBlank l0 && ls.all okLine

theorem invertible_imp_core (t : Str) (h : invertible t = true) (hf : firstNotBlank t = true) :
    invertibleCore t = true := by
  unfold invertible at h
  unfold firstNotBlank at hf
  unfold invertibleCore
  cases hs : splitlines t with
  | nil => rw [hs] at h; cases h
  | cons l0 ls =>
    rw [hs] at h hf
    simp only [Bool.and_eq_true, List.all_eq_true] at h ⊢
    refine ⟨hf, ?_⟩
    intro l hl
    have := h.1.1.2 l hl
    simpa [okLine] using this

/-- **C20 inverse (K4 hypothesis)** — for every text whose first line is not blank, with no line
starting with a full stop and no later line starting with a tab or other non-U+0020 white space,
`from_formatted_text(as_formatted_text(t))` is `t` with the first line trimmed and trailing blanks
removed from the other lines (space-indented lines keep their indentation). -/
theorem inverse_core (t : Str) (h : invertibleCore t = true) :
    fromFormattedText (asFormattedText t) = trimmed t := by
  unfold invertibleCore at h
  unfold trimmed
  cases hs : splitlines t with
  | nil => rw [hs] at h; cases h
  | cons l0 ls =>
    rw [hs] at h
    simp only [Bool.and_eq_true, Bool.not_eq_true', List.all_eq_true] at h
    obtain ⟨hb0, hls⟩ := h
    have hne : t.isEmpty = false := by
      cases t with
      | nil => simp [splitlines, splitlinesAux] at hs
      | cons _ _ => rfl
    have hnoB : ∀ l ∈ l0 :: ls, NoB l := by
      intro l hl; rw [← hs] at hl; exact splitlines_noB t l hl
    have hp0 := encLine_props l0 (hnoB l0 (by simp))
    have hps : ∀ q ∈ ls.map encLine, NoB q ∧ q ≠ [] := by
      intro q hq
      simp only [List.mem_map] at hq
      obtain ⟨x, hx, rfl⟩ := hq
      have := encLine_props x (hnoB x (by simp [hx]))
      exact ⟨this.1, this.2.1⟩
    have henc : asFormattedText t = joinNlSp (encLine l0 :: ls.map encLine) := by
      simp [asFormattedText, hne, hs, asFormattedLines]
    have hne2 : (joinNlSp (encLine l0 :: ls.map encLine)).isEmpty = false := by
      have : encLine l0 ≠ [] := hp0.2.1
      cases hl : encLine l0 with
      | nil => exact absurd hl this
      | cons a as => cases ls <;> simp [joinNlSp]
    have hsplit := splitlines_joinNlSp (encLine l0) (ls.map encLine) hp0.1 hp0.2.1 hps
    have he0 : encLine l0 = l0 := by simp [encLine, hb0]
    rw [henc]
    simp only [fromFormattedText, hne2, Bool.false_eq_true, if_false, lineSeparated, hsplit, fromFormattedLines]
    rw [he0]
    congr 2
    rw [List.map_map, List.map_map]
    apply List.map_congr_left
    intro l hl
    exact decLine_enc l (hls l hl)

theorem inverse_partial (t : Str) (h : invertible t = true) (hf : firstNotBlank t = true) :
    (model t).decEnc = trimmed t :=
  inverse_core t (invertible_imp_core t h hf)

/-- non-vacuity: verbatim lines, blank lines, trailing blanks, a dot-only verbatim line -/
example : invertible "a \n  x  \n\n .\nb".toList = true ∧ firstNotBlank "a \n  x  \n\n .\nb".toList = true ∧
    (model "a \n  x  \n\n .\nb".toList).decEnc = "a\n  x\n\n .\nb".toList := by decide +kernel


/-- non-vacuity: blank, whitespace-only and form-feed lines -/
example : asFormattedText "a\n\n \t \nb\x0cc".toList = "a\n .\n .\n b\n c".toList := by decide +kernel
example : (model "\nx".toList).decEnc = ".\nx".toList := by decide +kernel        -- K4
example : (model "x\n .\n .".toList).e1 = "x\n .".toList ∧ (model "x\n .\n .".toList).e2 = "x".toList := by
  decide +kernel                                                                   -- K5


/-! ## fixpoint, first-line clause, safety of the field classes, and the whole property -/


/-! ### trailing empty pieces -/

def trailingEmpty : List Str → Nat
  | [] => 0
  | l :: ls =>
    let n := trailingEmpty ls
    if n == ls.length then (if l.isEmpty then n + 1 else n) else n

theorem trailingEmpty_ge_tail (l : Str) (ls : List Str) : trailingEmpty ls ≤ trailingEmpty (l :: ls) := by
  simp only [trailingEmpty]
  split <;> try split
  all_goals omega

theorem dropLastEmpty_eq_nil {m : Str} {ms : List Str} (h : dropLastEmpty (m :: ms) = []) : m = [] ∧ ms = [] := by
  cases ms with
  | nil =>
    simp only [dropLastEmpty] at h
    split at h
    · rename_i he; exact ⟨by simpa using he, rfl⟩
    · cases h
  | cons a as => simp [dropLastEmpty] at h

theorem dropLastEmpty_of_zero (ds : List Str) (h : trailingEmpty ds = 0) : dropLastEmpty ds = ds := by
  induction ds with
  | nil => rfl
  | cons l ls ih =>
    cases ls with
    | nil =>
      simp only [trailingEmpty, List.length_nil, beq_self_eq_true, if_true] at h
      by_cases hl : l.isEmpty = true
      · simp [hl] at h
      · simp [dropLastEmpty, hl]
    | cons m ms =>
      have hge := trailingEmpty_ge_tail l (m :: ms)
      have h0 : trailingEmpty (m :: ms) = 0 := by omega
      simp [dropLastEmpty, ih h0]

theorem trailingEmpty_dropLast (ds : List Str) (h : trailingEmpty ds ≤ 1) : trailingEmpty (dropLastEmpty ds) = 0 := by
  induction ds with
  | nil => rfl
  | cons l ls ih =>
    cases ls with
    | nil =>
      by_cases hl : l.isEmpty = true
      · simp [dropLastEmpty, hl, trailingEmpty]
      · simp [dropLastEmpty, hl, trailingEmpty]
    | cons m ms =>
      have hge := trailingEmpty_ge_tail l (m :: ms)
      have hk := ih (by omega)
      show trailingEmpty (l :: dropLastEmpty (m :: ms)) = 0
      simp only [trailingEmpty, hk]
      by_cases hx : (0 == (dropLastEmpty (m :: ms)).length) = true
      · have hnil : dropLastEmpty (m :: ms) = [] := by
          have : (dropLastEmpty (m :: ms)).length = 0 := by
            have h2 := hx; simp only [beq_iff_eq] at h2; omega
          exact List.length_eq_zero_iff.mp this
        obtain ⟨hm, hms⟩ := dropLastEmpty_eq_nil hnil
        subst hm; subst hms
        by_cases hl : l.isEmpty = true
        · have hl' : l = [] := by simpa using hl
          subst hl'
          simp [trailingEmpty] at h
        · simp [hx, hl]
      · simp [hx]

theorem dropLastEmpty_idem (ds : List Str) (h : trailingEmpty ds ≤ 1) :
    dropLastEmpty (dropLastEmpty ds) = dropLastEmpty ds :=
  dropLastEmpty_of_zero _ (trailingEmpty_dropLast ds h)

theorem dropLastEmpty_subset (ds : List Str) : ∀ d ∈ dropLastEmpty ds, d ∈ ds := by
  induction ds with
  | nil => intro d hd; cases hd
  | cons l ls ih =>
    cases ls with
    | nil =>
      intro d hd
      simp only [dropLastEmpty] at hd
      split at hd
      · cases hd
      · exact hd
    | cons m ms =>
      intro d hd
      simp only [dropLastEmpty, List.mem_cons] at hd
      rcases hd with rfl | hd
      · simp
      · have := ih d (by simpa using hd)
        simp only [List.mem_cons] at this ⊢
        exact Or.inr this


/-! ### canonical decoded lines -/

theorem NoB_rstrip {l : Str} (h : NoB l) : NoB (rstrip l) := fun c hc => h c (rstrip_subset l c hc)
theorem NoB_lstrip {l : Str} (h : NoB l) : NoB (lstrip l) := fun c hc => h c (lstrip_subset l c hc)
theorem NoB_strip {l : Str} (h : NoB l) : NoB (strip l) := NoB_rstrip (NoB_lstrip h)
theorem NoB_tail {l : Str} (h : NoB l) : NoB l.tail := fun c hc => h c (List.mem_of_mem_tail hc)

/-- a decoded line: boundary-free, without trailing blanks, and reproduced by decode∘encode -/
def Canon (d : Str) : Prop := NoB d ∧ rstrip d = d ∧ decLine (' ' :: encLine d) = d

theorem canon_nil : Canon [] := ⟨(fun _ h => by cases h), rfl, (by decide)⟩

/-- a trimmed non-empty piece other than a lone full stop -/
theorem canon_stripped (d : Str) (hB : NoB d) (h1 : d ≠ []) (h2 : headP isSpace d = false) (h3 : rstrip d = d)
    (h4 : d ≠ ['.']) : Canon d := by
  refine ⟨hB, h3, ?_⟩
  have hb : isBlank d = false := isBlank_of_head h2 h1
  cases d with
  | nil => exact absurd rfl h1
  | cons c cs =>
    have hc : isSpace c = false := by simpa [headP] using h2
    have hsp : isBlank (' ' :: c :: cs) = false := by rw [isBlank_cons, hb]; simp
    have e1 : rstrip (' ' :: c :: cs) = ' ' :: c :: cs := by rw [rstrip_cons_of_nonblank _ _ hsp, h3]
    have hcsp : c ≠ ' ' := by intro e; subst e; rw [sp_space] at hc; cases hc
    unfold decLine encLine
    simp only [hb, Bool.false_eq_true, if_false, e1]
    by_cases hd : c = '.'
    · subst hd
      have : cs ≠ [] := by intro e; subst e; exact h4 rfl
      simp [startsWith, this]
    · simp [startsWith, hcsp, hd, strip, lstrip, sp_space, hc, h3]

/-- a verbatim piece: starts with a space, not blank, no trailing blanks -/
theorem canon_verbatim (d : Str) (hB : NoB d) (h1 : startsWith d [' '] = true) (h3 : rstrip d = d) : Canon d := by
  refine ⟨hB, h3, ?_⟩
  have : okLine d = true := by
    cases d with
    | nil => simp [startsWith] at h1
    | cons c cs =>
      have : c = ' ' := by simpa [startsWith] using h1
      subst this
      simp [okLine, startsWith, headP]
  rw [decLine_enc d this, h3]

def confLine (l : Str) : Bool :=
  startsWith l [' '] && !isBlank l && (isMarker l || (!startsWith l [' ', '.'] && strip l != ['.']))

/-- decoding a conformant continuation line gives a canonical piece, empty exactly for a marker -/
theorem decLine_canon (l : Str) (hB : NoB l) (h : confLine l = true) :
    Canon (decLine l) ∧ ((decLine l).isEmpty = isMarker l) := by
  simp only [confLine, Bool.and_eq_true, Bool.not_eq_true', Bool.or_eq_true, bne_iff_ne, ne_eq] at h
  obtain ⟨⟨hsp, hnb⟩, hm⟩ := h
  by_cases hmk : isMarker l = true
  · have : rstrip l = [' ', '.'] := by simpa [isMarker] using hmk
    have hd : decLine l = [] := by unfold decLine; simp only [this]; decide
    rw [hd, hmk]; exact ⟨canon_nil, rfl⟩
  · have hmk' : isMarker l = false := by simpa using hmk
    have hnm : rstrip l ≠ [' ', '.'] := by simpa [isMarker] using hmk'
    rcases hm with hm | hm
    · exact absurd hm hmk
    · obtain ⟨hnd, hns⟩ := hm
      cases l with
      | nil => simp [startsWith] at hsp
      | cons a as =>
        have ha : a = ' ' := by simpa [startsWith] using hsp
        subst ha
        have hasb : isBlank as = false := by
          rw [isBlank_cons, sp_space] at hnb; simpa using hnb
        cases as with
        | nil => simp [isBlank] at hasb
        | cons c cs =>
          have e1 : rstrip (' ' :: c :: cs) = ' ' :: c :: rstrip cs := by
            rw [rstrip_cons_of_nonblank _ _ hnb, rstrip_cons_of_nonblank _ _ hasb]
          have e2 : rstrip (c :: cs) = c :: rstrip cs := rstrip_cons_of_nonblank _ _ hasb
          have hBt : NoB (c :: cs) := NoB_tail hB
          by_cases hc : c = ' '
          · subst hc
            have hd : decLine (' ' :: ' ' :: cs) = ' ' :: rstrip cs := by
              unfold decLine; simp [e1, startsWith]
            rw [hd, hmk']
            refine ⟨canon_verbatim _ ?_ (by simp [startsWith]) ?_, by simp⟩
            · rw [← e2]; exact NoB_rstrip hBt
            · rw [← e2, rstrip_idem]
          · have hcd : c ≠ '.' := by
              intro e; subst e; simp [startsWith] at hnd
            have hd : decLine (' ' :: c :: cs) = strip (' ' :: c :: cs) := by
              unfold decLine
              simp only [e1]
              have hne : ¬ (' ' :: c :: rstrip cs = [' ', '.']) := by
                intro e; rw [← e1] at e; exact hnm e
              have hst : strip (' ' :: c :: rstrip cs) = strip (' ' :: c :: cs) := by
                rw [← e1, strip_rstrip]
              simp [startsWith, hc, hcd, hne, hst]
            rw [hd, hmk']
            have hne : strip (' ' :: c :: cs) ≠ [] := strip_ne_nil hnb
            refine ⟨canon_stripped _ (NoB_strip hB) hne (strip_head _) ?_ hns, by simpa using hne⟩
            unfold strip; rw [rstrip_idem]


theorem trailing_eq (ls : List Str) (h : ∀ l ∈ ls, (decLine l).isEmpty = isMarker l) :
    trailingEmpty (ls.map decLine) = trailingMarkers ls := by
  induction ls with
  | nil => rfl
  | cons l ls ih =>
    have := ih (fun x hx => h x (by simp [hx]))
    simp only [List.map_cons, trailingEmpty, trailingMarkers, this, List.length_map, h l (by simp)]

theorem joinNl_isEmpty (f : Str) (ds : List Str) (hf : f ≠ []) : (joinNl (f :: ds)).isEmpty = false := by
  cases f with
  | nil => exact absurd rfl hf
  | cons a as => cases ds <;> simp [joinNl]

theorem dropLastEmpty_cons (f : Str) (ds : List Str) (hf : f ≠ []) :
    dropLastEmpty (f :: ds) = f :: dropLastEmpty ds := by
  cases ds with
  | nil => simp [dropLastEmpty, hf]
  | cons d ds => simp [dropLastEmpty]

/-- encoding the `"\n"`-join of boundary-free pieces: one trailing empty piece is lost -/
theorem enc_joinNl (f : Str) (ds : List Str) (hf : f ≠ []) (hB : ∀ l ∈ f :: ds, NoB l) :
    asFormattedText (joinNl (f :: ds)) = asFormattedLines (f :: dropLastEmpty ds) := by
  unfold asFormattedText
  rw [joinNl_isEmpty f ds hf]
  simp only [Bool.false_eq_true, if_false]
  rw [splitlines_joinNl _ hB, dropLastEmpty_cons f ds hf]

/-- decoding the encoding of canonical pieces gives their `"\n"`-join -/
theorem dec_enc_canon (f : Str) (ds : List Str) (hfB : NoB f) (hfne : f ≠ []) (hfh : headP isSpace f = false)
    (hfr : rstrip f = f) (hds : ∀ d ∈ ds, Canon d) :
    fromFormattedText (asFormattedLines (f :: ds)) = joinNl (f :: ds) := by
  have hfb : isBlank f = false := isBlank_of_head hfh hfne
  have he0 : encLine f = f := by simp [encLine, hfb]
  have hps : ∀ q ∈ ds.map encLine, NoB q ∧ q ≠ [] := by
    intro q hq
    simp only [List.mem_map] at hq
    obtain ⟨x, hx, rfl⟩ := hq
    have := encLine_props x (hds x hx).1
    exact ⟨this.1, this.2.1⟩
  have hsplit := splitlines_joinNlSp f (ds.map encLine) hfB hfne hps
  have hne2 : (joinNlSp (f :: ds.map encLine)).isEmpty = false := by
    cases f with
    | nil => exact absurd rfl hfne
    | cons a as => cases ds <;> simp [joinNlSp]
  have hstrip : strip f = f := by unfold strip; rw [lstrip_of_head hfh, hfr]
  unfold asFormattedLines
  rw [List.map_cons, he0]
  simp only [fromFormattedText, hne2, Bool.false_eq_true, if_false, lineSeparated, hsplit, fromFormattedLines, hstrip]
  congr 2
  rw [List.map_map, List.map_map]
  conv => rhs; rw [← List.map_id ds]
  apply List.map_congr_left
  intro d hd
  exact (hds d hd).2.2

/-- **C20 fixpoint (K5 hypothesis)** — for every policy-conformant field value ending in at most one
blank-line marker, `enc(dec(enc(dec v))) = enc(dec v)`. -/
theorem fixpoint_core (v : Str) (h : conformant v = true) (hk : atMostOneTrailingMarker v = true) :
    asFormattedText (fromFormattedText (asFormattedText (fromFormattedText v))) =
      asFormattedText (fromFormattedText v) := by
  unfold conformant at h
  unfold atMostOneTrailingMarker at hk
  cases hs : splitlines v with
  | nil => rw [hs] at h; cases h
  | cons l0 ls =>
    rw [hs] at h hk
    simp only [Bool.and_eq_true, Bool.not_eq_true', List.all_eq_true, List.tail_cons] at h hk
    obtain ⟨hb0, hls⟩ := h
    have hne : v.isEmpty = false := by
      cases v with
      | nil => simp [splitlines, splitlinesAux] at hs
      | cons _ _ => rfl
    have hnoB : ∀ l ∈ l0 :: ls, NoB l := by
      intro l hl; rw [← hs] at hl; exact splitlines_noB v l hl
    have hconf : ∀ l ∈ ls, confLine l = true := by
      intro l hl
      have := hls l hl
      simpa [confLine] using this
    have hcan : ∀ l ∈ ls, Canon (decLine l) ∧ ((decLine l).isEmpty = isMarker l) :=
      fun l hl => decLine_canon l (hnoB l (by simp [hl])) (hconf l hl)
    -- the decoded pieces
    have hfB : NoB (strip l0) := NoB_strip (hnoB l0 (by simp))
    have hfne : strip l0 ≠ [] := strip_ne_nil hb0
    have hfh : headP isSpace (strip l0) = false := strip_head l0
    have hfr : rstrip (strip l0) = strip l0 := by unfold strip; rw [rstrip_idem]
    have hdsC : ∀ d ∈ ls.map decLine, Canon d := by
      intro d hd
      simp only [List.mem_map] at hd
      obtain ⟨x, hx, rfl⟩ := hd
      exact (hcan x hx).1
    have hdec : fromFormattedText v = joinNl (strip l0 :: ls.map decLine) := by
      simp [fromFormattedText, hne, lineSeparated, hs, fromFormattedLines]
    have hBall : ∀ l ∈ strip l0 :: ls.map decLine, NoB l := by
      intro l hl
      rcases List.mem_cons.mp hl with rfl | hl
      · exact hfB
      · exact (hdsC l hl).1
    have hte : trailingEmpty (ls.map decLine) ≤ 1 := by
      rw [trailing_eq ls (fun l hl => (hcan l hl).2)]; exact of_decide_eq_true hk
    have hd1C : ∀ d ∈ dropLastEmpty (ls.map decLine), Canon d :=
      fun d hd => hdsC d (dropLastEmpty_subset _ d hd)
    have hBall1 : ∀ l ∈ strip l0 :: dropLastEmpty (ls.map decLine), NoB l := by
      intro l hl
      rcases List.mem_cons.mp hl with rfl | hl
      · exact hfB
      · exact (hd1C l hl).1
    rw [hdec, enc_joinNl _ _ hfne hBall, dec_enc_canon _ _ hfB hfne hfh hfr hd1C,
      enc_joinNl _ _ hfne hBall1, dropLastEmpty_idem _ hte]

theorem fixpoint_partial (v : Str) (h : conformant v = true) (hk : atMostOneTrailingMarker v = true) :
    (model v).e2 = (model v).e1 := fixpoint_core v h hk

/-- non-vacuity: a conformant value with markers, a verbatim line, a tab-indented line and one trailing marker -/
example : conformant "a \n  x  \n .\n \tb.\n . ".toList = true ∧
    atMostOneTrailingMarker "a \n  x  \n .\n \tb.\n . ".toList = true ∧
    (model "a \n  x  \n .\n \tb.\n . ".toList).e1 = "a\n  x\n .\n b.".toList := by decide +kernel


/-! ### the first-line clause -/

theorem splitlinesAux_ne_nil (rest cur : Str) (cr : Bool) (h : cur ≠ []) : splitlinesAux rest cur cr ≠ [] := by
  induction rest generalizing cur cr with
  | nil => simp [splitlinesAux, h]
  | cons c cs ih =>
    rw [splitlinesAux]
    split
    · exact ih cur false h
    · split
      · simp
      · split
        · simp
        · exact ih (c :: cur) false (by simp)

theorem splitlines_ne_nil (t : Str) (h : t ≠ []) : splitlines t ≠ [] := by
  cases t with
  | nil => exact absurd rfl h
  | cons c cs =>
    unfold splitlines
    rw [splitlinesAux]
    split
    · rename_i hc; exact absurd hc.2 (by simp)
    · split
      · simp
      · split
        · simp
        · exact splitlinesAux_ne_nil cs [c] false (by simp)

theorem firstLine_single (p : Str) (hB : NoB p) (hne : p ≠ []) : firstLine p = p := by
  unfold firstLine splitlines; rw [splitlinesAux_single p hB hne]; rfl

theorem firstLine_nl (p rest : Str) (hB : NoB p) : firstLine (p ++ '\n' :: rest) = p := by
  unfold firstLine splitlines; rw [splitlinesAux_line p rest hB]; rfl

theorem asFormattedText_nonblank (t : Str) (h : t ≠ []) : isBlank (asFormattedText t) = false := by
  unfold asFormattedText
  have : t.isEmpty = false := by cases t <;> simp_all
  simp only [this, Bool.false_eq_true, if_false, asFormattedLines]
  cases hs : splitlines t with
  | nil => exact absurd hs (splitlines_ne_nil t h)
  | cons l ls =>
    have hp := encLine_props l (splitlines_noB t l (by rw [hs]; simp))
    have e : ∃ r, joinNlSp ((l :: ls).map encLine) = encLine l ++ r := by
      cases ls with
      | nil => exact ⟨[], by simp [joinNlSp]⟩
      | cons m ms => exact ⟨_, by simp only [List.map_cons, joinNlSp]; rfl⟩
    obtain ⟨r, hr⟩ := e
    rw [hr, isBlank_append, hp.2.2]; rfl

/-- **C20 first-line clause** — when the first line of `v` is not blank, the rendering of the
description field and of the license field built from `v` keep the trimmed first line (synopsis,
short name) as their own first line. -/
theorem first_line (v : Str) (h : firstNotBlank v = true) :
    firstLine (descriptionRoundtrip v) = strip (firstLine v) ∧ firstLine (licenseRoundtrip v) = strip (firstLine v) := by
  unfold firstNotBlank at h
  cases hs : splitlines v with
  | nil => rw [hs] at h; cases h
  | cons l0 ls =>
    rw [hs] at h
    have hb0 : isBlank l0 = false := by simpa using h
    have hne : v.isEmpty = false := by
      cases v with
      | nil => simp [splitlines, splitlinesAux] at hs
      | cons _ _ => rfl
    have hl0B : NoB l0 := splitlines_noB v l0 (by rw [hs]; simp)
    have hfB : NoB (strip l0) := NoB_strip hl0B
    have hfne : strip l0 ≠ [] := strip_ne_nil hb0
    have hfh : headP isSpace (strip l0) = false := strip_head l0
    have hss : strip (strip l0) = strip l0 := by
      have := lstrip_of_head (strip_head l0)
      show rstrip (lstrip (strip l0)) = strip l0
      rw [this]; unfold strip; rw [rstrip_idem]
    have hfl : firstLine v = l0 := by unfold firstLine; rw [hs]; rfl
    have hdfv : descriptionFromValue v = (strip l0, if ls.isEmpty then none else some (fromFormattedLines ls)) := by
      simp [descriptionFromValue, lineSeparated, hne, hs]
    rw [hfl]
    constructor
    · unfold descriptionRoundtrip
      rw [hdfv]
      unfold descriptionDumps
      simp only [hss]
      split
      · exact firstLine_single _ hfB hfne
      · split
        · exact firstLine_single _ hfB hfne
        · exact firstLine_nl _ _ hfB
    · unfold licenseRoundtrip licenseFromValue licenseDumps
      rw [hdfv]
      unfold descriptionDumps
      simp only [hss]
      have hstripf : strip (strip l0) = strip l0 := hss
      split
      · rw [hstripf]; exact firstLine_single _ hfB hfne
      · rename_i text htext
        split
        · rw [hstripf]; exact firstLine_single _ hfB hfne
        · rename_i hte
          -- text is the left-stripped, non-empty license text
          have htne : text ≠ [] := by intro e; subst e; simp at hte
          have hth : headP isSpace text = false := by
            cases hls : ls.isEmpty with
            | true => simp [hls] at htext
            | false =>
              simp only [hls, Bool.false_eq_true, if_false, Option.map_some, Option.some.injEq] at htext
              split at htext
              · rename_i he; rw [← htext] at htne; simp_all
              · rw [← htext]; exact lstrip_head _
          have hnsw : startsWith text [' '] = false := by
            cases text with
            | nil => rfl
            | cons c cs =>
              have : isSpace c = false := by simpa [headP] using hth
              have : c ≠ ' ' := by intro e; subst e; rw [sp_space] at this; cases this
              simp [startsWith, this]
          simp only [hnsw, Bool.false_eq_true, if_false]
          have hEb : isBlank (' ' :: asFormattedText text) = false := by
            rw [isBlank_cons, asFormattedText_nonblank text htne]; simp
          have hRb : isBlank ('\n' :: ' ' :: asFormattedText text) = false := by
            rw [isBlank_cons, hEb]; simp
          have hW : strip (strip l0 ++ '\n' :: ' ' :: asFormattedText text) =
              strip l0 ++ '\n' :: rstrip (' ' :: asFormattedText text) := by
            unfold strip
            have hh : headP isSpace (rstrip (lstrip l0) ++ '\n' :: ' ' :: asFormattedText text) = false := by
              have := hfh; unfold strip at this
              cases hr : rstrip (lstrip l0) with
              | nil => exact absurd hr (by simpa [strip] using hfne)
              | cons c cs => rw [hr] at this; simpa [headP] using this
            rw [lstrip_of_head hh, rstrip_append_nonblank _ _ hRb, rstrip_cons_of_nonblank _ _ hRb]
          rw [hW]
          exact firstLine_nl _ _ hfB


/-! ### safety of the description and license renderings -/

theorem safe_joinNlSp (p : Str) (ps : List Str) (hp : NoB p) (hpne : p ≠ [])
    (hps : ∀ q ∈ ps, NoB q ∧ q ≠ [] ∧ isBlank q = false) : safe (joinNlSp (p :: ps)) = true := by
  unfold safe
  rw [splitlines_joinNlSp p ps hp hpne (fun q hq => ⟨(hps q hq).1, (hps q hq).2.1⟩)]
  simp only [List.tail_cons, List.all_eq_true, List.mem_map]
  intro y hy
  obtain ⟨x, hx, rfl⟩ := hy
  simp [startsWith, isBlank_cons, (hps x hx).2.2]

theorem safe_single (p : Str) (hp : NoB p) : safe p = true := by
  unfold safe splitlines
  rw [splitlinesAux_last p hp]
  split <;> simp

theorem joinNlSp_snoc (ps : List Str) (p q : Str) :
    ∃ pre, joinNlSp (p :: (ps ++ [q])) = pre ++ q ∧ ∀ q', joinNlSp (p :: (ps ++ [q'])) = pre ++ q' := by
  induction ps generalizing p with
  | nil => exact ⟨p ++ ['\n', ' '], by simp [joinNlSp], by intro q'; simp [joinNlSp]⟩
  | cons a as ih =>
    obtain ⟨pre, h1, h2⟩ := ih a
    refine ⟨p ++ '\n' :: ' ' :: pre, ?_, ?_⟩
    · show p ++ '\n' :: ' ' :: joinNlSp (a :: (as ++ [q])) = _
      rw [h1]; simp
    · intro q'
      show p ++ '\n' :: ' ' :: joinNlSp (a :: (as ++ [q'])) = _
      rw [h2]; simp

/-- right-stripping a `"\n "`-join whose last piece is not blank only strips the last piece -/
theorem rstrip_joinNlSp (p : Str) (ps : List Str) (q : Str) (hq : isBlank q = false) :
    rstrip (joinNlSp (p :: (ps ++ [q]))) = joinNlSp (p :: (ps ++ [rstrip q])) := by
  obtain ⟨pre, h1, h2⟩ := joinNlSp_snoc ps p q
  rw [h1, h2 (rstrip q), rstrip_append_nonblank _ _ hq]

theorem encPieces (ls : List Str) (h : ∀ l ∈ ls, NoB l) :
    ∀ q ∈ ls.map encLine, NoB q ∧ q ≠ [] ∧ isBlank q = false := by
  intro q hq
  simp only [List.mem_map] at hq
  obtain ⟨x, hx, rfl⟩ := hq
  exact encLine_props x (h x hx)

theorem joinNl_not_sp (f : Str) (ds : List Str) (hf : headP isSpace f = false) :
    startsWith (joinNl (f :: ds)) [' '] = false := by
  cases f with
  | nil => cases ds <;> simp [joinNl, startsWith]
  | cons c cs =>
    have hc : isSpace c = false := by simpa [headP] using hf
    have : c ≠ ' ' := by intro e; subst e; rw [sp_space] at hc; cases hc
    cases ds <;> simp [joinNl, startsWith, this]

theorem fromFormattedLines_not_sp (ls : List Str) : startsWith (fromFormattedLines ls) [' '] = false := by
  cases ls with
  | nil => rfl
  | cons l ls => exact joinNl_not_sp _ _ (strip_head l)

theorem safe_desc (v : Str) : safe (descriptionRoundtrip v) = true := by
  unfold descriptionRoundtrip descriptionFromValue
  cases hl : lineSeparated v with
  | nil => simp [descriptionDumps, strip, lstrip, rstrip, safe_nil]
  | cons l0 ls =>
    have hl0B : NoB l0 := by
      unfold lineSeparated at hl
      split at hl
      · cases hl
      · exact splitlines_noB v l0 (by rw [hl]; simp)
    have hfB : NoB (strip (strip l0)) := NoB_strip (NoB_strip hl0B)
    simp only
    unfold descriptionDumps
    simp only
    split
    · exact safe_single _ hfB
    · rename_i text htext
      split
      · exact safe_single _ hfB
      · rename_i hte
        have htne : text ≠ [] := by intro e; subst e; simp at hte
        have hnsw : startsWith text [' '] = false := by
          cases hls : ls.isEmpty with
          | true => simp [hls] at htext
          | false =>
            simp only [hls, Bool.false_eq_true, if_false, Option.some.injEq] at htext
            rw [← htext]; exact fromFormattedLines_not_sp ls
        simp only [hnsw, Bool.false_eq_true, if_false]
        have htie : text.isEmpty = false := by cases text <;> simp_all
        by_cases hsyn : strip (strip l0) = []
        · -- an empty synopsis: the rendering starts with the line break
          rw [hsyn]
          simp only [List.nil_append]
          unfold asFormattedText
          simp only [htie, Bool.false_eq_true, if_false, asFormattedLines]
          cases hs : splitlines text with
          | nil => exact absurd hs (splitlines_ne_nil text htne)
          | cons q qs =>
            have hqs := encPieces (q :: qs) (fun l hl => splitlines_noB text l (by rw [hs]; exact hl))
            have := splitlines_joinNlSp (encLine q) (qs.map encLine) (hqs _ (by simp)).1 (hqs _ (by simp)).2.1
              (fun r hr => ⟨(hqs r (by simp only [List.map_cons, List.mem_cons]; exact Or.inr hr)).1,
                            (hqs r (by simp only [List.map_cons, List.mem_cons]; exact Or.inr hr)).2.1⟩)
            have hspB : NoB (' ' :: joinNlSp (List.map encLine (q :: qs))) → True := fun _ => trivial
            -- "\n " ++ E: the first line is empty, the others are E's lines with the leading space
            have e : splitlines ('\n' :: ' ' :: joinNlSp (List.map encLine (q :: qs))) =
                [] :: splitlines (joinNlSp ((' ' :: encLine q) :: qs.map encLine)) := by
              have hnl : ('\n' : Char) ≠ '\r' := by decide
              have ej : ' ' :: joinNlSp (List.map encLine (q :: qs)) = joinNlSp ((' ' :: encLine q) :: qs.map encLine) := by
                cases qs <;> simp [joinNlSp]
              unfold splitlines
              rw [ej]
              simp [splitlinesAux, nl_boundary, hnl]
            unfold safe
            rw [e]
            have hq' : NoB (' ' :: encLine q) := by
              intro d hd
              rcases List.mem_cons.mp hd with rfl | hd
              · exact sp_not_boundary
              · exact (hqs _ (by simp)).1 d hd
            rw [splitlines_joinNlSp (' ' :: encLine q) (qs.map encLine) hq' (by simp)
              (fun r hr => ⟨(hqs r (by simp only [List.map_cons, List.mem_cons]; exact Or.inr hr)).1,
                            (hqs r (by simp only [List.map_cons, List.mem_cons]; exact Or.inr hr)).2.1⟩)]
            simp only [List.tail_cons, List.all_cons, List.all_eq_true, List.mem_map, Bool.and_eq_true]
            refine ⟨by simp [startsWith, isBlank_cons, (hqs _ (by simp : encLine q ∈ (q :: qs).map encLine)).2.2], ?_⟩
            intro y hy
            obtain ⟨x, hx, rfl⟩ := hy
            have := hqs x (by simp only [List.map_cons, List.mem_cons]; exact Or.inr (List.mem_map.mpr hx))
            simp [startsWith, isBlank_cons, this.2.2]
        · unfold asFormattedText
          simp only [htie, Bool.false_eq_true, if_false, asFormattedLines]
          cases hs : splitlines text with
          | nil => exact absurd hs (splitlines_ne_nil text htne)
          | cons q qs =>
            have hqs := encPieces (q :: qs) (fun l hl => splitlines_noB text l (by rw [hs]; exact hl))
            have e : strip (strip l0) ++ '\n' :: ' ' :: joinNlSp (List.map encLine (q :: qs)) =
                joinNlSp (strip (strip l0) :: List.map encLine (q :: qs)) := by
              simp [joinNlSp]
            rw [e]
            exact safe_joinNlSp _ _ hfB hsyn hqs

theorem joinNlSp_head (ps : List Str) : ∃ r, ∀ p, joinNlSp (p :: ps) = p ++ r := by
  cases ps with
  | nil => exact ⟨[], by intro p; simp [joinNlSp]⟩
  | cons q qs => exact ⟨'\n' :: ' ' :: joinNlSp (q :: qs), by intro p; rfl⟩

def GoodPiece (q : Str) : Prop := NoB q ∧ q ≠ [] ∧ isBlank q = false

theorem good_rstrip {q : Str} (h : GoodPiece q) : GoodPiece (rstrip q) := by
  refine ⟨NoB_rstrip h.1, ?_, isBlank_rstrip h.2.2⟩
  intro e
  have := (rstrip_eq_nil_iff q).mp e
  rw [h.2.2] at this; cases this

theorem good_lstrip {q : Str} (h : GoodPiece q) : GoodPiece (lstrip q) := by
  have hb : isBlank (lstrip q) = false := by rw [isBlank_lstrip]; exact h.2.2
  refine ⟨NoB_lstrip h.1, ?_, hb⟩
  intro e; rw [e] at hb; simp [isBlank] at hb

/-- right-stripping a `"\n "`-join of good pieces leaves a safe value -/
theorem safe_rstrip_joinNlSp (p : Str) (ps : List Str) (hp : GoodPiece p) (hps : ∀ q ∈ ps, GoodPiece q) :
    safe (rstrip (joinNlSp (p :: ps))) = true := by
  rcases List.eq_nil_or_concat ps with rfl | ⟨init, last, rfl⟩
  · simp only [joinNlSp]; exact safe_single _ (NoB_rstrip hp.1)
  · have hl := hps last (by simp)
    rw [List.concat_eq_append, rstrip_joinNlSp p init last hl.2.2]
    apply safe_joinNlSp p _ hp.1 hp.2.1
    intro q hq
    simp only [List.mem_append, List.mem_singleton] at hq
    rcases hq with hq | rfl
    · exact hps q (by simp [hq])
    · exact good_rstrip hl

theorem safe_lic (v : Str) : safe (licenseRoundtrip v) = true := by
  unfold licenseRoundtrip licenseFromValue licenseDumps descriptionFromValue
  cases hl : lineSeparated v with
  | nil => simp [descriptionDumps, strip, lstrip, rstrip, safe_nil]
  | cons l0 ls =>
    have hl0B : NoB l0 := by
      unfold lineSeparated at hl
      split at hl
      · cases hl
      · exact splitlines_noB v l0 (by rw [hl]; simp)
    have hfB : NoB (strip (strip l0)) := NoB_strip (NoB_strip hl0B)
    simp only
    unfold descriptionDumps
    simp only
    split
    · exact safe_single _ (NoB_strip hfB)
    · rename_i text htext
      split
      · exact safe_single _ (NoB_strip hfB)
      · rename_i hte
        have htne : text ≠ [] := by intro e; subst e; simp at hte
        have hth : headP isSpace text = false := by
          cases hls : ls.isEmpty with
          | true => simp [hls] at htext
          | false =>
            simp only [hls, Bool.false_eq_true, if_false, Option.map_some, Option.some.injEq] at htext
            split at htext
            · rename_i he; rw [← htext] at htne; simp_all
            · rw [← htext]; exact lstrip_head _
        have hnsw : startsWith text [' '] = false := by
          cases text with
          | nil => rfl
          | cons c cs =>
            have : isSpace c = false := by simpa [headP] using hth
            have : c ≠ ' ' := by intro e; subst e; rw [sp_space] at this; cases this
            simp [startsWith, this]
        simp only [hnsw, Bool.false_eq_true, if_false]
        have htie : text.isEmpty = false := by cases text <;> simp_all
        unfold asFormattedText
        simp only [htie, Bool.false_eq_true, if_false, asFormattedLines]
        cases hs : splitlines text with
        | nil => exact absurd hs (splitlines_ne_nil text htne)
        | cons q qs =>
          have hqs : ∀ x ∈ (q :: qs).map encLine, GoodPiece x :=
            encPieces (q :: qs) (fun l hl => splitlines_noB text l (by rw [hs]; exact hl))
          by_cases hsyn : strip (strip l0) = []
          · rw [hsyn]
            simp only [List.nil_append, List.map_cons]
            have e1 : strip ('\n' :: ' ' :: joinNlSp (encLine q :: qs.map encLine)) =
                rstrip (lstrip (joinNlSp (encLine q :: qs.map encLine))) := by
              have hnl : isSpace '\n' = true := by decide
              simp [strip, lstrip, hnl, sp_space]
            obtain ⟨r, hr⟩ := joinNlSp_head (qs.map encLine)
            have hq0 := hqs (encLine q) (by simp)
            rw [e1, hr (encLine q), lstrip_append_nonblank _ _ hq0.2.2, ← hr (lstrip (encLine q))]
            exact safe_rstrip_joinNlSp _ _ (good_lstrip hq0) (fun x hx => hqs x (by simp only [List.map_cons, List.mem_cons]; exact Or.inr hx))
          · have hsh : headP isSpace (strip (strip l0)) = false := strip_head _
            have hsb : isBlank (strip (strip l0)) = false := isBlank_of_head hsh hsyn
            have e : strip (strip l0) ++ '\n' :: ' ' :: joinNlSp (List.map encLine (q :: qs)) =
                joinNlSp (strip (strip l0) :: List.map encLine (q :: qs)) := by
              simp [joinNlSp]
            rw [e]
            obtain ⟨r, hr⟩ := joinNlSp_head (List.map encLine (q :: qs))
            have hh : headP isSpace (joinNlSp (strip (strip l0) :: List.map encLine (q :: qs))) = false := by
              rw [hr]
              cases hc : strip (strip l0) with
              | nil => exact absurd hc hsyn
              | cons c cs => rw [hc] at hsh; simpa [headP] using hsh
            show safe (rstrip (lstrip _)) = true
            rw [lstrip_of_head hh]
            exact safe_rstrip_joinNlSp _ _ ⟨hfB, hsyn, hsb⟩ hqs


/-- **C20, all clauses** — for every Unicode text the model satisfies the property with the
hypotheses of the two known findings added (K4: first line not blank in the inverse clause;
K5: at most one trailing marker in the fixpoint clause). -/
theorem sound_partial (t : Str) : holdsOnPartial t (model t) = true := by
  unfold holdsOnPartial
  have h1 : safe (model t).enc = true := safe_enc t
  have h2 : safe (model t).ft = true := safe_ft t
  have h3 : safe (model t).desc = true := safe_desc t
  have h4 : safe (model t).lic = true := safe_lic t
  have h5 : (!(invertible t && firstNotBlank t) || (model t).decEnc == trimmed t) = true := by
    cases hi : (invertible t && firstNotBlank t) with
    | false => rfl
    | true =>
      simp only [Bool.and_eq_true] at hi
      simp [inverse_partial t hi.1 hi.2]
  have h6 : (!(conformant t && atMostOneTrailingMarker t) || (model t).e2 == (model t).e1) = true := by
    cases hi : (conformant t && atMostOneTrailingMarker t) with
    | false => rfl
    | true =>
      simp only [Bool.and_eq_true] at hi
      simp [fixpoint_partial t hi.1 hi.2]
  have h7 : (!(match splitlines t with | l0 :: _ => !isBlank l0 | [] => false) ||
      (firstLine (model t).desc == strip (firstLine t) && firstLine (model t).lic == strip (firstLine t))) = true := by
    cases hi : (match splitlines t with | l0 :: _ => !isBlank l0 | [] => false) with
    | false => rfl
    | true =>
      have := first_line t hi
      show (!true || (firstLine (descriptionRoundtrip t) == _ && firstLine (licenseRoundtrip t) == _)) = true
      simp [this.1, this.2]
  rw [h1, h2, h3, h4, h5, h6]
  simp only [Bool.true_and]
  exact h7

end Props.C20
