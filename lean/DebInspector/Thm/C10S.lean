/-
C10 — the shift clause for every text: neither the line-tracking loop (`go_shift`) nor the copyright pipeline
(`fromFieldsGroups_shift`: from_fields, merge of unknown paragraphs with its min/max ranges, fold into an empty license)
looks at line numbers, so k blank lines on top move every range by exactly k and change nothing else (`shift_sound`).
-/
import DebInspector.Thm.C10
import DebInspector.Thm.C07
import DebInspector.Proofs.Deb822
namespace Props.C10S
open Py Model.Deb822 Model.Debcon Model.Copyright Props.C10 Proofs.Deb822

/-! ## prepending blank lines shifts every range and changes nothing else -/

def shiftFld (k : Nat) (f : Fld) : Fld := ⟨f.name, f.lines.map (shiftNL k)⟩
def shiftGrp (k : Nat) (g : List Fld) : List Fld := g.map (shiftFld k)
def shiftSt (k : Nat) : St → St
  | none => none
  | some (done, cur) => some (shiftGrp k done, shiftFld k cur)

theorem go_blank_prefix (k n : Nat) (rest : List NL) :
    go none (numberFrom n (List.replicate k []) ++ rest) = go none rest := by
  induction k generalizing n with
  | zero => rfl
  | succ k ih =>
    simp only [List.replicate_succ, numberFrom, List.cons_append]
    conv => lhs; unfold go
    have hb : isBlank ([] : Str) = true := rfl
    simp only [hb, if_true, flush, List.nil_append]
    exact ih (n + 1)

theorem rstripLines_shift (k : Nat) (ls : List NL) : rstripLines (ls.map (shiftNL k)) = (rstripLines ls).map (shiftNL k) := by
  induction ls with
  | nil => rfl
  | cons l ls ih =>
    simp only [List.map_cons, rstripLines, ih]
    cases hr : rstripLines ls with
    | nil =>
      simp only [List.map_nil]
      have hv : (shiftNL k l).val = l.val := rfl
      rw [hv]
      cases hb : isBlank l.val <;> simp
    | cons r rs => simp only [List.map_cons]

theorem clean_shift (k : Nat) (g : List Fld) : clean (shiftGrp k g) = shiftGrp k (clean g) := by
  unfold clean shiftGrp
  simp only [List.map_map]
  apply List.map_congr_left
  intro f _
  simp only [Function.comp, shiftFld, rstripLines_shift]

theorem flush_shift (k : Nat) (st : St) : flush (shiftSt k st) = (flush st).map (shiftGrp k) := by
  cases st with
  | none => rfl
  | some s =>
    obtain ⟨done, cur⟩ := s
    simp only [shiftSt, flush, List.map_cons, List.map_nil]
    rw [← clean_shift]
    simp [shiftGrp]

theorem fromLine_shift (k : Nat) (l : NL) : fromLine (shiftNL k l) = shiftFld k (fromLine l) := by
  unfold fromLine shiftFld shiftNL
  simp

theorem go_blank_absorb (s : List Fld × Fld) (l n : NL) (rest : List NL) (hb : isBlank l.val = true)
    (hd : isDecl n.val = false) (hnb : isBlank n.val = false) :
    go (some s) (l :: n :: rest) = go (some (addLine s ⟨l.num, rstrip l.val⟩)) (n :: rest) := by
  conv => lhs; unfold go
  simp only [hb, if_true, hd, hnb, Bool.not_false, Bool.and_self]

theorem go_blank_close (s : List Fld × Fld) (l n : NL) (rest : List NL) (hb : isBlank l.val = true)
    (h : (!isDecl n.val && !isBlank n.val) = false) :
    go (some s) (l :: n :: rest) = flush (some s) ++ go none (n :: rest) := by
  conv => lhs; unfold go
  simp only [hb, if_true, h, Bool.false_eq_true, if_false]

theorem go_blank_last (s : List Fld × Fld) (l : NL) (hb : isBlank l.val = true) :
    go (some s) [l] = flush (some s) ++ go none [] := by
  conv => lhs; unfold go
  simp only [hb, if_true]

theorem go_junk_open (s : List Fld × Fld) (l : NL) (rest : List NL) (hnb : isBlank l.val = false)
    (hc : isCont l.val = false) (hd : isDecl l.val = false) :
    go (some s) (l :: rest) = flush (some s) ++ [[⟨unknownName, [l]⟩]] ++ go none rest := by
  conv => lhs; unfold go
  simp only [hnb, Bool.false_eq_true, if_false, hc, hd]

theorem go_junk_none (l : NL) (rest : List NL) (hnb : isBlank l.val = false) (hd : isDecl l.val = false) :
    go none (l :: rest) = [[⟨unknownName, [l]⟩]] ++ go none rest := by
  conv => lhs; unfold go
  simp only [hnb, Bool.false_eq_true, if_false, hd]

/-- the loop does not look at line numbers: renumbering the lines renumbers the result -/
theorem go_shift (k : Nat) (st : St) (ls : List NL) :
    go (shiftSt k st) (ls.map (shiftNL k)) = (go st ls).map (shiftGrp k) := by
  induction ls generalizing st with
  | nil => simp only [List.map_nil, go]; exact flush_shift k st
  | cons l rest ih =>
    simp only [List.map_cons]
    have hv : (shiftNL k l).val = l.val := rfl
    cases hb : isBlank l.val with
    | true =>
      have hb' : isBlank (shiftNL k l).val = true := by rw [hv]; exact hb
      cases st with
      | none =>
        simp only [shiftSt]
        rw [go_blank_none _ _ hb', go_blank_none _ _ hb]
        exact ih none
      | some s =>
        obtain ⟨done, cur⟩ := s
        simp only [shiftSt]
        cases rest with
        | nil =>
          simp only [List.map_nil]
          rw [go_blank_last _ _ hb', go_blank_last _ _ hb]
          have := flush_shift k (some (done, cur))
          simp only [shiftSt] at this
          rw [this]; simp [go, flush]
        | cons n rest' =>
          simp only [List.map_cons]
          have hnv : (shiftNL k n).val = n.val := rfl
          cases hc : (!isDecl n.val && !isBlank n.val) with
          | true =>
            simp only [Bool.and_eq_true, Bool.not_eq_true'] at hc
            rw [go_blank_absorb _ _ _ _ hb' (by rw [hnv]; exact hc.1) (by rw [hnv]; exact hc.2),
              go_blank_absorb _ _ _ _ hb hc.1 hc.2]
            have := ih (some (addLine (done, cur) ⟨l.num, rstrip l.val⟩))
            simp only [shiftSt, List.map_cons, addLine, shiftFld, List.map_append, List.map_nil, shiftNL] at this ⊢
            exact this
          | false =>
            rw [go_blank_close _ _ _ _ hb' (by rw [hnv]; exact hc), go_blank_close _ _ _ _ hb hc]
            have h1 := flush_shift k (some (done, cur))
            have h2 := ih none
            simp only [shiftSt, List.map_cons] at h1 h2
            rw [h1, h2, List.map_append]
    | false =>
      have hb' : isBlank (shiftNL k l).val = false := by rw [hv]; exact hb
      cases st with
      | none =>
        simp only [shiftSt]
        cases hd : isDecl l.val with
        | true =>
          rw [go_decl_step_none _ _ hb' (by rw [hv]; exact hd), go_decl_step_none _ _ hb hd, fromLine_shift]
          have := ih (some ([], fromLine l))
          simp only [shiftSt, shiftGrp, List.map_nil] at this
          exact this
        | false =>
          rw [go_junk_none _ _ hb' (by rw [hv]; exact hd), go_junk_none _ _ hb hd]
          have := ih none
          simp only [shiftSt] at this
          rw [this]
          simp [shiftGrp, shiftFld]
      | some s =>
        obtain ⟨done, cur⟩ := s
        simp only [shiftSt]
        cases hc : isCont l.val with
        | true =>
          rw [go_cont_step _ _ _ hb' (by rw [hv]; exact hc), go_cont_step _ _ _ hb hc]
          have := ih (some (addLine (done, cur) ⟨l.num, rstrip l.val⟩))
          simp only [shiftSt, addLine, shiftFld, List.map_append, List.map_cons, List.map_nil, shiftNL] at this ⊢
          exact this
        | false =>
          cases hd : isDecl l.val with
          | true =>
            rw [go_decl_step_open _ _ _ hb' (by rw [hv]; exact hc) (by rw [hv]; exact hd),
              go_decl_step_open _ _ _ hb hc hd, fromLine_shift]
            have := ih (some (done ++ [cur], fromLine l))
            simp only [shiftSt, shiftGrp, List.map_append, List.map_cons, List.map_nil] at this ⊢
            exact this
          | false =>
            rw [go_junk_open _ _ _ hb' (by rw [hv]; exact hc) (by rw [hv]; exact hd), go_junk_open _ _ _ hb hc hd]
            have h1 := flush_shift k (some (done, cur))
            have h2 := ih none
            simp only [shiftSt] at h1 h2
            rw [h1, h2]
            simp [shiftGrp, shiftFld]


/-! ### the copyright pipeline does not look at line numbers either -/

def sh (k : Nat) (kv : Str × (Nat × Nat)) : Str × (Nat × Nat) := (kv.1, (kv.2.1 + k, kv.2.2 + k))

def shiftP (k : Nat) (p : Para) : Para := { p with lines := p.lines.map (sh k) }
def shiftAcc (k : Nat) (a : Acc) : Acc := { a with lines := a.lines.map (sh k) }

theorem lset_sh (k : Nat) (l : List (Str × (Nat × Nat))) (key : Str) (v : Nat × Nat) :
    lset (l.map (sh k)) key (v.1 + k, v.2 + k) = (lset l key v).map (sh k) := by
  induction l with
  | nil => rfl
  | cons a as ih =>
    obtain ⟨a1, a2⟩ := a
    simp only [List.map_cons, lset, sh]
    by_cases e : a1 = key
    · simp [e, sh]
    · simp only [e, if_false, List.map_cons]
      rw [← ih]; rfl

theorem fieldText_shift (k : Nat) (f : Fld) : fieldText (shiftFld k f) = fieldText f := by
  unfold fieldText shiftFld
  simp only [List.map_map]
  congr 1

theorem takeWhile_blank_shift (k : Nat) (ls : List NL) :
    ((ls.map (shiftNL k)).takeWhile fun l => isBlank l.val).length = (ls.takeWhile fun l => isBlank l.val).length := by
  induction ls with
  | nil => rfl
  | cons l ls ih =>
    simp only [List.map_cons, List.takeWhile]
    have hv : (shiftNL k l).val = l.val := rfl
    rw [hv]
    cases isBlank l.val <;> simp [ih]

theorem addField_shift (k : Nat) (kn : List Str) (a : Acc) (f : Fld) :
    addField kn (shiftAcc k a) (shiftFld k f) = (addField kn a f).map (shiftAcc k) := by
  unfold addField
  simp only [fieldText_shift]
  by_cases hv : (fieldText f).isEmpty = true
  · simp [hv, Except.map]
  · have hv' : (fieldText f).isEmpty = false := by simpa using hv
    simp only [hv', Bool.false_eq_true, if_false]
    have hname : (shiftFld k f).name = f.name := rfl
    have hseen : (shiftAcc k a).seen = a.seen := rfl
    have hsuf : (shiftAcc k a).suffix = a.suffix := rfl
    have hknown : (shiftAcc k a).known = a.known := rfl
    have hextra : (shiftAcc k a).extra = a.extra := rfl
    simp only [hname, hseen, hsuf, hknown, hextra]
    cases hfr : freshName a.seen (replaceChar '-' '_' f.name) (a.seen.length + 1) (replaceChar '-' '_' f.name) a.suffix with
    | none => rfl
    | some r =>
      obtain ⟨name, suffix⟩ := r
      simp only
      cases hcl : ((kn.contains name && (a.known.lookup name).isSome) || (!kn.contains name && (a.extra.lookup name).isSome)) with
      | true => simp only [if_true, Except.map]
      | false =>
        simp only [Bool.false_eq_true, if_false]
        have hlines : (shiftFld k f).lines = f.lines.map (shiftNL k) := rfl
        rw [hlines]
        cases hl : f.lines with
        | nil => simp [Except.map]
        | cons l ls =>
          have hlast : ∃ x, (l :: ls).getLast? = some x := ⟨(l :: ls).getLast (by simp), List.getLast?_eq_some_getLast _⟩
          obtain ⟨x, hx⟩ := hlast
          have hx' : ((l :: ls).map (shiftNL k)).getLast? = some (shiftNL k x) := by
            rw [List.getLast?_map, hx]; rfl
          simp only [List.map_cons, List.head?_cons] at hx' ⊢
          rw [hx', hx]
          simp only
          have htw := takeWhile_blank_shift k (l :: ls)
          simp only [List.map_cons] at htw
          rw [htw]
          have hnum : (shiftNL k l).num + ((l :: ls).takeWhile fun l => isBlank l.val).length =
              (l.num + ((l :: ls).takeWhile fun l => isBlank l.val).length) + k := by
            simp only [shiftNL]; omega
          have hxn : (shiftNL k x).num = x.num + k := rfl
          by_cases hkn : kn.contains name = true
          · simp only [hkn, if_true, Except.map, shiftAcc]
            rw [hnum, hxn]
            have := lset_sh k a.lines name (l.num + ((l :: ls).takeWhile fun l => isBlank l.val).length, x.num)
            simp only at this
            rw [this]
          · have hkn' : kn.contains name = false := by simpa using hkn
            simp only [hkn', Bool.false_eq_true, if_false, Except.map, shiftAcc]
            rw [hnum, hxn]
            have := lset_sh k a.lines name (l.num + ((l :: ls).takeWhile fun l => isBlank l.val).length, x.num)
            simp only at this
            rw [this]


theorem addFields_shift (k : Nat) (kn : List Str) (fs : List Fld) (a : Acc) :
    addFields kn (shiftAcc k a) (shiftGrp k fs) = (addFields kn a fs).map (shiftAcc k) := by
  induction fs generalizing a with
  | nil => rfl
  | cons f fs ih =>
    simp only [shiftGrp, List.map_cons, addFields]
    rw [addField_shift]
    cases addField kn a f with
    | error e => rfl
    | ok a' =>
      simp only [Except.map]
      exact ih a'

theorem classify_shift (k : Nat) (g : List Fld) : classify (shiftGrp k g) = classify g := by
  unfold classify shiftGrp
  simp only [List.map_map]
  have : ((fun (f : Fld) => f.name) ∘ shiftFld k) = fun f => f.name := rfl
  rw [this]

theorem fromFields_shift (k : Nat) (K : Kind) (g : List Fld) :
    fromFields K (shiftGrp k g) = (fromFields K g).map (shiftP k) := by
  unfold fromFields
  simp only
  have := addFields_shift k (if K = .catchall then [] else (typedFields K).map (·.1)) g ⟨[], [], [], [], 1⟩
  have h0 : shiftAcc k ⟨[], [], [], [], 1⟩ = ⟨[], [], [], [], 1⟩ := rfl
  rw [h0] at this
  rw [this]
  cases addFields (if K = .catchall then [] else (typedFields K).map (·.1)) ⟨[], [], [], [], 1⟩ g with
  | error e => rfl
  | ok a => rfl

theorem mapExcept_shift (k : Nat) (gs : List (List Fld)) :
    Model.Copyright.mapExcept (fun g => fromFields (classify g) g) (gs.map (shiftGrp k)) =
      (Model.Copyright.mapExcept (fun g => fromFields (classify g) g) gs).map (·.map (shiftP k)) := by
  induction gs with
  | nil => rfl
  | cons g gs ih =>
    simp only [List.map_cons, Model.Copyright.mapExcept, classify_shift, fromFields_shift]
    cases fromFields (classify g) g with
    | error e => rfl
    | ok p =>
      simp only [Except.map]
      rw [ih]
      cases Model.Copyright.mapExcept (fun g => fromFields (classify g) g) gs with
      | error e => rfl
      | ok ps => rfl

theorem toDict_shift (k : Nat) (p : Para) : toDict (shiftP k p) = toDict p := rfl

theorem foldl_min_shift (k : Nat) (ns : List (Nat × Nat)) (m : Nat) :
    (ns.map fun x => (x.1 + k, x.2 + k)).foldl (fun m x => min m x.1) (m + k) = ns.foldl (fun m x => min m x.1) m + k := by
  induction ns generalizing m with
  | nil => rfl
  | cons n ns ih =>
    simp only [List.map_cons, List.foldl_cons]
    have : min (m + k) (n.1 + k) = min m n.1 + k := by omega
    rw [this, ih]

theorem foldl_max_shift (k : Nat) (ns : List (Nat × Nat)) (m : Nat) :
    (ns.map fun x => (x.1 + k, x.2 + k)).foldl (fun m x => max m x.2) (m + k) = ns.foldl (fun m x => max m x.2) m + k := by
  induction ns generalizing m with
  | nil => rfl
  | cons n ns ih =>
    simp only [List.map_cons, List.foldl_cons]
    have : max (m + k) (n.2 + k) = max m n.2 + k := by omega
    rw [this, ih]

theorem nums_shift (k : Nat) (g : List Para) :
    (g.flatMap fun p => (p.lines.map (sh k)).map (·.2)) = (g.flatMap fun p => p.lines.map (·.2)).map fun x => (x.1 + k, x.2 + k) := by
  induction g with
  | nil => rfl
  | cons p ps ih =>
    simp only [List.flatMap_cons, List.map_append, ih]
    congr 1
    simp [sh, List.map_map, Function.comp]

theorem mergeRun_shift (k : Nat) (g : List Para) : mergeRun (g.map (shiftP k)) = (mergeRun g).map (shiftP k) := by
  unfold mergeRun
  simp only [List.flatMap_map, toDict_shift]
  split
  · rfl
  · simp only [Except.map]
    congr 2
    simp only [shiftP]
    rw [nums_shift]
    cases (g.flatMap fun p => p.lines.map (·.2)) with
    | nil => rfl
    | cons n ns =>
      simp only [List.map_cons, List.map_nil, sh, foldl_min_shift, foldl_max_shift]


theorem groupByKind_shift (k : Nat) (ps : List Para) :
    groupByKind (ps.map (shiftP k)) = (groupByKind ps).map (·.map (shiftP k)) := by
  induction ps with
  | nil => rfl
  | cons p ps ih =>
    simp only [List.map_cons, groupByKind, ih]
    cases hg : groupByKind ps with
    | nil => rfl
    | cons g0 rest =>
      cases g0 with
      | nil => rfl
      | cons q g =>
        simp only [List.map_cons]
        have hk : (shiftP k q).kind = q.kind := rfl
        have hk2 : (shiftP k p).kind = p.kind := rfl
        rw [hk, hk2]
        by_cases e : q.kind = p.kind
        · simp [e]
        · simp [e]

theorem isAllUnknown_shift (k : Nat) (p : Para) : isAllUnknown (shiftP k p) = isAllUnknown p := rfl

open Props.C07 in
theorem mstep_shift (k : Nat) (acc : Except PyExc (List Para)) (g : List Para) :
    mstep (acc.map (·.map (shiftP k))) (g.map (shiftP k)) = (mstep acc g).map (·.map (shiftP k)) := by
  unfold mstep
  cases acc with
  | error e => rfl
  | ok out =>
    simp only [Except.map]
    cases g with
    | nil => rfl
    | cons p rest =>
      simp only [List.map_cons]
      have hk : (shiftP k p).kind = p.kind := rfl
      have hlen : (shiftP k p :: rest.map (shiftP k)).length = (p :: rest).length := by simp
      have hall : (shiftP k p :: rest.map (shiftP k)).all isAllUnknown = (p :: rest).all isAllUnknown := by
        simp only [List.all_cons, List.all_map, isAllUnknown_shift]
        congr 1
      rw [hk, hlen, hall]
      split
      · simp [List.map_append]
      · have := mergeRun_shift k (p :: rest)
        simp only [List.map_cons] at this
        rw [this]
        cases mergeRun (p :: rest) with
        | error e => rfl
        | ok m => simp [Except.map, List.map_append]

open Props.C07 in
theorem mergeUnknown_shift (k : Nat) (ps : List Para) :
    mergeUnknown (ps.map (shiftP k)) = (mergeUnknown ps).map (·.map (shiftP k)) := by
  rw [mergeUnknown_eq, mergeUnknown_eq, groupByKind_shift]
  have key : ∀ (gs : List (List Para)) (acc : Except PyExc (List Para)),
      (gs.map (·.map (shiftP k))).foldl mstep (acc.map (·.map (shiftP k))) = (gs.foldl mstep acc).map (·.map (shiftP k)) := by
    intro gs
    induction gs with
    | nil => intro acc; rfl
    | cons g gs ih =>
      intro acc
      simp only [List.map_cons, List.foldl_cons]
      rw [mstep_shift, ih]
  exact key _ (.ok [])


theorem lookup_sh (k : Nat) (l : List (Str × (Nat × Nat))) (key : Str) :
    (l.map (sh k)).lookup key = (l.lookup key).map fun r => (r.1 + k, r.2 + k) := by
  induction l with
  | nil => rfl
  | cons a as ih =>
    obtain ⟨a1, a2⟩ := a
    simp only [List.map_cons, sh, List.lookup]
    cases (key == a1) <;> simp [ih]

open Props.C07 in
theorem foldCond_shift (k : Nat) (p1 p2 : Para) : foldCond (shiftP k p1) (shiftP k p2) = foldCond p1 p2 := rfl

def shiftRes (k : Nat) (r : List Para × Bool) : List Para × Bool := (r.1.map (shiftP k), r.2)

open Props.C07 in
theorem foldLoop_shift (k : Nat) (ps : List Para) (b : Bool) :
    foldLoop (ps.map (shiftP k)) b = (foldLoop ps b).map (shiftRes k) := by
  induction ps generalizing b with
  | nil => rfl
  | cons p1 rest ih =>
    cases rest with
    | nil => rfl
    | cons p2 rest2 =>
      simp only [List.map_cons]
      rw [foldLoop_unfold, foldLoop_unfold, foldCond_shift]
      have ih' := ih
      simp only [List.map_cons] at ih'
      cases b with
      | true => simp only [if_true]; exact ih' false
      | false =>
        simp only [Bool.false_eq_true, if_false]
        cases hc : foldCond p1 p2 with
        | false =>
          simp only [Bool.false_eq_true, if_false]
          rw [ih' false]
          cases foldLoop (p2 :: rest2) false with
          | error e => rfl
          | ok r => obtain ⟨out, fp⟩ := r; rfl
        | true =>
          simp only [if_true, toDict_shift]
          have hl : (shiftP k p2).lines.lookup unknownName = (p2.lines.lookup unknownName).map fun r => (r.1 + k, r.2 + k) :=
            lookup_sh k p2.lines unknownName
          rw [hl]
          cases hd : toDict p2 with
          | nil => cases p2.lines.lookup unknownName <;> rfl
          | cons kv more =>
            cases more with
            | cons _ _ => obtain ⟨kk, v⟩ := kv; cases v <;> cases p2.lines.lookup unknownName <;> rfl
            | nil =>
              obtain ⟨kk, v⟩ := kv
              cases v with
              | emptyList => cases p2.lines.lookup unknownName <;> rfl
              | s text =>
                cases p2.lines.lookup unknownName with
                | none => rfl
                | some rng =>
                  simp only [Option.map_some]
                  rw [ih' true]
                  cases foldLoop (p2 :: rest2) true with
                  | error e => rfl
                  | ok r =>
                    obtain ⟨out, fp⟩ := r
                    simp only [Except.map, shiftRes, List.map_cons]
                    congr 3
                    simp only [shiftP, setLicense]
                    congr 1
                    exact lset_sh k p1.lines "license".toList rng

theorem foldLicense_shift (k : Nat) (ps : List Para) :
    foldLicense (ps.map (shiftP k)) = (foldLicense ps).map (·.map (shiftP k)) := by
  unfold foldLicense
  simp only [List.length_map]
  by_cases hl : ps.length ≤ 2
  · simp [hl, Except.map]
  · simp only [hl, if_false]
    rw [foldLoop_shift]
    cases foldLoop ps false with
    | error e => rfl
    | ok r =>
      obtain ⟨out, fp⟩ := r
      simp only [Except.map, shiftRes]
      cases fp with
      | true => rfl
      | false =>
        simp only [Bool.false_eq_true, if_false, List.getLast?_map]
        cases ps.getLast? with
        | none => rfl
        | some last => simp [List.map_append]

theorem fromFieldsGroups_shift (k : Nat) (gs : List (List Fld)) :
    fromFieldsGroups (gs.map (shiftGrp k)) = (fromFieldsGroups gs).map (·.map (shiftP k)) := by
  unfold fromFieldsGroups
  rw [mapExcept_shift]
  cases Model.Copyright.mapExcept (fun g => fromFields (classify g) g) gs with
  | error e => rfl
  | ok ps =>
    simp only [Except.map]
    rw [mergeUnknown_shift]
    cases mergeUnknown ps with
    | error e => rfl
    | ok ps' =>
      simp only [Except.map]
      exact foldLicense_shift k ps'

theorem parse_shift (k : Nat) (t : Str) : parse (List.replicate k '\n' ++ t) = (parse t).map (shiftGrp k) := by
  unfold parse
  rw [linesFromText_shift, go_blank_prefix]
  have := go_shift k none (linesFromText t)
  simp only [shiftSt] at this
  exact this

theorem ofPara_shift (k : Nat) (p : Para) : Props.CopyrightObs.ofPara (shiftP k p) = shiftPara k (Props.CopyrightObs.ofPara p) := rfl

/-- **C10, the shift clause**: for every text and every k, the copyright object of the text with k blank lines on top is
the copyright object of the text with every line range moved by exactly k, and nothing else changed -/
theorem shift_sound (t : Str) (k : Nat) :
    parasOf (List.replicate k '\n' ++ t) = (parasOf t).map (·.map (shiftPara k)) := by
  unfold parasOf fromText
  rw [parse_shift, fromFieldsGroups_shift]
  cases fromFieldsGroups (parse t) with
  | error e => rfl
  | ok ps =>
    simp only [Except.map, List.map_map]
    congr 1


/-- the shift clause as the check states it -/
theorem shift_clause (i : Input) :
    match (model i).base, (model i).shifted with
    | .ok ps, .ok qs => qs = ps.map (shiftPara i.k)
    | _, _ => True := by
  unfold model
  simp only
  rw [shift_sound]
  cases parasOf i.text with
  | error e => trivial
  | ok ps => rfl

end Props.C10S
