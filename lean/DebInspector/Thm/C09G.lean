/-
C09 — from the tracked field groups to the typed paragraphs: for every well-formed DEP-5 document and any
field groups that spell its paragraphs, `from_fields_groups` returns one paragraph per document paragraph, of
the class the document gives it, with exactly its typed fields (`typed_value`: every converter) and its extra
data, the two recovery rewrites leave it alone, and it is valid exactly when it has a files paragraph
(`sound_from_groups`).
-/
import DebInspector.Thm.C09
import DebInspector.Thm.C07
namespace Props.C09G
open Py Model.Deb822 Model.Debcon Model.Copyright Props.Dep5 Props.C09

/-! ## from the tracked field groups to the typed paragraphs -/

/-- the raw value of a field of the document, as the line-tracking parser hands it over -/
def rawVal (f : Field) : Str := Model.Debcon.joinNl (f.first :: f.conts.map rawLine)

/-- a tracked field spells a field of the document: its normalised name, its first-line value and its continuation lines -/
def SpellsF (f : Field) (x : Fld) : Prop :=
  x.name = normLabel f.label ∧ x.lines.map (·.val) = f.first :: f.conts.map rawLine

theorem spells_text (f : Field) (x : Fld) (h : SpellsF f x) : fieldText x = rawVal f := by
  unfold fieldText rawVal; rw [h.2]

theorem spells_lines (f : Field) (x : Fld) (h : SpellsF f x) :
    ∃ a b, x.lines.head? = some a ∧ x.lines.getLast? = some b := by
  have : x.lines ≠ [] := by
    intro e; have := h.2; rw [e] at this; cases this
  cases hl : x.lines with
  | nil => exact absurd hl this
  | cons a as =>
    refine ⟨a, (a :: as).getLast (by simp), rfl, ?_⟩
    exact List.getLast?_eq_some_getLast (by simp)

theorem freshName_fresh (seen : List Str) (name : Str) (suffix : Nat) (h : seen.contains name = false) :
    freshName seen name (seen.length + 1) name suffix = some (name, suffix) := by
  simp only [freshName, h, Bool.false_eq_true, if_false]

theorem lookup_some_mem' {β} (d : List (Str × β)) (k : Str) (v : β) (h : d.lookup k = some v) : k ∈ d.map (·.1) := by
  induction d with
  | nil => simp [List.lookup] at h
  | cons kv rest ih =>
    obtain ⟨k', v'⟩ := kv
    simp only [List.lookup] at h
    by_cases e : k = k'
    · subst e; simp
    · have : (k == k') = false := by simpa using e
      simp only [this] at h
      simp [ih h]

/-- the accumulator after a field that is neither empty nor seen before -/
theorem addField_fresh (knownNames : List Str) (a : Acc) (x : Fld) (f : Field) (hs : SpellsF f x)
    (hne : (rawVal f).isEmpty = false) (hfresh : a.seen.contains (fieldKey f) = false)
    (hk : ∀ k ∈ a.known.map (·.1), k ∈ a.seen) (he : ∀ k ∈ a.extra.map (·.1), k ∈ a.seen) :
    ∃ a', addField knownNames a x = .ok a' ∧ a'.seen = a.seen ++ [fieldKey f] ∧
      (if knownNames.contains (fieldKey f) then
        a'.known = a.known ++ [(fieldKey f, lstrip (rawVal f))] ∧ a'.extra = a.extra
       else a'.known = a.known ∧ a'.extra = a.extra ++ [(fieldKey f, .s (lstrip (rawVal f)))]) := by
  obtain ⟨l0, l1, h0, h1⟩ := spells_lines f x hs
  have hkey : replaceChar '-' '_' x.name = fieldKey f := by rw [hs.1]; rfl
  have hnotin : ∀ (l : List (Str × Str)), (∀ k ∈ l.map (·.1), k ∈ a.seen) → l.lookup (fieldKey f) = none := by
    intro l hl
    cases hlk : l.lookup (fieldKey f) with
    | none => rfl
    | some v =>
      have := lookup_some_mem' l _ v hlk
      have := hl _ this
      have hc : a.seen.contains (fieldKey f) = true := List.contains_iff_mem.mpr this
      rw [hfresh] at hc; cases hc
  have hnotinX : ∀ (l : List (Str × XV)), (∀ k ∈ l.map (·.1), k ∈ a.seen) → l.lookup (fieldKey f) = none := by
    intro l hl
    cases hlk : l.lookup (fieldKey f) with
    | none => rfl
    | some v =>
      have := lookup_some_mem' l _ v hlk
      have := hl _ this
      have hc : a.seen.contains (fieldKey f) = true := List.contains_iff_mem.mpr this
      rw [hfresh] at hc; cases hc
  unfold addField
  simp only [spells_text f x hs, hne, Bool.false_eq_true, if_false, hkey, freshName_fresh _ _ _ hfresh,
    hnotin a.known hk, hnotinX a.extra he, Option.isSome_none, Bool.and_false, Bool.or_self, h0, h1]
  by_cases hkn : knownNames.contains (fieldKey f) = true
  · have hm : fieldKey f ∈ knownNames := List.contains_iff_mem.mp hkn
    simp only [hm, if_true, hkn]
    exact ⟨_, rfl, rfl, rfl, rfl⟩
  · have hm : ¬ fieldKey f ∈ knownNames := fun h => hkn (List.contains_iff_mem.mpr h)
    have hkn' : knownNames.contains (fieldKey f) = false := by simpa using hkn
    simp only [hm, if_false, hkn', Bool.false_eq_true]
    exact ⟨_, rfl, rfl, rfl, rfl⟩


inductive All2 {α β} (R : α → β → Prop) : List α → List β → Prop
  | nil : All2 R [] []
  | cons {a b as bs} : R a b → All2 R as bs → All2 R (a :: as) (b :: bs)

theorem addFields_para (knownNames : List Str) (p : Dep5.Para) (g : List Fld) (hall : All2 SpellsF p g) (a : Acc)
    (hk : ∀ k ∈ a.known.map (·.1), k ∈ a.seen) (he : ∀ k ∈ a.extra.map (·.1), k ∈ a.seen)
    (hne : ∀ f ∈ p, (rawVal f).isEmpty = false)
    (hfresh : ∀ f ∈ p, a.seen.contains (fieldKey f) = false) (hnd : (p.map fieldKey).Nodup) :
    ∃ a', addFields knownNames a g = .ok a' ∧
      a'.known = a.known ++ (p.filter fun f => knownNames.contains (fieldKey f)).map (fun f => (fieldKey f, lstrip (rawVal f))) ∧
      a'.extra = a.extra ++ (p.filter fun f => !knownNames.contains (fieldKey f)).map
        (fun f => (fieldKey f, XV.s (lstrip (rawVal f)))) := by
  induction hall generalizing a with
  | nil => exact ⟨a, rfl, by simp, by simp⟩
  | @cons f x fs xs hs _ ih =>
    obtain ⟨a1, h1, hseen, hcase⟩ := addField_fresh knownNames a x f hs (hne f (by simp)) (hfresh f (by simp)) hk he
    simp only [List.map_cons, List.nodup_cons] at hnd
    have hfresh' : ∀ f' ∈ fs, a1.seen.contains (fieldKey f') = false := by
      intro f' hf'
      rw [hseen]
      have h0 := hfresh f' (by simp [hf'])
      have hneq : fieldKey f' ≠ fieldKey f := by
        intro e; exact hnd.1 (by rw [← e]; exact List.mem_map.mpr ⟨f', hf', rfl⟩)
      cases hc : (a.seen ++ [fieldKey f]).contains (fieldKey f') with
      | false => rfl
      | true =>
        have := List.contains_iff_mem.mp hc
        simp only [List.mem_append, List.mem_singleton] at this
        rcases this with h | h
        · have := List.contains_iff_mem.mpr h; rw [h0] at this; cases this
        · exact absurd h hneq
    by_cases hkn : knownNames.contains (fieldKey f) = true
    · rw [if_pos hkn] at hcase
      obtain ⟨hkn1, hex1⟩ := hcase
      have hk' : ∀ k ∈ a1.known.map (·.1), k ∈ a1.seen := by
        intro k hk0
        rw [hkn1] at hk0; rw [hseen]
        simp only [List.map_append, List.map_cons, List.map_nil, List.mem_append, List.mem_singleton] at hk0 ⊢
        rcases hk0 with h | h
        · exact Or.inl (hk k h)
        · exact Or.inr h
      have he' : ∀ k ∈ a1.extra.map (·.1), k ∈ a1.seen := by
        intro k hk0
        rw [hex1] at hk0; rw [hseen]
        exact List.mem_append_left _ (he k hk0)
      obtain ⟨a2, h2, hk2, he2⟩ := ih a1 hk' he' (fun f' hf' => hne f' (by simp [hf'])) hfresh' hnd.2
      refine ⟨a2, ?_, ?_, ?_⟩
      · simp only [addFields, h1]; exact h2
      · have hm : fieldKey f ∈ knownNames := List.contains_iff_mem.mp hkn
        rw [hk2, hkn1]; simp [List.filter_cons, hm, List.append_assoc]
      · have hm : fieldKey f ∈ knownNames := List.contains_iff_mem.mp hkn
        rw [he2, hex1]; simp [List.filter_cons, hm]
    · have hkn' : knownNames.contains (fieldKey f) = false := by simpa using hkn
      rw [if_neg hkn] at hcase
      obtain ⟨hkn1, hex1⟩ := hcase
      have hk' : ∀ k ∈ a1.known.map (·.1), k ∈ a1.seen := by
        intro k hk0
        rw [hkn1] at hk0; rw [hseen]
        exact List.mem_append_left _ (hk k hk0)
      have he' : ∀ k ∈ a1.extra.map (·.1), k ∈ a1.seen := by
        intro k hk0
        rw [hex1] at hk0; rw [hseen]
        simp only [List.map_append, List.map_cons, List.map_nil, List.mem_append, List.mem_singleton] at hk0 ⊢
        rcases hk0 with h | h
        · exact Or.inl (he k h)
        · exact Or.inr h
      obtain ⟨a2, h2, hk2, he2⟩ := ih a1 hk' he' (fun f' hf' => hne f' (by simp [hf'])) hfresh' hnd.2
      refine ⟨a2, ?_, ?_, ?_⟩
      · simp only [addFields, h1]; exact h2
      · have hm : ¬ fieldKey f ∈ knownNames := fun h => hkn (List.contains_iff_mem.mpr h)
        rw [hk2, hkn1]; simp [List.filter_cons, hm]
      · have hm : ¬ fieldKey f ∈ knownNames := fun h => hkn (List.contains_iff_mem.mpr h)
        rw [he2, hex1]; simp [List.filter_cons, hm, List.append_assoc]


/-! ### the typed value of every known field -/

/-- **line-based lists** (`Upstream-Contact`): one trimmed item per line -/
theorem lineSep_typed (f : Field) (hk : f.kind = 6) (h : fieldOk f = true) :
    fromValue "LineSeparatedField" (some (rawVal f)) = expectedFV f := by
  simp only [fieldOk, hk, Bool.and_eq_true, List.all_eq_true, Bool.not_eq_true', beq_iff_eq, List.isEmpty_eq_false_iff] at h
  obtain ⟨⟨⟨_, hpl⟩, htrim⟩, hne, hconts⟩ := h
  have hfacts : ∀ l ∈ f.conts, TFacts l := fun l hl => tline_facts l (hconts l hl).2
  have hv : (rawVal f).isEmpty = false := by
    have := joinNl_ne_nil' f.first (f.conts.map rawLine) hne
    unfold rawVal
    cases hj : Model.Debcon.joinNl (f.first :: f.conts.map rawLine) with
    | nil => exact absurd hj this
    | cons _ _ => rfl
  have hsl := splitlines_value f.first f.conts (plain_noB _ hpl) hne hfacts
  unfold rawVal at hv ⊢
  simp only [fromValue, String.reduceEq, if_false, if_true, expectedFV, hk, lineSeparated, hv, Bool.false_eq_true, hsl,
    List.map_cons, List.map_map, strip_trimmed _ htrim]
  congr 2
  apply List.map_congr_left
  intro l hl
  obtain ⟨hk0, hok⟩ := hconts l hl
  simp only [Function.comp, rawLine, hk0]
  unfold tlineOk at hok
  rw [hk0] at hok
  simp only [Bool.and_eq_true, Bool.not_eq_true'] at hok
  have htr : trimmed l.content = true := hok.1.2
  have hsp : isSpace ' ' = true := by decide
  have : strip (' ' :: l.content) = strip l.content := by
    simp [strip, lstrip, hsp]
  rw [this, strip_trimmed _ htr]

def clsOf : Nat → String
  | 0 => "SingleLineField"
  | 1 => "AnyWhiteSpaceSeparatedField"
  | 2 => "CopyrightField"
  | 3 => "LicenseField"
  | 4 => "FormattedTextField"
  | _ => "LineSeparatedField"

theorem lstrip_rawVal (f : Field) (hne : f.first ≠ []) (htrim : trimmed f.first = true) : lstrip (rawVal f) = rawVal f := by
  apply lstrip_of_head
  have hh : headP isSpace f.first = false := by
    simp only [trimmed, Bool.and_eq_true, Bool.not_eq_true'] at htrim; exact htrim.1
  unfold rawVal
  cases hff : f.first with
  | nil => exact absurd hff hne
  | cons c cs =>
    rw [hff] at hh
    cases hm : f.conts.map rawLine <;> simpa [Model.Debcon.joinNl, headP] using hh

theorem kind_cases (f : Field) (h : fieldOk f = true) : f.kind = 0 ∨ f.kind = 1 ∨ f.kind = 2 ∨ f.kind = 3 ∨ f.kind = 4 ∨ f.kind = 5 ∨ f.kind = 6 := by
  simp only [fieldOk, Bool.and_eq_true] at h
  obtain ⟨_, hm⟩ := h
  match hk : f.kind with
  | 0 => simp
  | 1 => simp
  | 2 => simp
  | 3 => simp
  | 4 => simp
  | 5 => simp
  | 6 => simp
  | n + 7 => rw [hk] at hm; simp at hm

/-- **the typed value of every known field of the grammar** -/
theorem typed_value (f : Field) (h : fieldOk f = true) (h5 : f.kind ≠ 5) :
    fromValue (clsOf f.kind) (some (lstrip (rawVal f))) = expectedFV f := by
  have htrim : trimmed f.first = true := by
    simp only [fieldOk, Bool.and_eq_true] at h; exact h.1.2
  rcases kind_cases f h with hk | hk | hk | hk | hk | hk | hk
  · have hne : f.first ≠ [] := by
      simp only [fieldOk, hk, Bool.and_eq_true, Bool.not_eq_true', List.isEmpty_eq_false_iff] at h; exact h.2.1
    rw [hk, lstrip_rawVal f hne htrim]; exact single_typed f hk h
  · have hne : f.first ≠ [] := by
      simp only [fieldOk, hk, Bool.and_eq_true] at h
      exact (ss_of _ h.2.1).ne
    rw [hk, lstrip_rawVal f hne htrim]; exact wsSep_typed f hk h
  · have hne : f.first ≠ [] := by
      simp only [fieldOk, hk, Bool.and_eq_true] at h
      exact (ss_of _ h.2.1).ne
    rw [hk, lstrip_rawVal f hne htrim]; exact copyright_typed f hk h
  · have hne : f.first ≠ [] := by
      simp only [fieldOk, hk, Bool.and_eq_true, Bool.not_eq_true', List.isEmpty_eq_false_iff] at h; exact h.2.1
    rw [hk, lstrip_rawVal f hne htrim]; exact license_typed f hk h
  · rw [hk]; exact formatted_typed f hk h
  · exact absurd hk h5
  · have hne : f.first ≠ [] := by
      simp only [fieldOk, hk, Bool.and_eq_true, Bool.not_eq_true', List.isEmpty_eq_false_iff] at h; exact h.2.1
    rw [hk, lstrip_rawVal f hne htrim]; exact lineSep_typed f hk h

theorem rawVal_ne (f : Field) (h : fieldOk f = true) : (rawVal f).isEmpty = false := by
  have h0 := h
  -- the first line or a continuation line is there
  unfold rawVal
  by_cases hne : f.first = []
  · -- only kind 4 may have an empty first line, and then it has a continuation line
    rcases kind_cases f h with hk | hk | hk | hk | hk | hk | hk <;>
      simp only [fieldOk, hk, Bool.and_eq_true, Bool.not_eq_true', List.isEmpty_eq_false_iff, Bool.or_eq_true] at h
    · exact absurd hne h.2.1
    · exact absurd hne (ss_of _ h.2.1).ne
    · exact absurd hne (ss_of _ h.2.1).ne
    · exact absurd hne h.2.1
    · rcases h.2.2 with h1 | h1
      · exact absurd hne h1
      · cases hc : f.conts with
        | nil => exact absurd hc h1
        | cons l ls =>
          rw [hne]
          have hl : tlineOk l = true := formatted_conts_ok f hk h0 l (by rw [hc]; simp)
          have hr := (tline_facts l hl).rawNe
          cases hraw : rawLine l with
          | nil => exact absurd hraw hr
          | cons c cs => simp [Model.Debcon.joinNl, hraw]
    · exact absurd hne h.2.1
    · exact absurd hne h.2.1
  · have := joinNl_ne_nil' f.first (f.conts.map rawLine) hne
    cases hj : Model.Debcon.joinNl (f.first :: f.conts.map rawLine) with
    | nil => exact absurd hj this
    | cons _ _ => rfl


/-! ### which names are typed fields of which paragraph class -/

theorem mem_strs (l : Str) (L : List String) (h : L.contains (String.ofList l) = true) : l ∈ L.map String.toList := by
  have := List.contains_iff_mem.mp h
  exact List.mem_map.mpr ⟨_, this, String.toList_ofList⟩

/-- the (kind, name) pairs of the known fields a paragraph class admits in the grammar -/
def allowed : Kind → List (Nat × Str)
  | .header => [(0, "format".toList), (0, "upstream-name".toList), (1, "files-excluded".toList), (2, "copyright".toList),
      (3, "license".toList), (4, "source".toList), (4, "disclaimer".toList), (4, "comment".toList), (6, "upstream-contact".toList)]
  | .files => [(1, "files".toList), (2, "copyright".toList), (3, "license".toList), (4, "comment".toList)]
  | .license => [(3, "license".toList), (4, "comment".toList)]
  | .catchall => []

theorem allowed_table : ∀ K ∈ [Kind.header, Kind.files, Kind.license], ∀ ks ∈ allowed K,
    (typedFields K).lookup (replaceChar '-' '_' ks.2) = some (clsOf ks.1) ∧
    ((typedFields K).map (·.1)).contains (replaceChar '-' '_' ks.2) = true := by
  decide +kernel

theorem typed_nodup : ∀ K ∈ [Kind.header, Kind.files, Kind.license], ((typedFields K).map (·.1)).Nodup := by
  decide +kernel

theorem kind_mem (K : Kind) (h : K ≠ .catchall) : K ∈ [Kind.header, Kind.files, Kind.license] := by
  cases K <;> simp at h ⊢

def ClassP (K : Kind) (n : Str) (k : Nat) : Prop :=
  match K with
  | .header => n ≠ "files".toList
  | .files => n ∈ ["files".toList, "copyright".toList, "license".toList, "comment".toList] ∨ k = 5
  | .license => n ∈ ["license".toList, "comment".toList] ∨ k = 5
  | .catchall => False

/-- what the paragraph class demands of the name of each of its fields -/
theorem class_label (p : Dep5.Para) (K : Kind) (hp : paraOk p = true) (hK : paraKind p = some K) (f : Field) (hf : f ∈ p) :
    ClassP K (normLabel f.label) f.kind := by
  simp only [paraOk, Bool.and_eq_true, hK] at hp
  obtain ⟨_, hclass⟩ := hp
  cases K with
  | header =>
    show normLabel f.label ≠ "files".toList
    simp only [List.all_eq_true, Bool.not_eq_true'] at hclass
    have := hclass f hf
    intro e
    rw [e] at this
    revert this; decide
  | files =>
    show normLabel f.label ∈ ["files".toList, "copyright".toList, "license".toList, "comment".toList] ∨ f.kind = 5
    simp only [Bool.and_eq_true, List.all_eq_true, Bool.or_eq_true, beq_iff_eq] at hclass
    rcases hclass.2 f hf with h | h
    · left
      have := mem_strs _ _ h
      simpa using this
    · exact Or.inr h
  | license =>
    show normLabel f.label ∈ ["license".toList, "comment".toList] ∨ f.kind = 5
    simp only [List.all_eq_true, Bool.or_eq_true, beq_iff_eq] at hclass
    rcases hclass f hf with h | h
    · left
      have := mem_strs _ _ h
      simpa using this
    · exact Or.inr h
  | catchall => simp at hclass

/-- what the field kind demands of the name -/
theorem kind_label (f : Field) (h : fieldOk f = true) :
    (f.kind = 0 ∧ normLabel f.label ∈ ["format".toList, "upstream-name".toList]) ∨
    (f.kind = 1 ∧ normLabel f.label ∈ ["files".toList, "files-excluded".toList]) ∨
    (f.kind = 2 ∧ normLabel f.label = "copyright".toList) ∨
    (f.kind = 3 ∧ normLabel f.label = "license".toList) ∨
    (f.kind = 4 ∧ normLabel f.label ∈ ["source".toList, "disclaimer".toList, "comment".toList]) ∨
    f.kind = 5 ∨
    (f.kind = 6 ∧ normLabel f.label = "upstream-contact".toList) := by
  have hlab : labelOk f = true := by
    simp only [fieldOk, Bool.and_eq_true] at h; exact h.1.1.1
  simp only [labelOk, Bool.and_eq_true] at hlab
  obtain ⟨_, hm⟩ := hlab
  rcases kind_cases f h with hk | hk | hk | hk | hk | hk | hk
  all_goals (rw [hk] at hm; simp only [] at hm)
  · left; exact ⟨hk, by simpa using mem_strs _ _ hm⟩
  · right; left; exact ⟨hk, by simpa using mem_strs _ _ hm⟩
  · right; right; left; exact ⟨hk, by simpa using hm⟩
  · right; right; right; left; exact ⟨hk, by simpa using hm⟩
  · right; right; right; right; left; exact ⟨hk, by simpa using mem_strs _ _ hm⟩
  · right; right; right; right; right; left; exact hk
  · right; right; right; right; right; right; exact ⟨hk, by simpa using hm⟩

def candidates : List (Nat × Str) :=
  [(0, "format".toList), (0, "upstream-name".toList), (1, "files".toList), (1, "files-excluded".toList), (2, "copyright".toList),
   (3, "license".toList), (4, "source".toList), (4, "disclaimer".toList), (4, "comment".toList), (6, "upstream-contact".toList)]

def classOK (K : Kind) (kn : Nat × Str) : Bool :=
  match K with
  | .header => kn.2 != "files".toList
  | .files => ["files".toList, "copyright".toList, "license".toList, "comment".toList].contains kn.2 || kn.1 == 5
  | .license => ["license".toList, "comment".toList].contains kn.2 || kn.1 == 5
  | .catchall => false

theorem allowed_fin : ∀ K ∈ [Kind.header, Kind.files, Kind.license], ∀ kn ∈ candidates, classOK K kn = true → kn ∈ allowed K := by
  decide +kernel

theorem known_allowed (p : Dep5.Para) (K : Kind) (hp : paraOk p = true) (hK : paraKind p = some K) (f : Field) (hf : f ∈ p)
    (h5 : f.kind ≠ 5) : (f.kind, normLabel f.label) ∈ allowed K := by
  have hfo : fieldOk f = true := by
    simp only [paraOk, Bool.and_eq_true, List.all_eq_true] at hp
    exact hp.1.1.2 f hf
  have hc := class_label p K hp hK f hf
  have hKne : K ≠ .catchall := by
    intro e; subst e; exact hc
  have hcand : (f.kind, normLabel f.label) ∈ candidates := by
    rcases kind_label f hfo with ⟨hk, hl⟩ | ⟨hk, hl⟩ | ⟨hk, hl⟩ | ⟨hk, hl⟩ | ⟨hk, hl⟩ | hk | ⟨hk, hl⟩
    · rw [hk]; simp only [List.mem_cons, List.not_mem_nil, or_false] at hl
      rcases hl with e | e <;> rw [e] <;> decide
    · rw [hk]; simp only [List.mem_cons, List.not_mem_nil, or_false] at hl
      rcases hl with e | e <;> rw [e] <;> decide
    · rw [hk, hl]; decide
    · rw [hk, hl]; decide
    · rw [hk]; simp only [List.mem_cons, List.not_mem_nil, or_false] at hl
      rcases hl with e | e | e <;> rw [e] <;> decide
    · exact absurd hk h5
    · rw [hk, hl]; decide
  apply allowed_fin K (kind_mem K hKne) _ hcand
  cases K with
  | header =>
    have hc' : normLabel f.label ≠ "files".toList := hc
    simpa [classOK] using hc'
  | files =>
    have hc' : normLabel f.label ∈ ["files".toList, "copyright".toList, "license".toList, "comment".toList] ∨ f.kind = 5 := hc
    simp only [classOK, Bool.or_eq_true, beq_iff_eq]
    rcases hc' with h | h
    · exact Or.inl (List.contains_iff_mem.mpr h)
    · exact Or.inr h
  | license =>
    have hc' : normLabel f.label ∈ ["license".toList, "comment".toList] ∨ f.kind = 5 := hc
    simp only [classOK, Bool.or_eq_true, beq_iff_eq]
    rcases hc' with h | h
    · exact Or.inl (List.contains_iff_mem.mpr h)
    · exact Or.inr h
  | catchall => exact absurd rfl hKne


theorem replace_inverse (n : Str) (h : '_' ∉ n) : replaceChar '_' '-' (replaceChar '-' '_' n) = n := by
  induction n with
  | nil => rfl
  | cons c cs ih =>
    have hc : c ≠ '_' := fun e => h (by simp [e])
    have := ih (fun hm => h (by simp [hm]))
    simp only [replaceChar, List.map_cons, List.map_map] at this ⊢
    rw [this]
    by_cases e : c = '-'
    · subst e; simp
    · simp [e, hc]

/-- every typed-field name of every class, with its underscores as hyphens, is a name the grammar reserves -/
theorem names_reserved : ∀ K ∈ [Kind.header, Kind.files, Kind.license], ∀ nm ∈ (typedFields K).map (·.1),
    knownLabels.contains (String.ofList (replaceChar '_' '-' nm)) = true := by
  decide +kernel

/-- an unknown (extra) field is not a typed field of the paragraph's class -/
theorem extra_not_known (K : Kind) (hK : K ≠ .catchall) (f : Field) (hf : fieldOk f = true) (hk : f.kind = 5) :
    ((typedFields K).map (·.1)).contains (fieldKey f) = false := by
  cases hc : ((typedFields K).map (·.1)).contains (fieldKey f) with
  | false => rfl
  | true =>
    exfalso
    have hmem := List.contains_iff_mem.mp hc
    have hres := names_reserved K (kind_mem K hK) _ hmem
    have hlab : labelOk f = true := by
      simp only [fieldOk, Bool.and_eq_true] at hf; exact hf.1.1.1
    simp only [labelOk, hk, Bool.and_eq_true, Bool.not_eq_true'] at hlab
    obtain ⟨_, ⟨hnk, hnu⟩, _⟩ := hlab
    have hno : '_' ∉ normLabel f.label := by
      intro hm
      have := List.contains_iff_mem.mpr hm
      rw [hnu] at this; cases this
    unfold fieldKey at hres
    rw [replace_inverse _ hno, hnk] at hres
    cases hres


/-! ### distinct names -/

def ddk (acc : List Str) (ns : List Str) : List Str :=
  ns.foldl (fun acc n => if acc.contains n then acc else acc ++ [n]) acc

theorem ddk_length_le (ns acc : List Str) : (ddk acc ns).length ≤ acc.length + ns.length := by
  induction ns generalizing acc with
  | nil => simp [ddk]
  | cons n ns ih =>
    simp only [ddk, List.foldl_cons, List.length_cons]
    split
    · have := ih acc; simp only [ddk] at this; omega
    · have := ih (acc ++ [n]); simp only [ddk, List.length_append, List.length_singleton] at this; omega

theorem ddk_nodup (ns acc : List Str) (h : (ddk acc ns).length = acc.length + ns.length) :
    (∀ n ∈ ns, n ∉ acc) ∧ ns.Nodup := by
  induction ns generalizing acc with
  | nil => exact ⟨by simp, List.nodup_nil⟩
  | cons n ns ih =>
    simp only [ddk, List.foldl_cons, List.length_cons] at h
    have hnot : acc.contains n = false := by
      cases hc : acc.contains n with
      | false => rfl
      | true =>
        rw [hc] at h
        simp only [if_true] at h
        have := ddk_length_le ns acc
        simp only [ddk] at this
        omega
    rw [hnot] at h
    simp only [Bool.false_eq_true, if_false] at h
    obtain ⟨h1, h2⟩ := ih (acc ++ [n]) (by simp only [ddk, List.length_append, List.length_singleton]; omega)
    have hn : n ∉ acc := by
      intro hm; have := List.contains_iff_mem.mpr hm; rw [hnot] at this; cases this
    refine ⟨?_, ?_⟩
    · intro x hx
      rcases List.mem_cons.mp hx with rfl | hx
      · exact hn
      · intro hm; exact h1 x hx (List.mem_append_left _ hm)
    · rw [List.nodup_cons]
      refine ⟨?_, h2⟩
      intro hm
      exact h1 n hm (by simp)

theorem label_no_us (f : Field) (h : fieldOk f = true) : '_' ∉ normLabel f.label := by
  have hlab : labelOk f = true := by
    simp only [fieldOk, Bool.and_eq_true] at h; exact h.1.1.1
  simp only [labelOk, Bool.and_eq_true, List.all_eq_true, Bool.or_eq_true, beq_iff_eq] at hlab
  obtain ⟨⟨_, hch⟩, _⟩ := hlab
  intro hm
  unfold normLabel at hm
  simp only at hm
  split at hm
  · revert hm; decide
  · simp only [lowerAscii, List.mem_map] at hm
    obtain ⟨c, hc, e⟩ := hm
    rcases hch c hc with h1 | h1
    · -- an ASCII letter or digit does not lower-case to an underscore
      have hlt : c.toNat < 128 := by
        simp only [isAsciiAlnum, Char.isAlphanum, Char.isAlpha, Char.isUpper, Char.isLower, Char.isDigit, Bool.or_eq_true,
          Bool.and_eq_true, decide_eq_true_eq, UInt32.le_iff_toNat_le] at h1
        have e1 : c.toNat = c.val.toNat := rfl
        rcases h1 with (h | h) | h <;> simp at h <;> omega
      have tbl : ∀ n ∈ List.range 128, isAsciiAlnum (Char.ofNat n) = true → lowerAsciiChar (Char.ofNat n) ≠ '_' := by decide +kernel
      have := tbl c.toNat (by simpa using hlt)
      rw [Char.ofNat_toNat] at this
      exact this h1 e
    · subst h1; revert e; decide

theorem nodup_map_on {α β} (g : α → β) (l : List α) (h : l.Nodup) (hinj : ∀ a ∈ l, ∀ b ∈ l, g a = g b → a = b) :
    (l.map g).Nodup := by
  induction l with
  | nil => exact List.nodup_nil
  | cons x xs ih =>
    rw [List.nodup_cons] at h
    simp only [List.map_cons, List.nodup_cons]
    refine ⟨?_, ih h.2 (fun a ha b hb => hinj a (by simp [ha]) b (by simp [hb]))⟩
    intro hm
    obtain ⟨y, hy, e⟩ := List.mem_map.mp hm
    have := hinj y (by simp [hy]) x (by simp) e
    exact h.1 (this ▸ hy)

theorem keys_nodup (p : Dep5.Para) (hp : paraOk p = true) : (p.map fieldKey).Nodup := by
  simp only [paraOk, Bool.and_eq_true, List.all_eq_true] at hp
  obtain ⟨⟨⟨_, hfields⟩, hdist⟩, _⟩ := hp
  simp only [distinct, beq_iff_eq] at hdist
  have hn : (p.map fun f => normLabel f.label).Nodup := by
    have := ddk_nodup (p.map fun f => normLabel f.label) [] (by simp only [ddk, List.length_nil, Nat.zero_add]; exact hdist.symm)
    exact this.2
  -- the keys are the names with hyphens as underscores, an injective respelling of names without underscores
  have : p.map fieldKey = (p.map fun f => normLabel f.label).map (replaceChar '-' '_') := by
    simp [List.map_map, fieldKey, Function.comp]
  rw [this]
  apply nodup_map_on _ _ hn
  intro a ha b hb hab
  simp only [List.mem_map] at ha hb
  obtain ⟨fa, hfa, rfl⟩ := ha
  obtain ⟨fb, hfb, rfl⟩ := hb
  have h1 := replace_inverse _ (label_no_us fa (hfields fa hfa))
  have h2 := replace_inverse _ (label_no_us fb (hfields fb hfb))
  rw [← h1, ← h2, hab]


/-! ### one paragraph -/

theorem lookup_map_val {γ δ} (tf : List (Str × γ)) (h : Str → γ → δ) (k : Str) :
    (tf.map fun nc => (nc.1, h nc.1 nc.2)).lookup k = (tf.lookup k).map (h k) := by
  induction tf with
  | nil => rfl
  | cons a as ih =>
    obtain ⟨n, c⟩ := a
    simp only [List.map_cons, List.lookup]
    by_cases e : k = n
    · subst e; simp
    · have : (k == n) = false := by simpa using e
      simp only [this, ih]

theorem lookup_of_mem_nodup {α β} (l : List α) (key : α → Str) (val : α → β) (hnd : (l.map key).Nodup) (x : α) (hx : x ∈ l) :
    (l.map fun a => (key a, val a)).lookup (key x) = some (val x) := by
  induction l with
  | nil => cases hx
  | cons a as ih =>
    simp only [List.map_cons, List.nodup_cons] at hnd
    simp only [List.map_cons, List.lookup]
    rcases List.mem_cons.mp hx with rfl | hx
    · simp
    · have hne : key x ≠ key a := by
        intro e; exact hnd.1 (by rw [← e]; exact List.mem_map.mpr ⟨x, hx, rfl⟩)
      have : (key x == key a) = false := by simpa using hne
      simp only [this]
      exact ih hnd.2 hx

theorem lookup_none_of_not_mem {β} (l : List (Str × β)) (k : Str) (h : k ∉ l.map (·.1)) : l.lookup k = none := by
  induction l with
  | nil => rfl
  | cons a as ih =>
    obtain ⟨a1, a2⟩ := a
    simp only [List.map_cons, List.mem_cons, not_or] at h
    have hb : (k == a1) = false := by simpa using h.1
    simp [List.lookup, hb, ih h.2]

/-- the filter "is a typed field of the class" is the filter "is not an unknown field" on a paragraph of the grammar -/
theorem known_iff (p : Dep5.Para) (K : Kind) (hp : paraOk p = true) (hK : paraKind p = some K) (hKne : K ≠ .catchall)
    (f : Field) (hf : f ∈ p) : ((typedFields K).map (·.1)).contains (fieldKey f) = (f.kind != 5) := by
  have hfo : fieldOk f = true := by
    simp only [paraOk, Bool.and_eq_true, List.all_eq_true] at hp
    exact hp.1.1.2 f hf
  by_cases h5 : f.kind = 5
  · rw [extra_not_known K hKne f hfo h5, h5]; rfl
  · have := known_allowed p K hp hK f hf h5
    have ht := (allowed_table K (kind_mem K hKne) _ this).2
    simp only [] at ht
    have hk : (f.kind != 5) = true := by simpa using h5
    rw [hk]; exact ht

theorem filter_congr' {α} (l : List α) (p q : α → Bool) (h : ∀ x ∈ l, p x = q x) : l.filter p = l.filter q := by
  induction l with
  | nil => rfl
  | cons a as ih =>
    simp only [List.filter_cons, h a (by simp), ih (fun x hx => h x (by simp [hx]))]

/-- **one paragraph of the grammar**: `from_fields` of its tracked fields returns the paragraph of its class whose typed
fields and extra data are the document's -/
theorem para_typed (p : Dep5.Para) (K : Kind) (hp : paraOk p = true) (hK : paraKind p = some K)
    (g : List Fld) (hall : All2 SpellsF p g) :
    ∃ q, fromFields K g = .ok q ∧ q.kind = K ∧
      q.fields = (typedFields K).map (fun nc => (nc.1, fromValue nc.2
        (((p.filter (·.kind != 5)).map fun f => (fieldKey f, lstrip (rawVal f))).lookup nc.1))) ∧
      q.extra = (p.filter (·.kind == 5)).map (fun f => (fieldKey f, XV.s (expectedExtra f))) := by
  have hKne : K ≠ .catchall := by
    intro e; subst e
    simp only [paraOk, Bool.and_eq_true, hK] at hp
    exact absurd hp.2 (by simp)
  have hfields : ∀ f ∈ p, fieldOk f = true := by
    simp only [paraOk, Bool.and_eq_true, List.all_eq_true] at hp
    exact hp.1.1.2
  obtain ⟨a', ha, hknown, hextra⟩ := addFields_para ((typedFields K).map (·.1)) p g hall ⟨[], [], [], [], 1⟩
    (by simp) (by simp) (fun f hf => rawVal_ne f (hfields f hf)) (by simp) (keys_nodup p hp)
  refine ⟨{ kind := K, fields := (typedFields K).map fun nc => (nc.1, fromValue nc.2 (a'.known.lookup nc.1)),
             extra := a'.extra, lines := a'.lines }, ?_, rfl, ?_, ?_⟩
  · unfold fromFields
    simp only [hKne, if_false, ha]
  · simp only [hknown, List.nil_append]
    rw [filter_congr' p _ (fun f => f.kind != 5) (fun f hf => known_iff p K hp hK hKne f hf)]
  · simp only [hextra, List.nil_append]
    rw [filter_congr' p _ (fun f => f.kind == 5) (fun f hf => by
      rw [known_iff p K hp hK hKne f hf]; cases hk : (f.kind == 5) <;> simp_all)]
    apply List.map_congr_left
    intro f hf
    have hf' := List.mem_filter.mp hf
    have hk : f.kind = 5 := by simpa using hf'.2
    rw [← extra_typed f hk (hfields f hf'.1)]
    rfl


theorem lookup_mem_nodup {β} (l : List (Str × β)) (hnd : (l.map (·.1)).Nodup) (kv : Str × β) (h : kv ∈ l) :
    l.lookup kv.1 = some kv.2 := by
  have := lookup_of_mem_nodup l (·.1) (·.2) hnd kv h
  simpa using this

/-- the observation of such a paragraph satisfies the paragraph clause of the property -/
theorem para_matches (p : Dep5.Para) (K : Kind) (hp : paraOk p = true) (hK : paraKind p = some K) :
    paraMatches p ⟨K,
      (typedFields K).map (fun nc => (nc.1, fromValue nc.2
        (((p.filter (·.kind != 5)).map fun f => (fieldKey f, lstrip (rawVal f))).lookup nc.1))),
      (p.filter (·.kind == 5)).map (fun f => (fieldKey f, XV.s (expectedExtra f)))⟩ = true := by
  have hKne : K ≠ .catchall := by
    intro e; subst e
    simp only [paraOk, Bool.and_eq_true, hK] at hp
    exact absurd hp.2 (by simp)
  have hfields : ∀ f ∈ p, fieldOk f = true := by
    simp only [paraOk, Bool.and_eq_true, List.all_eq_true] at hp
    exact hp.1.1.2
  have hnd := keys_nodup p hp
  have hndK : ((p.filter (·.kind != 5)).map fieldKey).Nodup :=
    List.Nodup.sublist (List.Sublist.map _ List.filter_sublist) hnd
  have htfnd := typed_nodup K (kind_mem K hKne)
  unfold paraMatches
  simp only [Bool.and_eq_true, List.all_eq_true, beq_iff_eq]
  refine ⟨⟨⟨by rw [hK], ?_⟩, ?_⟩, trivial⟩
  · -- every known field has its typed value
    intro f hf
    have hf' := List.mem_filter.mp hf
    have h5 : f.kind ≠ 5 := by simpa using hf'.2
    have hal := known_allowed p K hp hK f hf'.1 h5
    have ht := (allowed_table K (kind_mem K hKne) _ hal).1
    simp only [] at ht
    rw [lookup_map_val (typedFields K) (fun n c => fromValue c
      (((p.filter (·.kind != 5)).map fun f => (fieldKey f, lstrip (rawVal f))).lookup n))]
    have hkey : fieldKey f = replaceChar '-' '_' (normLabel f.label) := rfl
    rw [hkey, ht]
    simp only [Option.map_some]
    rw [← hkey, lookup_of_mem_nodup _ fieldKey (fun f => lstrip (rawVal f)) hndK f hf]
    rw [typed_value f (hfields f hf'.1) h5]
  · -- every typed field is one of the document's, or holds the value of an absent field
    intro nf hnf
    simp only [List.mem_map] at hnf
    obtain ⟨nc, hnc, rfl⟩ := hnf
    simp only [Bool.or_eq_true, List.any_eq_true, Bool.and_eq_true, beq_iff_eq]
    have hlk : (typedFields K).lookup nc.1 = some nc.2 := lookup_mem_nodup _ htfnd nc hnc
    cases hkn : ((p.filter (·.kind != 5)).map fun f => (fieldKey f, lstrip (rawVal f))).lookup nc.1 with
    | none =>
      right
      rw [hlk]; rfl
    | some v =>
      left
      have hm := lookup_some_mem' _ _ _ hkn
      simp only [List.map_map, List.mem_map, Function.comp] at hm
      obtain ⟨f, hf, hkey⟩ := hm
      have hf' := List.mem_filter.mp hf
      exact ⟨f, hf'.1, hf'.2, hkey⟩


/-! ### the two recovery rewrites leave a document without catch-all paragraphs alone -/

open Props.C07 in
theorem groupByKind_flatten (ps : List Model.Copyright.Para) : (groupByKind ps).flatten = ps ∧ ∀ g ∈ groupByKind ps, g ≠ [] := by
  induction ps with
  | nil => simp [groupByKind]
  | cons p ps ih =>
    obtain ⟨ih1, ih2⟩ := ih
    unfold groupByKind
    split
    · rename_i q g rest heq
      rw [heq] at ih1 ih2
      split
      · refine ⟨?_, ?_⟩
        · simp only [List.flatten_cons] at ih1 ⊢
          rw [← ih1]; simp
        · intro x hx
          simp only [List.mem_cons] at hx
          rcases hx with rfl | hx
          · simp
          · exact ih2 x (by simp [hx])
      · refine ⟨?_, ?_⟩
        · simp only [List.flatten_cons] at ih1 ⊢
          rw [← ih1]; simp
        · intro x hx
          simp only [List.mem_cons] at hx
          rcases hx with rfl | rfl | hx
          · simp
          · simp
          · exact ih2 x (by simp [hx])
    · rename_i hno
      -- no groups at all: the tail is empty
      have : groupByKind ps = [] := by
        cases hg : groupByKind ps with
        | nil => rfl
        | cons g0 rest =>
          cases g0 with
          | nil => exact absurd rfl (ih2 [] (by rw [hg]; simp))
          | cons q g => exact absurd hg (hno q g rest)
      rw [this] at ih1
      simp only [List.flatten_nil] at ih1
      subst ih1
      exact ⟨by simp, by intro x hx; simp at hx; simp [hx]⟩

open Props.C07 in
theorem foldl_mstep_id (gs : List (List Model.Copyright.Para)) (out : List Model.Copyright.Para) (h : ∀ g ∈ gs, ∀ q ∈ g, q.kind ≠ Kind.catchall) :
    gs.foldl mstep (.ok out) = .ok (out ++ gs.flatten) := by
  induction gs generalizing out with
  | nil => simp
  | cons g gs ih =>
    simp only [List.foldl_cons, List.flatten_cons]
    have hstep : mstep (.ok out) g = .ok (out ++ g) := by
      unfold mstep
      cases g with
      | nil => simp
      | cons p rest =>
        have := h (p :: rest) (by simp) p (by simp)
        simp [this]
    rw [hstep, ih (out ++ g) (fun g' hg' => h g' (by simp [hg']))]
    simp [List.append_assoc]

open Props.C07 in
theorem mergeUnknown_id (ps : List Model.Copyright.Para) (h : ∀ q ∈ ps, q.kind ≠ Kind.catchall) : mergeUnknown ps = .ok ps := by
  rw [mergeUnknown_eq, foldl_mstep_id _ [] (by
    intro g hg q hq
    exact h q ((groupByKind_props ps g hg).1 q hq))]
  simp [(groupByKind_flatten ps).1]

open Props.C07 in
theorem foldLoop_id (ps : List Model.Copyright.Para) (h : ∀ q ∈ ps, q.kind ≠ Kind.catchall) : foldLoop ps false = .ok (ps.dropLast, false) := by
  induction ps with
  | nil => rfl
  | cons p1 rest ih =>
    cases rest with
    | nil => rfl
    | cons p2 rest2 =>
      rw [foldLoop_unfold]
      have hc : foldCond p1 p2 = false := by
        unfold foldCond
        have := h p2 (by simp)
        simp [this]
      simp only [Bool.false_eq_true, if_false, hc]
      rw [ih (fun q hq => h q (by simp [hq]))]
      simp

theorem foldLicense_id (ps : List Model.Copyright.Para) (h : ∀ q ∈ ps, q.kind ≠ Kind.catchall) : foldLicense ps = .ok ps := by
  unfold foldLicense
  by_cases hl : ps.length ≤ 2
  · simp [hl]
  · simp only [hl, if_false, foldLoop_id ps h, Bool.false_eq_true]
    have hne : ps ≠ [] := by intro e; rw [e] at hl; simp at hl
    cases hlast : ps.getLast? with
    | none => rw [List.getLast?_eq_none_iff] at hlast; exact absurd hlast hne
    | some last =>
      simp only
      have := dropLast_append_lastD ps last hne
      rw [hlast] at this
      simp only [Option.getD_some] at this
      rw [this]


/-! ### classification, validity, the whole document -/

theorem All2.names {p : Dep5.Para} {g : List Fld} (h : All2 SpellsF p g) : g.map (·.name) = p.map fun f => normLabel f.label := by
  induction h with
  | nil => rfl
  | cons hs _ ih => simp only [List.map_cons, ih, hs.1]

theorem hasLabel_eq (p : Dep5.Para) (s : String) : hasLabel p s = (p.map fun f => normLabel f.label).contains s.toList := by
  unfold hasLabel
  induction p with
  | nil => rfl
  | cons f fs ih =>
    simp only [List.any_cons, List.map_cons, List.contains_cons, ih]
    congr 1
    cases h : (normLabel f.label == s.toList) <;> cases h2 : (s.toList == normLabel f.label) <;> simp_all

theorem no_format_spec (p : Dep5.Para) (hp : paraOk p = true) :
    (p.map fun f => normLabel f.label).contains "format-specification".toList = false := by
  have hfields : ∀ f ∈ p, fieldOk f = true := by
    simp only [paraOk, Bool.and_eq_true, List.all_eq_true] at hp
    exact hp.1.1.2
  cases hc : (p.map fun f => normLabel f.label).contains "format-specification".toList with
  | false => rfl
  | true =>
    exfalso
    have := List.contains_iff_mem.mp hc
    obtain ⟨f, hf, e⟩ := List.mem_map.mp this
    rcases kind_label f (hfields f hf) with ⟨_, hl⟩ | ⟨_, hl⟩ | ⟨_, hl⟩ | ⟨_, hl⟩ | ⟨_, hl⟩ | hk | ⟨_, hl⟩
    all_goals (try (rw [e] at hl; revert hl; decide))
    have hlab : labelOk f = true := by
      have := hfields f hf
      simp only [fieldOk, Bool.and_eq_true] at this; exact this.1.1.1
    simp only [labelOk, hk, Bool.and_eq_true, Bool.not_eq_true'] at hlab
    obtain ⟨_, ⟨hnk, _⟩, _⟩ := hlab
    rw [e] at hnk
    revert hnk; decide

theorem classify_eq (p : Dep5.Para) (K : Kind) (hp : paraOk p = true) (hK : paraKind p = some K) (g : List Fld)
    (hall : All2 SpellsF p g) : classify g = K := by
  unfold classify
  simp only [hall.names, no_format_spec p hp, Bool.or_false]
  unfold paraKind at hK
  simp only [hasLabel_eq] at hK
  by_cases h1 : (p.map fun f => normLabel f.label).contains "format".toList = true
  · simp only [h1, if_true] at hK ⊢; cases hK; rfl
  · simp only [h1, if_false] at hK ⊢
    by_cases h2 : (p.map fun f => normLabel f.label).contains "files".toList = true
    · simp only [h2, if_true] at hK ⊢; cases hK; rfl
    · simp only [h2, if_false] at hK ⊢
      by_cases h3 : (p.map fun f => normLabel f.label).contains "license".toList = true
      · simp only [h3, if_true] at hK ⊢; cases hK; rfl
      · simp only [h3, if_false] at hK; cases hK

/-- what `from_fields` makes of one paragraph of the grammar -/
def paraOf (p : Dep5.Para) (K : Kind) : PObs :=
  ⟨K, (typedFields K).map (fun nc => (nc.1, fromValue nc.2
        (((p.filter (·.kind != 5)).map fun f => (fieldKey f, lstrip (rawVal f))).lookup nc.1))),
      (p.filter (·.kind == 5)).map (fun f => (fieldKey f, XV.s (expectedExtra f)))⟩

theorem field_lookup (p : Dep5.Para) (K : Kind) (hp : paraOk p = true) (hK : paraKind p = some K) (f : Field) (hf : f ∈ p)
    (h5 : f.kind ≠ 5) : (paraOf p K).fields.lookup (fieldKey f) = some (expectedFV f) := by
  have := para_matches p K hp hK
  unfold paraMatches at this
  simp only [Bool.and_eq_true, List.all_eq_true, beq_iff_eq] at this
  have hmem : f ∈ p.filter (·.kind != 5) := List.mem_filter.mpr ⟨hf, by simpa using h5⟩
  exact this.1.1.2 f hmem


theorem cand_of (f : Field) (hfo : fieldOk f = true) : f.kind = 5 ∨ (f.kind, normLabel f.label) ∈ candidates := by
  rcases kind_label f hfo with ⟨hk, hl⟩ | ⟨hk, hl⟩ | ⟨hk, hl⟩ | ⟨hk, hl⟩ | ⟨hk, hl⟩ | hk | ⟨hk, hl⟩
  · right; rw [hk]; simp only [List.mem_cons, List.not_mem_nil, or_false] at hl
    rcases hl with e | e <;> rw [e] <;> decide
  · right; rw [hk]; simp only [List.mem_cons, List.not_mem_nil, or_false] at hl
    rcases hl with e | e <;> rw [e] <;> decide
  · right; rw [hk, hl]; decide
  · right; rw [hk, hl]; decide
  · right; rw [hk]; simp only [List.mem_cons, List.not_mem_nil, or_false] at hl
    rcases hl with e | e | e <;> rw [e] <;> decide
  · exact Or.inl hk
  · right; rw [hk, hl]; decide

theorem kind5_free (f : Field) (hfo : fieldOk f = true) (hk : f.kind = 5) :
    knownLabels.contains (String.ofList (normLabel f.label)) = false := by
  have hlab : labelOk f = true := by
    simp only [fieldOk, Bool.and_eq_true] at hfo; exact hfo.1.1.1
  simp only [labelOk, hk, Bool.and_eq_true, Bool.not_eq_true'] at hlab
  exact hlab.2.1.1

theorem cand_kinds : ∀ kn ∈ candidates,
    (kn.2 = "files".toList → kn.1 = 1) ∧ (kn.2 = "copyright".toList → kn.1 = 2) ∧ (kn.2 = "license".toList → kn.1 = 3) := by
  decide +kernel

theorem has_field (p : Dep5.Para) (s : String) (h : hasLabel p s = true) : ∃ f ∈ p, normLabel f.label = s.toList := by
  simp only [hasLabel, List.any_eq_true, beq_iff_eq] at h
  exact h

theorem key_of_label (f : Field) (s : Str) (h : normLabel f.label = s) : fieldKey f = replaceChar '-' '_' s := by
  unfold fieldKey; rw [h]

/-- a files paragraph of the grammar is valid: it has patterns, statements and a license name -/
theorem files_valid (p : Dep5.Para) (hp : paraOk p = true) (hK : paraKind p = some .files) (q : Model.Copyright.Para)
    (hq : q.kind = .files) (hqf : q.fields = (paraOf p .files).fields) : paraIsValid q false = true := by
  have hfields : ∀ f ∈ p, fieldOk f = true := by
    simp only [paraOk, Bool.and_eq_true, List.all_eq_true] at hp
    exact hp.1.1.2
  have hlabels : hasLabel p "files" = true ∧ hasLabel p "copyright" = true ∧ hasLabel p "license" = true := by
    have hp' := hp
    simp only [paraOk, Bool.and_eq_true, hK] at hp'
    refine ⟨?_, hp'.2.1.1, hp'.2.1.2⟩
    unfold paraKind at hK
    by_cases h1 : hasLabel p "format" = true
    · simp [h1] at hK
    · simp only [h1, if_false] at hK
      by_cases h2 : hasLabel p "files" = true
      · exact h2
      · simp only [h2, if_false] at hK
        by_cases h3 : hasLabel p "license" = true
        · simp [h3] at hK
        · simp [h3] at hK
  obtain ⟨ff, hff, hfl⟩ := has_field p "files" hlabels.1
  obtain ⟨fc, hfc, hcl⟩ := has_field p "copyright" hlabels.2.1
  obtain ⟨fl, hfll, hll⟩ := has_field p "license" hlabels.2.2
  -- their kinds
  have kf : ff.kind = 1 := by
    rcases cand_of ff (hfields ff hff) with hk | hc
    · have := kind5_free ff (hfields ff hff) hk
      rw [hfl] at this; exact absurd this (by decide)
    · exact (cand_kinds _ hc).1 hfl
  have kc : fc.kind = 2 := by
    rcases cand_of fc (hfields fc hfc) with hk | hc
    · have := kind5_free fc (hfields fc hfc) hk
      rw [hcl] at this; exact absurd this (by decide)
    · exact (cand_kinds _ hc).2.1 hcl
  have kl : fl.kind = 3 := by
    rcases cand_of fl (hfields fl hfll) with hk | hc
    · have := kind5_free fl (hfields fl hfll) hk
      rw [hll] at this; exact absurd this (by decide)
    · exact (cand_kinds _ hc).2.2 hll
  have lf := field_lookup p .files hp hK ff hff (by omega)
  have lc := field_lookup p .files hp hK fc hfc (by omega)
  have ll := field_lookup p .files hp hK fl hfll (by omega)
  rw [key_of_label ff _ hfl] at lf
  rw [key_of_label fc _ hcl] at lc
  rw [key_of_label fl _ hll] at ll
  have e1 : replaceChar '-' '_' "files".toList = "files".toList := by decide
  have e2 : replaceChar '-' '_' "copyright".toList = "copyright".toList := by decide
  have e3 : replaceChar '-' '_' "license".toList = "license".toList := by decide
  rw [e1] at lf; rw [e2] at lc; rw [e3] at ll
  unfold paraIsValid
  simp only [hq, wsValues, statementsOf, licenseOf, getField, hqf, lf, lc, ll, expectedFV, kf, kc, kl, Bool.not_false,
    Bool.true_or, Bool.and_true]
  have hne1 : (splitChar ' ' ff.first ++ ff.conts.flatMap fun l => splitChar ' ' (itemText l)).isEmpty = false := by
    cases hs : splitChar ' ' ff.first with
    | nil => exact absurd hs (Py.splitChar_ne_nil ' ' ff.first)
    | cons a as => rfl
  have hne3 : fl.first.isEmpty = false := by
    have := hfields fl hfll
    simp only [fieldOk, kl, Bool.and_eq_true, Bool.not_eq_true'] at this
    exact this.2.1
  simp [hne1, hne3]


theorem paraKind_some (p : Dep5.Para) (hp : paraOk p = true) : ∃ K, paraKind p = some K ∧ K ≠ Kind.catchall := by
  cases hK : paraKind p with
  | none =>
    simp only [paraOk, Bool.and_eq_true, hK] at hp
    exact absurd hp.2 (by simp)
  | some K =>
    refine ⟨K, rfl, ?_⟩
    intro e; subst e
    simp only [paraOk, Bool.and_eq_true, hK] at hp
    exact absurd hp.2 (by simp)

/-- a paragraph of the copyright object spells a paragraph of the document -/
def SpellsP (p : Dep5.Para) (q : Model.Copyright.Para) : Prop :=
  paraOk p = true ∧ ∃ K, paraKind p = some K ∧ K ≠ Kind.catchall ∧ q.kind = K ∧ q.fields = (paraOf p K).fields ∧ q.extra = (paraOf p K).extra

theorem mapExcept_groups (paras : List Dep5.Para) (hp : ∀ p ∈ paras, paraOk p = true) (gs : List (List Fld))
    (h : All2 (fun p g => All2 SpellsF p g) paras gs) :
    ∃ ps, Model.Copyright.mapExcept (fun g => fromFields (classify g) g) gs = .ok ps ∧ All2 SpellsP paras ps := by
  induction h with
  | nil => exact ⟨[], rfl, All2.nil⟩
  | @cons p g ps0 gs0 hpg _ ih =>
    obtain ⟨K, hK, hKne⟩ := paraKind_some p (hp p (by simp))
    obtain ⟨q, hq, hqk, hqf, hqe⟩ := para_typed p K (hp p (by simp)) hK g hpg
    obtain ⟨qs, hqs, hall⟩ := ih (fun p' hp' => hp p' (by simp [hp']))
    refine ⟨q :: qs, ?_, All2.cons ⟨hp p (by simp), K, hK, hKne, hqk, hqf, hqe⟩ hall⟩
    simp only [Model.Copyright.mapExcept, classify_eq p K (hp p (by simp)) hK g hpg, hq, hqs]

theorem All2.length_eq {α β} {R : α → β → Prop} {as : List α} {bs : List β} (h : All2 R as bs) : bs.length = as.length := by
  induction h with
  | nil => rfl
  | cons _ _ ih => simp [ih]

theorem All2.zip_all {α β γ} {R : α → β → Prop} {as : List α} {bs : List β} (h : All2 R as bs) (F : β → γ)
    (pr : α × γ → Bool) (hp : ∀ a b, R a b → pr (a, F b) = true) : (as.zip (bs.map F)).all pr = true := by
  induction h with
  | nil => rfl
  | cons hr _ ih => simp only [List.map_cons, List.zip_cons_cons, List.all_cons, hp _ _ hr, ih, Bool.and_self]

theorem spellsP_kinds {paras : List Dep5.Para} {ps : List Model.Copyright.Para} (h : All2 SpellsP paras ps) :
    (∀ q ∈ ps, q.kind ≠ Kind.catchall) ∧
    (ps.filter (·.kind = Kind.files)).isEmpty = !(paras.any fun p => paraKind p == some Kind.files) ∧
    (∀ q ∈ ps.filter (·.kind = Kind.files), paraIsValid q false = true) := by
  induction h with
  | nil => exact ⟨by simp, rfl, by simp⟩
  | @cons p q ps0 qs0 hpq _ ih =>
    obtain ⟨hpo, K, hK, hKne, hqk, hqf, hqe⟩ := hpq
    obtain ⟨ih1, ih2, ih3⟩ := ih
    refine ⟨?_, ?_, ?_⟩
    · intro x hx
      rcases List.mem_cons.mp hx with rfl | hx
      · rw [hqk]; exact hKne
      · exact ih1 x hx
    · simp only [List.filter_cons, List.any_cons, hK]
      by_cases hf : K = Kind.files
      · subst hf
        simp [hqk]
      · have h1 : ¬ q.kind = Kind.files := by rw [hqk]; exact hf
        have h2 : (some K == some Kind.files) = false := by simpa using hf
        simp only [h1, decide_false, Bool.false_eq_true, if_false, ih2, h2, Bool.false_or]
    · intro x hx
      simp only [List.filter_cons] at hx
      by_cases hf : q.kind = Kind.files
      · simp only [hf, decide_true, if_true, List.mem_cons] at hx
        rcases hx with rfl | hx
        · have hKf : K = Kind.files := by rw [← hqk]; exact hf
          subst hKf
          exact files_valid p hpo hK x hf hqf
        · exact ih3 x (by simpa using hx)
      · simp only [hf, decide_false, Bool.false_eq_true, if_false] at hx
        exact ih3 x hx

theorem head_kind {paras : List Dep5.Para} {ps : List Model.Copyright.Para} (h : All2 SpellsP paras ps)
    (first : Model.Copyright.Para) (rest : List Model.Copyright.Para) (hps : ps = first :: rest)
    (hhead : (match paras.head? with | some p => paraKind p == some Kind.header | none => false) = true) :
    first.kind = Kind.header := by
  cases h with
  | nil => cases hps
  | @cons p q ps0 qs0 hpq _ =>
    cases hps
    obtain ⟨_, K, hK, _, hqk, _, _⟩ := hpq
    simp only [List.head?_cons, hK, beq_iff_eq] at hhead
    rw [hqk]; exact (Option.some.inj hhead)

/-- the observation the check makes of a result of `from_fields_groups` -/
def obsOf (r : Except PyExc (List Model.Copyright.Para)) : Props.C09.Obs :=
  match r with
  | .error e => .error e
  | .ok ps => .ok { paras := ps.map fun p => ⟨p.kind, p.fields, p.extra⟩, valid := docIsValid ps false }

/-- **C09 from the tracked fields on**: for every well-formed DEP-5 document and any field groups that spell its
paragraphs (names, first-line values, continuation lines), the copyright object has one paragraph per document
paragraph, of the document's class, with exactly the document's typed fields and extra data; it is valid exactly
when the document has a files paragraph -/
theorem sound_from_groups (d : Doc) (gs : List (List Fld)) (hgs : All2 (fun p g => All2 SpellsF p g) d.paras gs) :
    holdsOn d (obsOf (fromFieldsGroups gs)) = true := by
  unfold holdsOn
  cases hw : wf d with
  | false => rfl
  | true =>
    simp only [Bool.not_true, Bool.false_or]
    have hw' := hw
    simp only [wf, Bool.and_eq_true, List.all_eq_true] at hw'
    obtain ⟨⟨⟨⟨⟨⟨hne, hparas⟩, hhead⟩, _⟩, _⟩, _⟩, _⟩ := hw'
    obtain ⟨ps, hps, hall⟩ := mapExcept_groups d.paras hparas gs hgs
    obtain ⟨hk1, hk2, hk3⟩ := spellsP_kinds hall
    have hres : fromFieldsGroups gs = .ok ps := by
      unfold fromFieldsGroups
      simp only [hps, mergeUnknown_id ps hk1, foldLicense_id ps hk1]
    rw [hres]
    simp only [obsOf, Bool.and_eq_true, beq_iff_eq, List.length_map]
    refine ⟨⟨hall.length_eq, ?_⟩, ?_⟩
    · apply hall.zip_all
      intro p q hpq
      obtain ⟨hpo, K, hK, hKne, hqk, hqf, hqe⟩ := hpq
      have := para_matches p K hpo hK
      simp only [paraOf] at hqf hqe
      rw [hqk, hqf, hqe]
      exact this
    · -- validity: a header is always there, so the object is valid exactly when it has a files paragraph
      cases hps0 : ps with
      | nil =>
        have := hall.length_eq
        rw [hps0] at this
        have hd : d.paras = [] := List.length_eq_zero_iff.mp this.symm
        rw [hd] at hne; simp at hne
      | cons first rest =>
        rw [← hps0]
        -- the first paragraph is the header
        have hfirst : first.kind = Kind.header := head_kind hall first rest hps0 hhead
        have hhdr : (ps.filter (·.kind = Kind.header)).isEmpty = false := by
          rw [hps0]; simp [List.filter_cons, hfirst]
        have hvalidAll : (ps.filter (·.kind = Kind.files)).all (paraIsValid · false) = true := by
          rw [List.all_eq_true]; exact hk3
        unfold docIsValid
        rw [hps0]
        simp only
        rw [← hps0]
        simp only [hhdr, hvalidAll, hk2, Bool.not_false, Bool.not_true, Bool.true_or, Bool.true_and, Bool.and_true,
          Bool.false_eq_true, if_false, Bool.not_not]
        cases (d.paras.any fun p => paraKind p == some Kind.files) <;> simp

end Props.C09G
