/-
C11 — the multiset comparison of the specification is exact.
-/
import DebInspector.Props.C11

namespace Props.C11
open Py Spec.Words

theorem removeAll_nil_iff (a : List Str) : ∀ b, removeAll a b = some [] ↔ a.Perm b := by
  induction a with
  | nil =>
    intro b
    simp only [removeAll, Option.some.injEq]
    constructor
    · intro h; subst h; exact List.Perm.refl _
    · intro h; exact (List.nil_perm.mp h)
  | cons x xs ih =>
    intro b
    simp only [removeAll]
    by_cases hx : x ∈ b
    · simp only [List.contains_iff_mem, hx, if_true]
      rw [ih]
      constructor
      · intro h
        exact (List.Perm.cons x h).trans (List.perm_cons_erase hx).symm
      · intro h
        have := (h.trans (List.perm_cons_erase hx))
        exact (List.Perm.cons_inv this)
    · simp only [List.contains_iff_mem, hx, if_false]
      constructor
      · intro h; cases h
      · intro h; exact absurd (h.subset (by simp)) hx

/-- **`sameMultiset a b` holds exactly when `a` is a permutation of `b`**: no lost word, no invented
word, every word equally often -/
theorem removeAll_perm (a b : List Str) : sameMultiset a b = true ↔ a.Perm b := by
  unfold sameMultiset
  rw [← removeAll_nil_iff]
  simp

theorem sameMultiset_refl (a : List Str) : sameMultiset a a = true :=
  (removeAll_perm a a).mpr (List.Perm.refl _)

/-- non-vacuity: renaming + merging + folding in one text -/
example : (let t := "License: a\nLicense: b\n\njunk x\n\njunk y .\n\nLicense:\n\nfree text\n\nmore\n".toList
    holdsOn t (model t)) = true := by
  decide +kernel

end Props.C11
