/-
C19 — the render / read-back clause: for every paragraph of uniquely named fields (policy-legal names — printable ASCII
without colon or space, not starting with `#` or `-` — in any case; values without carriage returns, trimmed, later lines indented), the model of
`Debian822(Debian822(pairs).dumps()).to_dict()` is the paragraph itself under lower-cased names.

The rendering is a one-paragraph well-formed document of C06's grammar, so the header-parser theorem of C06
(`getParagraphData_para`) applies to it; what is proved here is that `dumps` produces such a document, that the
conventional capitalisation of a name lower-cases back to the name, and that the text is not taken for a signed message.
-/
import DebInspector.Props.C19
import DebInspector.Thm.C19
import DebInspector.Thm.C06H
import DebInspector.Proofs.SplitJoin
import DebInspector.Proofs.StrLemmas

namespace Props.C19R
open Py Model.Control Props.C19 Props.C06H Proofs.LinesAscii

/-! ### characters of names -/

def P (c : Char) : Bool := 0x21 ≤ c.toNat && c.toNat ≤ 0x7e && c != ':'

theorem P_table : ∀ n ∈ List.range 128, P (lowerAsciiChar (Char.ofNat n)) = P (Char.ofNat n) := by decide +kernel

theorem P_range : ∀ n ∈ List.range 128, P (Char.ofNat n) = true → inRange (Char.ofNat n) = true ∧ Char.ofNat n ≠ ':' ∧
    isSpace (Char.ofNat n) = false := by
  decide +kernel

theorem P_ascii {c : Char} (h : P c = true) : c.toNat < 128 := by
  simp only [P, Bool.and_eq_true, decide_eq_true_eq] at h
  omega

theorem P_facts {c : Char} (h : P c = true) : inRange c = true ∧ c ≠ ':' ∧ isSpace c = false := by
  have hlt := P_ascii h
  have := P_range c.toNat (by simpa using hlt) (by rw [Char.ofNat_toNat]; exact h)
  rw [Char.ofNat_toNat] at this
  exact this

theorem lowerAsciiChar_nonascii {c : Char} (h : ¬ c.toNat < 128) : lowerAsciiChar c = c := by
  unfold lowerAsciiChar
  split
  · rename_i hu
    have := (Props.C19.upper_iff c).mp hu
    omega
  · rfl

theorem P_lower (c : Char) : P (lowerAsciiChar c) = P c := by
  by_cases h : c.toNat < 128
  · have := P_table c.toNat (by simpa using h)
    rw [Char.ofNat_toNat] at this
    exact this
  · rw [lowerAsciiChar_nonascii h]

theorem P_of_lower_eq (a b : Str) (h : lowerAscii a = lowerAscii b) (hb : ∀ c ∈ b, P c = true) : ∀ c ∈ a, P c = true := by
  induction a generalizing b with
  | nil => intro c hc; cases hc
  | cons x xs ih =>
    cases b with
    | nil => simp [lowerAscii] at h
    | cons y ys =>
      simp only [lowerAscii, List.map_cons, List.cons.injEq] at h
      intro c hc
      rcases List.mem_cons.mp hc with rfl | hc
      · rw [← P_lower, h.1, P_lower]; exact hb y (by simp)
      · exact ih ys h.2 (fun c hc => hb c (by simp [hc])) c hc

/-! ### the conventional capitalisation lower-cases back -/

theorem map_join (f : Char → Char) (sep : Str) (ws : List Str) :
    (join sep ws).map f = join (sep.map f) (ws.map (·.map f)) := by
  induction ws with
  | nil => rfl
  | cons w rest ih =>
    cases rest with
    | nil => rfl
    | cons v vs =>
      simp only [join, List.map_append, List.map_cons] at ih ⊢
      rw [ih]

theorem lowerAscii_conventional (n : Str) : lowerAscii (conventional n) = lowerAscii n := by
  rw [conventional_eq]
  unfold lowerAscii
  rw [map_join, List.map_map]
  have h1 : ((splitChar '-' n).map ((·.map lowerAsciiChar) ∘ convWord)) = (splitChar '-' n).map (·.map lowerAsciiChar) := by
    apply List.map_congr_left
    intro w _
    exact lowerAscii_convWord w
  rw [h1]
  have h2 := map_join lowerAsciiChar ['-'] (splitChar '-' n)
  have h3 : (['-'] : Str).map lowerAsciiChar = ['-'] := by decide
  rw [h3] at h2 ⊢
  rw [← h2, Py.join_splitChar]

/-! ### joining lines -/

theorem joinNl_eq_join (ls : List Str) : Props.C06.joinNl ls = join ['\n'] ls := by
  induction ls with
  | nil => rfl
  | cons l rest ih =>
    cases rest with
    | nil => rfl
    | cons m ms => simp only [Props.C06.joinNl, join, ih, List.append_assoc, List.singleton_append]

theorem joinNl_prefix (p first : Str) (conts : List Str) :
    Props.C06.joinNl ((p ++ first) :: conts) = p ++ Props.C06.joinNl (first :: conts) := by
  cases conts with
  | nil => rfl
  | cons c cs => simp [Props.C06.joinNl, List.append_assoc]

theorem joinNl_append (a b : List Str) (ha : a ≠ []) (hb : b ≠ []) :
    Props.C06.joinNl (a ++ b) = Props.C06.joinNl a ++ '\n' :: Props.C06.joinNl b := by
  induction a with
  | nil => exact absurd rfl ha
  | cons x xs ih =>
    cases xs with
    | nil =>
      cases b with
      | nil => exact absurd rfl hb
      | cons y ys => rfl
    | cons z zs =>
      have := ih (by simp)
      simp only [List.cons_append, Props.C06.joinNl] at this ⊢
      rw [this]
      simp [List.append_assoc]

theorem joinNl_groups (gs : List (List Str)) (h : ∀ g ∈ gs, g ≠ []) :
    Props.C06.joinNl (gs.map Props.C06.joinNl) = Props.C06.joinNl gs.flatten := by
  induction gs with
  | nil => rfl
  | cons g rest ih =>
    cases rest with
    | nil => simp [Props.C06.joinNl]
    | cons r rs =>
      have hr := ih (fun x hx => h x (by simp [hx]))
      have hflat : (r :: rs).flatten ≠ [] := by
        have := h r (by simp)
        cases r with
        | nil => exact absurd rfl this
        | cons y ys => simp
      rw [List.flatten_cons, joinNl_append g _ (h g (by simp)) hflat, ← hr]
      rfl

/-! ### the paragraph as fields of C06's grammar -/

def fieldOf (kv : Str × Str) : Props.C06.Field :=
  ⟨normalizeName kv.1, (splitChar '\n' kv.2).headD [], (splitChar '\n' kv.2).tail, [' ']⟩

theorem split_head_tail (v : Str) : (splitChar '\n' v).headD [] :: (splitChar '\n' v).tail = splitChar '\n' v := by
  cases h : splitChar '\n' v with
  | nil => exact absurd h (splitChar_ne_nil '\n' v)
  | cons a as => rfl

theorem line_eq (kv : Str × Str) :
    normalizeName kv.1 ++ ':' :: ' ' :: kv.2 = Props.C06.joinNl (Props.C06.fieldLines (fieldOf kv)) := by
  have e : Props.C06.fieldLines (fieldOf kv) =
      ((normalizeName kv.1 ++ [':', ' ']) ++ (splitChar '\n' kv.2).headD []) :: (splitChar '\n' kv.2).tail := by
    simp [Props.C06.fieldLines, fieldOf, List.append_assoc]
  rw [e, joinNl_prefix, split_head_tail, joinNl_eq_join, join_splitChar]
  simp [List.append_assoc]

theorem dumps_eq (d : PyDict) :
    dumps822 d = Props.C06.joinNl ((d.map fieldOf).flatMap Props.C06.fieldLines) ++ ['\n'] := by
  unfold dumps822
  congr 1
  rw [← joinNl_eq_join]
  have : (d.map fun kv => normalizeName kv.1 ++ ':' :: ' ' :: kv.2) =
      ((d.map fieldOf).map Props.C06.fieldLines).map Props.C06.joinNl := by
    rw [List.map_map, List.map_map]
    apply List.map_congr_left
    intro kv _
    exact line_eq kv
  rw [this, joinNl_groups _ (by
    intro g hg
    simp only [List.mem_map] at hg
    obtain ⟨f, _, rfl⟩ := hg
    simp [Props.C06.fieldLines])]
  rw [List.flatMap_def]

/-! ### facts about a name and a value of the class -/

theorem name_facts (k : Str) (hk : nameOkR k = true) :
    let N := normalizeName (lowerAscii k)
    N ≠ [] ∧ (∀ c ∈ N, P c = true) ∧ lowerAscii N = lowerAscii k ∧ (∀ c ∈ N.head?, c ≠ '-') := by
  simp only [nameOkR, Bool.and_eq_true, List.all_eq_true] at hk
  obtain ⟨hhead, hall0⟩ := hk
  have hall : ∀ c ∈ k, P c = true := by
    intro c hc
    have := hall0 c hc
    simp only [P, Bool.and_eq_true]
    exact this
  have hl : lowerAscii (normalizeName (lowerAscii k)) = lowerAscii k := by
    rw [normalize_eq_conventional, lowerAscii_conventional, lowerAscii_lower]
  have hkP : ∀ c ∈ k, P c = true := fun c hc => hall c hc
  refine ⟨?_, ?_, hl, ?_⟩
  · intro e
    rw [e] at hl
    cases k with
    | nil => simp [headP] at hhead
    | cons c cs => simp [lowerAscii] at hl
  · exact P_of_lower_eq _ k hl hkP
  · intro c hc
    cases hN : normalizeName (lowerAscii k) with
    | nil => rw [hN] at hc; cases hc
    | cons x xs =>
      rw [hN] at hc hl
      have hcx : c = x := by simpa using hc.symm
      cases k with
      | nil => simp [headP] at hhead
      | cons y ys =>
        simp only [lowerAscii, List.map_cons, List.cons.injEq] at hl
        intro e
        rw [hcx] at e
        have h1 := (case_facts x).2.2.2.2.1
        have h2 := (case_facts y).2.2.2.2.1
        rw [hl.1, h2] at h1
        rw [e] at h1
        have : y = '-' := by simpa using h1
        rw [this] at hhead
        simp only [headP] at hhead
        revert hhead; decide

structure VF (v : Str) : Prop where
  noCr : '\r' ∉ v
  head : headP isSpace v = false
  last : lastP isSpace v = false
  conts : ∀ l ∈ (splitChar '\n' v).tail, headP (fun c => c = ' ' || c = '\t') l = true

theorem value_facts (v : Str) (h : valueOkR v = true) : VF v := by
  simp only [valueOkR, Bool.and_eq_true, Bool.not_eq_true', List.all_eq_true] at h
  obtain ⟨⟨⟨h1, h2⟩, h3⟩, h4⟩ := h
  refine ⟨?_, h2, h3, ?_⟩
  · intro hm
    have := (contains_iff_mem v '\r').mpr hm
    rw [this] at h1; cases h1
  · intro l hl
    have := h4 l hl
    cases l with
    | nil => simp [headP] at this
    | cons c cs => simpa [headP] using this

theorem strip_value (v : Str) (hv : VF v) : strip v = v := by
  by_cases hne : v = []
  · subst hne; rfl
  · have hl : lstrip v = v := lstrip_of_head hv.head
    have hr : rstrip v = v := rstrip_of_last v (Props.C06.lastP_false_of hne hv.last)
    unfold strip
    rw [hl, hr]

/-- the field of one pair of the class: what C06's header-parser theorem asks of a field, and of its lines -/
theorem field_facts (k v : Str) (hk : nameOkR k = true) (hv : valueOkR v = true) :
    HF (fieldOf (lowerAscii k, v)) ∧ (∀ l ∈ Props.C06.fieldLines (fieldOf (lowerAscii k, v)), NoT l ∧ l ≠ []) := by
  obtain ⟨hN, hNP, _, _⟩ := name_facts k hk
  have vf := value_facts v hv
  have hpieces := splitChar_no_sep '\n' v
  have hsub := mem_of_mem_splitChar '\n' v
  have hfirst_mem : (splitChar '\n' v).headD [] ∈ splitChar '\n' v := by
    cases h : splitChar '\n' v with
    | nil => exact absurd h (splitChar_ne_nil '\n' v)
    | cons a as => simp
  have htail_mem : ∀ l ∈ (splitChar '\n' v).tail, l ∈ splitChar '\n' v := fun l hl => List.mem_of_mem_tail hl
  have hnoT : ∀ l ∈ splitChar '\n' v, NoT l := by
    intro l hl
    exact ⟨hpieces l hl, fun hm => vf.noCr (hsub l hl _ hm)⟩
  have hlastOK : ∀ l ∈ splitChar '\n' v, LastOK l := by
    intro l hl c hc
    have hm : c ∈ l := List.mem_of_getLast? hc
    exact ⟨fun e => (hnoT l hl).1 (e ▸ hm), fun e => (hnoT l hl).2 (e ▸ hm)⟩
  constructor
  · refine ⟨hN, ?_, ?_, ?_, ?_, ?_⟩
    · intro c hc
      obtain ⟨hr, hcol, _⟩ := P_facts (hNP c hc)
      have := inRange_facts hr
      exact ⟨headerNameChar_of hr hcol, hcol, this.1, this.2.1⟩
    · intro c hc
      simp only [fieldOf, List.mem_singleton] at hc
      exact Or.inl hc
    · -- the first line of the value does not start with a blank: it starts the value
      intro c hc
      simp only [fieldOf] at hc
      have hvhead := vf.head
      cases hs : splitChar '\n' v with
      | nil => exact absurd hs (splitChar_ne_nil '\n' v)
      | cons a as =>
        rw [hs] at hc
        simp only [List.headD_cons] at hc
        cases a with
        | nil => cases hc
        | cons x xs =>
          have hcx : c = x := by simpa using hc.symm
          -- `x` is the first character of `v`
          have hj := join_splitChar '\n' v
          rw [hs] at hj
          have hvx : ∃ r, v = x :: r := by
            cases as with
            | nil => exact ⟨xs, by simpa [join] using hj.symm⟩
            | cons b bs => exact ⟨xs ++ ['\n'] ++ join ['\n'] (b :: bs), by rw [← hj]; simp [join]⟩
          obtain ⟨r, hr⟩ := hvx
          rw [hr] at hvhead
          simp only [headP] at hvhead
          rw [hcx]
          constructor <;> (intro e; subst e; revert hvhead; decide)
    · exact hlastOK _ hfirst_mem
    · intro c hc
      simp only [fieldOf] at hc
      exact ⟨vf.conts c hc, hlastOK c (htail_mem c hc)⟩
  · intro l hl
    rw [Props.C06.fieldLines_eq] at hl
    rcases List.mem_cons.mp hl with rfl | hl
    · refine ⟨⟨?_, ?_⟩, ?_⟩
      · intro hm
        simp only [Props.C06.declLine, fieldOf, List.mem_append, List.mem_cons, List.mem_singleton] at hm
        rcases hm with (hm | hm | hm) | hm
        · exact (inRange_facts (P_facts (hNP _ hm)).1).2.2.1 rfl
        · revert hm; decide
        · rcases hm with hm | hm
          · revert hm; decide
          · cases hm
        · exact (hnoT _ hfirst_mem).1 hm
      · intro hm
        simp only [Props.C06.declLine, fieldOf, List.mem_append, List.mem_cons, List.mem_singleton] at hm
        rcases hm with (hm | hm | hm) | hm
        · exact (inRange_facts (P_facts (hNP _ hm)).1).2.2.2.1 rfl
        · revert hm; decide
        · rcases hm with hm | hm
          · revert hm; decide
          · cases hm
        · exact (hnoT _ hfirst_mem).2 hm
      · cases hn : normalizeName (lowerAscii k) with
        | nil => exact absurd hn hN
        | cons c cs => simp [Props.C06.declLine, fieldOf, hn]
    · simp only [fieldOf] at hl
      refine ⟨hnoT l (htail_mem l hl), ?_⟩
      intro e; subst e
      have := vf.conts [] hl
      simp [headP] at this

/-! ### the mapping built from distinct names -/

theorem cdset_absent (d : PyDict) (k v : Str) (h : k ∉ d.map (·.1)) : Model.Control.dset d k v = d ++ [(k, v)] := by
  induction d with
  | nil => rfl
  | cons a as ih =>
    obtain ⟨a1, a2⟩ := a
    simp only [List.map_cons, List.mem_cons, not_or] at h
    have : ¬ a1 = k := fun e => h.1 e.symm
    simp [Model.Control.dset, this, ih h.2]

theorem fold_dset_distinct (items : List (Str × Str)) (d : PyDict)
    (hlen : (dd (d.map (·.1)) (items.map fun kv => lowerAscii kv.1)).length = d.length + items.length) :
    items.foldl (fun d kv => Model.Control.dset d (lowerAscii kv.1) kv.2) d =
      d ++ items.map (fun kv => (lowerAscii kv.1, kv.2)) := by
  induction items generalizing d with
  | nil => simp
  | cons kv rest ih =>
    simp only [List.map_cons, dd, List.foldl_cons, List.length_cons] at hlen
    have hnot : (d.map (·.1)).contains (lowerAscii kv.1) = false := by
      cases hc : (d.map (·.1)).contains (lowerAscii kv.1) with
      | false => rfl
      | true =>
        rw [hc] at hlen
        simp only [if_true] at hlen
        have := dd_length_le (rest.map fun kv => lowerAscii kv.1) (d.map (·.1))
        simp only [dd, List.length_map] at this
        omega
    have hnm : lowerAscii kv.1 ∉ d.map (·.1) := by simpa using hnot
    rw [hnot] at hlen
    simp only [Bool.false_eq_true, if_false] at hlen
    simp only [List.foldl_cons, cdset_absent d _ _ hnm]
    rw [ih (d ++ [(lowerAscii kv.1, kv.2)]) (by
      simp only [List.map_append, List.map_cons, List.map_nil, List.length_append, List.length_singleton, dd]
      rw [hlen]; omega)]
    simp [List.append_assoc]

theorem construct_distinct (i : InputR) (h : distinctLower i = true) :
    construct lowerAscii (.pairs i) = i.map fun kv => (lowerAscii kv.1, kv.2) := by
  simp only [distinctLower, beq_iff_eq] at h
  have := fold_dset_distinct i [] (by simpa [dd] using h.symm)
  simpa [construct, dictOf] using this

/-! ### the rendering is not taken for a signed message -/

theorem not_signed (c : Char) (rest : Str) (hc : P c = true) (hd : c ≠ '-') :
    Model.Unsign.removeSignature (c :: rest) = c :: rest := by
  obtain ⟨_, _, hsp⟩ := P_facts hc
  have hstrip : ∃ r, strip (c :: rest) = c :: r := by
    unfold strip
    rw [lstrip_cons_nonspace c rest hsp]
    exact ⟨_, rstrip_cons_of_nonblank c rest (by rw [isBlank_cons, hsp]; rfl)⟩
  obtain ⟨r, hr⟩ := hstrip
  have hs : Model.Unsign.isSigned (c :: rest) = false := by
    unfold Model.Unsign.isSigned
    simp only [hr]
    have : startsWith (c :: r) Model.Unsign.beginSigned = false := by
      have hb : Model.Unsign.beginSigned = '-' :: "----BEGIN PGP SIGNED MESSAGE-----".toList := by decide
      rw [hb]
      simp [startsWith, hd]
    simp [this]
  unfold Model.Unsign.removeSignature
  simp [hs]

/-! ### the clause -/

/-- **render and read back**: for every paragraph of the class, the model of
`Debian822(Debian822(pairs).dumps()).to_dict()` is the paragraph under lower-cased names -/
theorem soundR (i : InputR) : holdsOnR i (modelR i) = true := by
  unfold holdsOnR
  cases hw : wfR i with
  | false => rfl
  | true =>
    simp only [wfR, Bool.and_eq_true, Bool.not_eq_true', List.all_eq_true] at hw
    obtain ⟨⟨hne, hall⟩, hdist⟩ := hw
    have hine : i ≠ [] := by
      intro e; rw [e] at hne; simp at hne
    simp only [Bool.not_true, Bool.false_or, decide_eq_true_eq]
    unfold modelR
    congr 1
    rw [construct_distinct i hdist, dumps_eq, List.map_map]
    -- the fields of the rendering
    let fs : List Props.C06.Field := i.map (fieldOf ∘ fun kv => (lowerAscii kv.1, kv.2))
    have hfs : ∀ f ∈ fs, ∃ kv ∈ i, f = fieldOf (lowerAscii kv.1, kv.2) := by
      intro f hf
      simp only [fs, List.mem_map, Function.comp] at hf
      obtain ⟨kv, hkv, rfl⟩ := hf
      exact ⟨kv, hkv, rfl⟩
    have hfne : fs ≠ [] := by
      simp only [fs]
      intro e
      exact hine (List.map_eq_nil_iff.mp e)
    have hHF : ∀ f ∈ fs, HF f := by
      intro f hf
      obtain ⟨kv, hkv, rfl⟩ := hfs f hf
      have := hall kv hkv
      exact (field_facts kv.1 kv.2 this.1 this.2).1
    have hlines : ∀ l ∈ fs.flatMap Props.C06.fieldLines, NoT l ∧ l ≠ [] := by
      intro l hl
      simp only [List.mem_flatMap] at hl
      obtain ⟨f, hf, hlf⟩ := hl
      obtain ⟨kv, hkv, rfl⟩ := hfs f hf
      have := hall kv hkv
      exact (field_facts kv.1 kv.2 this.1 this.2).2 l hlf
    have hkey : ∀ kv ∈ i, strip (lowerAscii (normalizeName (lowerAscii kv.1))) = lowerAscii kv.1 := by
      intro kv hkv
      obtain ⟨_, hNP, hl, _⟩ := name_facts kv.1 (hall kv hkv).1
      rw [strip_lower_name _ (fun c hc => (P_facts (hNP c hc)).1), hl]
    have hkeys : (fs.map fun f => keyOf (f.name, ([] : Str))) = i.map fun kv => lowerAscii kv.1 := by
      simp only [fs, List.map_map]
      apply List.map_congr_left
      intro kv hkv
      simp only [Function.comp, keyOf, fieldOf]
      exact hkey kv hkv
    have hdd : (dd [] (fs.map fun f => keyOf (f.name, ([] : Str)))).length = fs.length := by
      rw [hkeys]
      simp only [distinctLower, beq_iff_eq] at hdist
      simp only [fs, List.length_map]
      simpa [dd] using hdist.symm
    have hpara := getParagraphData_para fs true hfne hHF hlines hdd
    simp only [if_true] at hpara
    -- the text starts with the first character of a name: it is not empty and not a signed message
    obtain ⟨kv0, irest, hi0⟩ : ∃ kv0 irest, i = kv0 :: irest := by
      cases i with
      | nil => exact absurd rfl hine
      | cons a as => exact ⟨a, as, rfl⟩
    obtain ⟨hN0, hNP0, _, hhd0⟩ := name_facts kv0.1 (hall kv0 (by rw [hi0]; simp)).1
    obtain ⟨c0, cs0, hc0⟩ : ∃ c0 cs0, normalizeName (lowerAscii kv0.1) = c0 :: cs0 := by
      cases h : normalizeName (lowerAscii kv0.1) with
      | nil => exact absurd h hN0
      | cons c cs => exact ⟨c, cs, rfl⟩
    have htext : ∃ rest, Props.C06.joinNl (fs.flatMap Props.C06.fieldLines) ++ ['\n'] = c0 :: rest := by
      simp only [fs, hi0, List.map_cons, List.flatMap_cons, Function.comp]
      rw [Props.C06.fieldLines_eq]
      simp only [List.cons_append]
      generalize (fieldOf (lowerAscii kv0.1, kv0.2)).conts ++ _ = tailLines
      have hd : ∃ r, Props.C06.declLine (fieldOf (lowerAscii kv0.1, kv0.2)) = c0 :: r := by
        simp only [Props.C06.declLine, fieldOf, hc0]
        exact ⟨_, rfl⟩
      obtain ⟨r, hr⟩ := hd
      rw [hr]
      cases tailLines with
      | nil => exact ⟨_, rfl⟩
      | cons m ms => exact ⟨_, rfl⟩
    obtain ⟨rest, hrest⟩ := htext
    have hP0 : P c0 = true := hNP0 c0 (by rw [hc0]; simp)
    have hd0 : c0 ≠ '-' := hhd0 c0 (by rw [hc0]; simp)
    show fromText822 (Props.C06.joinNl (fs.flatMap Props.C06.fieldLines) ++ ['\n']) = _
    unfold fromText822
    rw [hrest]
    simp only [List.isEmpty_cons, Bool.false_eq_true, if_false]
    unfold fromTextNonEmpty
    rw [not_signed c0 rest hP0 hd0, ← hrest, hpara]
    -- the answer, pair by pair
    simp only [fs, List.map_map]
    apply List.map_congr_left
    intro kv hkv
    simp only [Function.comp, fieldOf]
    have hv := value_facts kv.2 (hall kv hkv).2
    rw [hkey kv hkv, split_head_tail, joinNl_eq_join, join_splitChar, strip_value kv.2 hv]

/-- the class is inhabited: mixed-case names, a multi-line value, a value that looks like an armor line -/
example : wfR [("Package".toList, "foo".toList), ("X-SHA1-sum".toList, "a: b\n  two\n .".toList),
    ("dEPENDS".toList, "-----BEGIN PGP SIGNED MESSAGE-----".toList), ("empty".toList, []), ("X_Foo".toList, "v".toList),
    ("2a.b+c/d".toList, "w".toList)] = true := by decide +kernel

end Props.C19R
