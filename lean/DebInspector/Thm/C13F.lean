/-
C13 — the fixpoint, field level: the canonical field a typed value is rendered as.
For every field of a DEP-5 document: the text `dumps` gives for its typed value is the raw value of a
*canonical* field of the same grammar, which spells the same typed value.
-/
import DebInspector.Thm.C09D
import DebInspector.Thm.C19
import DebInspector.Props.C13

namespace Props.C13F
open Py Model.Deb822 Model.Debcon Model.Copyright Props.Dep5 Props.C09 Props.C09G Proofs.Splitlines

/-! ### names -/

def canonLabel (f : Field) : Str := Model.Control.normalizeName (normLabel f.label)

theorem lowerAscii_append (a b : Str) : lowerAscii (a ++ b) = lowerAscii a ++ lowerAscii b := by
  simp [lowerAscii]

theorem lowerAscii_join (ws : List Str) : lowerAscii (join ['-'] ws) = join ['-'] (ws.map lowerAscii) := by
  induction ws with
  | nil => rfl
  | cons w ws ih =>
    cases ws with
    | nil => rfl
    | cons v vs =>
      have e1 : join ['-'] (w :: v :: vs) = w ++ ['-'] ++ join ['-'] (v :: vs) := rfl
      have e2 : join ['-'] ((w :: v :: vs).map lowerAscii) = lowerAscii w ++ ['-'] ++ join ['-'] ((v :: vs).map lowerAscii) := rfl
      rw [e1, e2, lowerAscii_append, lowerAscii_append, ih]
      rfl

theorem lowerAscii_splitChar (s : Str) : (splitChar '-' s).map lowerAscii = splitChar '-' (lowerAscii s) := by
  unfold lowerAscii
  exact (Props.C19.splitChar_map lowerAsciiChar (fun c => (Props.C19.case_facts c).2.2.2.2.1) s).symm

theorem lowerAscii_normalizeName (s : Str) : lowerAscii (Model.Control.normalizeName s) = lowerAscii s := by
  rw [Props.C19.normalize_eq_conventional, Props.C19.conventional_eq, lowerAscii_join, List.map_map]
  have : (splitChar '-' s).map (lowerAscii ∘ Props.C19.convWord) = (splitChar '-' s).map lowerAscii := by
    apply List.map_congr_left
    intro w _
    exact Props.C19.lowerAscii_convWord w
  rw [this, lowerAscii_splitChar, join_splitChar]

/-! ### joins -/

theorem joinNlSp_eq (x : Str) (xs : List Str) : joinNlSp (x :: xs) = Model.Debcon.joinNl (x :: xs.map (' ' :: ·)) := by
  induction xs generalizing x with
  | nil => rfl
  | cons y ys ih =>
    have e1 : joinNlSp (x :: y :: ys) = x ++ '\n' :: ' ' :: joinNlSp (y :: ys) := rfl
    have e2 : Model.Debcon.joinNl (x :: (y :: ys).map (' ' :: ·)) = x ++ '\n' :: Model.Debcon.joinNl ((' ' :: y) :: ys.map (' ' :: ·)) := rfl
    rw [e1, e2, ih y]
    cases ys <;> rfl

theorem lastP_append_ne (p : Char → Bool) (a b : Str) (hb : b ≠ []) : lastP p (a ++ b) = lastP p b := by
  induction a with
  | nil => rfl
  | cons c cs ih =>
    rw [List.cons_append, lastP_cons_ne_nil _ _ _ (by simp [hb])]
    exact ih

theorem lastP_joinNl (p : Char → Bool) (x : Str) (xs : List Str) (h : ∀ l ∈ (x :: xs).getLast?, l ≠ []) :
    lastP p (Model.Debcon.joinNl (x :: xs)) = lastP p ((x :: xs).getLast (by simp)) := by
  induction xs generalizing x with
  | nil => rfl
  | cons y ys ih =>
    have e : Model.Debcon.joinNl (x :: y :: ys) = x ++ '\n' :: Model.Debcon.joinNl (y :: ys) := rfl
    have hy : ∀ l ∈ (y :: ys).getLast?, l ≠ [] := by
      intro l hl
      apply h l
      simpa [List.getLast?_cons_cons] using hl
    have hne : Model.Debcon.joinNl (y :: ys) ≠ [] := by
      cases ys with
      | nil => simpa [Model.Debcon.joinNl] using hy y (by simp)
      | cons z zs => simp [Model.Debcon.joinNl]
    rw [e, lastP_append_ne _ _ _ (by simp), lastP_cons_ne_nil _ _ _ hne, ih y hy]
    simp [List.getLast_cons]

theorem headP_joinNl (p : Char → Bool) (x : Str) (xs : List Str) (hx : x ≠ []) :
    headP p (Model.Debcon.joinNl (x :: xs)) = headP p x := by
  cases x with
  | nil => exact absurd rfl hx
  | cons c cs => cases xs <;> simp [Model.Debcon.joinNl, headP]

/-- a joined value whose first line starts and whose last line ends with a non-space is left alone by `strip` -/
theorem strip_joinNl (x : Str) (xs : List Str) (hx : x ≠ []) (hh : headP isSpace x = false)
    (hl : ∀ l ∈ (x :: xs).getLast?, l ≠ [] ∧ lastP isSpace l = false) :
    strip (Model.Debcon.joinNl (x :: xs)) = Model.Debcon.joinNl (x :: xs) := by
  apply strip_trimmed
  simp only [trimmed, Bool.and_eq_true, Bool.not_eq_true']
  refine ⟨by rw [headP_joinNl _ _ _ hx]; exact hh, ?_⟩
  rw [lastP_joinNl _ _ _ (fun l h => (hl l h).1)]
  exact (hl _ (List.getLast?_eq_some_getLast (by simp))).2

theorem getLast_cons_map {α β} (x : β) (g : α → β) (ls : List α) (l : β) (hl : l ∈ (x :: ls.map g).getLast?) :
    (ls = [] ∧ l = x) ∨ ∃ u, ls.getLast? = some u ∧ l = g u := by
  cases ls with
  | nil => left; simp at hl; exact ⟨rfl, hl.symm⟩
  | cons t ts =>
    right
    rw [List.map_cons, List.getLast?_cons_cons, ← List.map_cons, List.getLast?_map] at hl
    cases hg : (t :: ts).getLast? with
    | none => rw [hg] at hl; cases hl
    | some u => rw [hg] at hl; exact ⟨u, rfl, by simpa [eq_comm] using hl⟩

/-! ### lines of a text block -/

structure LFacts (l : TLine) : Prop where
  enc : ' ' :: encLine (decodeLine l) = rawLine l
  decNoB : NoB (decodeLine l)
  decNe : l.kind ≠ 1 → decodeLine l ≠ []
  rawLast : l.kind ≠ 1 → lastP isSpace (rawLine l) = false
  rawNe : rawLine l ≠ []

theorem nonblank_of_last (s : Str) (hne : s ≠ []) (hl : lastP isSpace s = false) : isBlank s = false := by
  have h2 : lastP (fun c => !isSpace c) s = true := Props.C06.lastP_false_of hne hl
  obtain ⟨a, c, e, hc⟩ := lastP_mem h2
  cases hb : isBlank s with
  | false => rfl
  | true =>
    have := List.all_eq_true.mp hb c (by rw [e]; simp)
    simp only [Bool.not_eq_true'] at hc
    rw [hc] at this; cases this

theorem line_facts (l : TLine) (h : tlineOk l = true) : LFacts l := by
  have hspB : isBoundary ' ' = false := by decide
  unfold tlineOk at h
  match hk : l.kind with
  | 0 =>
    rw [hk] at h
    simp only [Bool.and_eq_true, Bool.not_eq_true', List.isEmpty_eq_false_iff, trimmed] at h
    obtain ⟨⟨⟨hne, hpl⟩, ⟨hh, hl⟩⟩, _⟩ := h
    have hraw : rawLine l = ' ' :: l.content := by simp [rawLine, hk]
    have hdec : decodeLine l = l.content := by simp [decodeLine, hk]
    have hnb : isBlank l.content = false := nonblank_of_last _ hne hl
    refine ⟨?_, ?_, ?_, ?_, by rw [hraw]; simp⟩
    · rw [hraw, hdec]; simp [encLine, hnb]
    · rw [hdec]; exact plain_noB _ hpl
    · intro _; rw [hdec]; exact hne
    · intro _; rw [hraw, lastP_cons_ne_nil _ _ _ hne]; exact hl
  | 1 =>
    have hc : l.content = [] := by rw [hk] at h; simpa using h
    have hraw : rawLine l = [' ', '.'] := by simp [rawLine, hk]
    have hdec : decodeLine l = [] := by simp [decodeLine, hk]
    refine ⟨?_, ?_, ?_, ?_, by rw [hraw]; simp⟩
    · rw [hraw, hdec]; rfl
    · rw [hdec]; intro c hc; cases hc
    · intro h1; exact absurd hk h1
    · intro h1; exact absurd hk h1
  | n + 2 =>
    have hk2 : l.kind = 2 := by
      rw [hk] at h
      match n, h with
      | 0, _ => exact hk
      | _ + 1, h => simp at h
    rw [hk2] at h
    simp only [Bool.and_eq_true, Bool.not_eq_true', List.isEmpty_eq_false_iff] at h
    obtain ⟨⟨hne, hpl⟩, hl⟩ := h
    have hraw : rawLine l = ' ' :: ' ' :: l.content := by simp [rawLine, hk2]
    have hdec : decodeLine l = ' ' :: l.content := by simp [decodeLine, hk2]
    have hnb : isBlank (' ' :: l.content) = false := by
      apply nonblank_of_last _ (by simp)
      rw [lastP_cons_ne_nil _ _ _ hne]; exact hl
    refine ⟨?_, ?_, ?_, ?_, by rw [hraw]; simp⟩
    · rw [hraw, hdec]; simp [encLine, hnb]
    · rw [hdec]
      intro c hc
      rcases List.mem_cons.mp hc with rfl | hc
      · exact hspB
      · exact plain_noB _ hpl c hc
    · intro _; rw [hdec]; simp
    · intro _
      rw [hraw, lastP_cons_ne_nil _ _ _ (by simp), lastP_cons_ne_nil _ _ _ hne]; exact hl

theorem map_enc_dec (ls : List TLine) (h : ∀ l ∈ ls, tlineOk l = true) :
    ((ls.map decodeLine).map encLine).map (' ' :: ·) = ls.map rawLine := by
  rw [List.map_map, List.map_map]
  apply List.map_congr_left
  intro l hl
  exact (line_facts l (h l hl)).enc

theorem splitlines_block (x : Str) (ls : List TLine) (hx : NoB x) (hxne : x ≠ [])
    (hall : ∀ l ∈ ls, tlineOk l = true) (hlast : ∀ l ∈ ls.getLast?, l.kind ≠ 1) :
    splitlines (Model.Debcon.joinNl (x :: ls.map decodeLine)) = x :: ls.map decodeLine := by
  rw [splitlines_joinNl _ (by
    intro l hl
    rcases List.mem_cons.mp hl with rfl | hl
    · exact hx
    · obtain ⟨t, ht, rfl⟩ := List.mem_map.mp hl
      exact (line_facts t (hall t ht)).decNoB)]
  apply dropLastEmpty_id
  intro l hl
  cases ls with
  | nil => simp at hl; subst hl; exact hxne
  | cons t ts =>
    have : (x :: (t :: ts).map decodeLine).getLast? = ((t :: ts).getLast?).map decodeLine := by
      rw [List.map_cons, List.getLast?_cons_cons, ← List.map_cons, List.getLast?_map]
    rw [this] at hl
    obtain ⟨u, hu, rfl⟩ : ∃ u, (t :: ts).getLast? = some u ∧ decodeLine u = l := by
      cases hg : (t :: ts).getLast? with
      | none => rw [hg] at hl; cases hl
      | some u => rw [hg] at hl; exact ⟨u, rfl, by simpa using hl⟩
    exact (line_facts u (hall u (List.mem_of_getLast? hu))).decNe (hlast u hu)

/-- the rendering of a decoded text block is the block as written -/
theorem fmt_block (x : Str) (ls : List TLine) (hx : NoB x) (hxne : x ≠ []) (hxb : isBlank x = false)
    (hall : ∀ l ∈ ls, tlineOk l = true) (hlast : ∀ l ∈ ls.getLast?, l.kind ≠ 1) :
    asFormattedLines (splitlines (Model.Debcon.joinNl (x :: ls.map decodeLine))) = Model.Debcon.joinNl (x :: ls.map rawLine) := by
  rw [splitlines_block x ls hx hxne hall hlast]
  unfold asFormattedLines
  rw [List.map_cons, joinNlSp_eq, map_enc_dec ls hall]
  simp [encLine, hxb]

theorem last_of_match (ls : List TLine) (h : (match ls.getLast? with | some l => l.kind != 1 | none => true) = true) :
    ∀ l ∈ ls.getLast?, l.kind ≠ 1 := by
  intro l hl
  have : ls.getLast? = some l := hl
  rw [this] at h
  simpa using h

/-! ### copyright statements -/

theorem statementDumps_split (s : Str) (h : SS s) : statementDumps (splitStatement s) = s := by
  have hst : strip s = s := strip_trimmed _ h.tr
  unfold splitStatement
  cases hsp : splitChar ' ' s with
  | nil => exact absurd hsp (splitChar_ne_nil ' ' s)
  | cons w rest =>
    simp only
    by_cases hy : isYearSpec w = true
    · simp only [hy, if_true, statementDumps]
      have hwne : w.isEmpty = false := by
        unfold isYearSpec at hy
        simp only [Bool.and_eq_true, Bool.not_eq_true'] at hy
        exact hy.1
      simp only [hwne, Bool.false_eq_true, if_false]
      have hj : join [' '] (w :: rest) = s := by rw [← hsp]; exact join_splitChar ' ' s
      cases rest with
      | nil =>
        have : w = s := by simpa [join] using hj
        subst this
        simp only [splitStatement.joinSp]
        have : w ++ [' '] = w ++ [' '] := rfl
        rw [strip_suffix_space w [' '] (by intro c hc; simp at hc; subst hc; decide)]
        exact hst
      | cons r rs =>
        rw [joinSp_eq]
        have : w ++ ' ' :: join [' '] (r :: rs) = join [' '] (w :: r :: rs) := by simp [join]
        rw [this, hj]
        exact hst
    · simp only [hy, Bool.false_eq_true, if_false, statementDumps]
      exact hst

theorem copyrightJoin_eq : copyrightJoin = '\n' :: ' ' :: List.replicate 10 ' ' := by decide

theorem join_copyright (x : Str) (xs : List Str) :
    join copyrightJoin (x :: xs) = Model.Debcon.joinNl (x :: xs.map fun s => ' ' :: (List.replicate 10 ' ' ++ s)) := by
  induction xs generalizing x with
  | nil => rfl
  | cons y ys ih =>
    have e1 : join copyrightJoin (x :: y :: ys) = x ++ copyrightJoin ++ join copyrightJoin (y :: ys) := rfl
    rw [e1, ih y, copyrightJoin_eq]
    cases ys <;> simp [Model.Debcon.joinNl]

/-! ### the canonical field -/

def wordsOf (f : Field) : List Str := splitChar ' ' f.first ++ f.conts.flatMap fun l => splitChar ' ' (itemText l)

def stmtLine (l : TLine) : TLine := ⟨3, List.replicate 10 ' ' ++ itemText l⟩

/-- the field as `dumps` writes it: conventional name; one list item per line; statements aligned under the
first; a text always starts on the declaration line -/
def canonField (f : Field) : Field :=
  match f.kind with
  | 1 => ⟨canonLabel f, 1, (wordsOf f).headD [], (wordsOf f).tail.map fun w => ⟨3, w⟩⟩
  | 2 => ⟨canonLabel f, 2, f.first, f.conts.map stmtLine⟩
  | 4 =>
    if f.first.isEmpty then
      match f.conts with
      | t :: ts => ⟨canonLabel f, 4, t.content, ts⟩
      | [] => ⟨canonLabel f, 4, [], []⟩
    else ⟨canonLabel f, 4, f.first, f.conts⟩
  | _ => ⟨canonLabel f, f.kind, f.first, f.conts⟩

theorem words_ne (f : Field) : wordsOf f ≠ [] := by
  unfold wordsOf
  intro h
  have := List.append_eq_nil_iff.mp h
  exact splitChar_ne_nil ' ' f.first this.1

theorem dumps_single (f : Field) (hk : f.kind = 0) (h : fieldOk f = true) :
    dumps (expectedFV f) = rawVal (canonField f) := by
  simp only [fieldOk, hk, Bool.and_eq_true, List.isEmpty_iff] at h
  simp [expectedFV, hk, dumps, canonField, rawVal, h.2.2, Model.Debcon.joinNl]

theorem dumps_wsSep (f : Field) (hk : f.kind = 1) :
    dumps (expectedFV f) = rawVal (canonField f) := by
  have he : expectedFV f = .wsSep (wordsOf f) := by simp [expectedFV, hk, wordsOf]
  rw [he]
  simp only [dumps, canonField, hk, rawVal]
  cases hw : wordsOf f with
  | nil => exact absurd hw (words_ne f)
  | cons w ws =>
    rw [joinNlSp_eq]
    simp [List.map_map, Function.comp_def, rawLine]

theorem dumps_lineSep (f : Field) (hk : f.kind = 6) (h : fieldOk f = true) :
    dumps (expectedFV f) = rawVal (canonField f) := by
  simp only [fieldOk, hk, Bool.and_eq_true, List.all_eq_true, beq_iff_eq] at h
  have he : expectedFV f = .lineSep (f.first :: f.conts.map (·.content)) := by simp [expectedFV, hk]
  rw [he]
  simp only [dumps, canonField, hk, rawVal, joinNlSp_eq, List.map_map]
  congr 2
  apply List.map_congr_left
  intro l hl
  have := (h.2.2 l hl).1
  simp [rawLine, this]

theorem dumps_copyright (f : Field) (hk : f.kind = 2) (h : fieldOk f = true) :
    dumps (expectedFV f) = rawVal (canonField f) := by
  simp only [fieldOk, hk, Bool.and_eq_true, List.all_eq_true] at h
  obtain ⟨_, hfirst, hconts⟩ := h
  have hssf := ss_of _ hfirst
  have he : expectedFV f = .copyright ((f.first :: f.conts.map itemText).map splitStatement) := by simp [expectedFV, hk]
  rw [he]
  simp only [dumps, List.map_map]
  have hmap : (f.first :: f.conts.map itemText).map (statementDumps ∘ splitStatement) = f.first :: f.conts.map itemText := by
    simp only [List.map_cons, Function.comp, statementDumps_split _ hssf, List.map_map]
    congr 1
    apply List.map_congr_left
    intro l hl
    exact statementDumps_split _ (item_facts l (hconts l hl)).ss
  rw [hmap, join_copyright]
  have hraw : rawVal (canonField f) = Model.Debcon.joinNl (f.first :: (f.conts.map itemText).map fun s => ' ' :: (List.replicate 10 ' ' ++ s)) := by
    simp [canonField, hk, rawVal, List.map_map, Function.comp_def, rawLine, stmtLine]
  rw [hraw]
  apply strip_joinNl _ _ hssf.ne
  · have := hssf.tr
    simp only [trimmed, Bool.and_eq_true, Bool.not_eq_true'] at this
    exact this.1
  · intro l hl
    rw [List.map_map] at hl
    rcases getLast_cons_map _ _ _ l hl with ⟨_, rfl⟩ | ⟨u, hu, rfl⟩
    · have := hssf.tr
      simp only [trimmed, Bool.and_eq_true, Bool.not_eq_true'] at this
      exact ⟨hssf.ne, this.2⟩
    · have hum : u ∈ f.conts := List.mem_of_getLast? hu
      have hss := (item_facts u (hconts u hum)).ss
      refine ⟨by simp, ?_⟩
      simp only [Function.comp]
      rw [lastP_cons_ne_nil _ _ _ (by simp [hss.ne]), lastP_append_ne _ _ _ hss.ne]
      have := hss.tr
      simp only [trimmed, Bool.and_eq_true, Bool.not_eq_true'] at this
      exact this.2

theorem joinNl_cons_sp (c : Str) (rest : List Str) :
    Model.Debcon.joinNl ((' ' :: c) :: rest) = ' ' :: Model.Debcon.joinNl (c :: rest) := by
  cases rest <;> rfl

theorem joinNl_cons2 (a b : Str) (rest : List Str) :
    Model.Debcon.joinNl (a :: b :: rest) = a ++ '\n' :: Model.Debcon.joinNl (b :: rest) := rfl

/-- the value as written is left alone by `strip` -/
theorem strip_rawVal (first : Str) (conts : List TLine) (hne : first ≠ []) (htr : trimmed first = true)
    (hall : ∀ l ∈ conts, tlineOk l = true) (hlast : ∀ l ∈ conts.getLast?, l.kind ≠ 1) :
    strip (Model.Debcon.joinNl (first :: conts.map rawLine)) = Model.Debcon.joinNl (first :: conts.map rawLine) := by
  simp only [trimmed, Bool.and_eq_true, Bool.not_eq_true'] at htr
  apply strip_joinNl _ _ hne htr.1
  intro l hl
  rcases getLast_cons_map _ _ _ l hl with ⟨_, rfl⟩ | ⟨u, hu, rfl⟩
  · exact ⟨hne, htr.2⟩
  · have hf := line_facts u (hall u (List.mem_of_getLast? hu))
    exact ⟨hf.rawNe, hf.rawLast (hlast u hu)⟩

theorem block_parts (ls : List TLine) (h : blockOk ls = true) :
    (∀ l ∈ ls, tlineOk l = true) ∧ (∀ l ∈ ls.head?, l.kind = 0) ∧ (∀ l ∈ ls.getLast?, l.kind ≠ 1) := by
  simp only [blockOk, Bool.and_eq_true, List.all_eq_true] at h
  refine ⟨h.1.1, ?_, last_of_match ls h.2⟩
  intro l hl
  have : ls.head? = some l := hl
  have h2 := h.1.2
  rw [this] at h2
  simpa using h2

theorem kind0_parts (t : TLine) (hk : t.kind = 0) (h : tlineOk t = true) :
    t.content ≠ [] ∧ plain t.content = true ∧ trimmed t.content = true ∧ rawLine t = ' ' :: t.content ∧ decodeLine t = t.content := by
  unfold tlineOk at h
  rw [hk] at h
  simp only [Bool.and_eq_true, Bool.not_eq_true', List.isEmpty_eq_false_iff] at h
  exact ⟨h.1.1.1, h.1.1.2, h.1.2, by simp [rawLine, hk], by simp [decodeLine, hk]⟩

theorem nonblank_trimmed (s : Str) (hne : s ≠ []) (htr : trimmed s = true) : isBlank s = false := by
  simp only [trimmed, Bool.and_eq_true, Bool.not_eq_true'] at htr
  exact nonblank_of_last s hne htr.2

theorem dumps_license (f : Field) (hk : f.kind = 3) (h : fieldOk f = true) :
    dumps (expectedFV f) = rawVal (canonField f) := by
  simp only [fieldOk, hk, Bool.and_eq_true, Bool.not_eq_true', List.isEmpty_eq_false_iff] at h
  obtain ⟨⟨⟨_, hpl⟩, htrim⟩, hfne, hblock⟩ := h
  obtain ⟨hall, hhead, hlast⟩ := block_parts _ hblock
  have hraw : rawVal (canonField f) = Model.Debcon.joinNl (f.first :: f.conts.map rawLine) := by
    simp [canonField, hk, rawVal]
  rw [hraw]
  have hst : strip f.first = f.first := strip_trimmed _ htrim
  cases hc : f.conts with
  | nil =>
    simp [expectedFV, hk, hc, dumps, licenseDumps, descriptionDumps, hst, Model.Debcon.joinNl]
  | cons t ts =>
    have hk0 : t.kind = 0 := hhead t (by rw [hc]; rfl)
    obtain ⟨hcne, hcpl, hctr, hrawt, hdect⟩ := kind0_parts t hk0 (hall t (by rw [hc]; simp))
    have hallts : ∀ l ∈ ts, tlineOk l = true := fun l hl => hall l (by rw [hc]; simp [hl])
    have hlastts : ∀ l ∈ ts.getLast?, l.kind ≠ 1 := by
      intro l hl
      apply hlast l
      rw [hc]
      cases ts with
      | nil => cases hl
      | cons a as => rw [List.getLast?_cons_cons]; exact hl
    have he : expectedFV f = .license f.first (some (Model.Debcon.joinNl (t.content :: ts.map decodeLine))) := by
      simp [expectedFV, hk, hc, joinNl_eq, hdect]
    rw [he]
    have htne : (Model.Debcon.joinNl (t.content :: ts.map decodeLine)).isEmpty = false := by
      have := joinNl_ne_nil' t.content (ts.map decodeLine) hcne
      cases hj : Model.Debcon.joinNl (t.content :: ts.map decodeLine) with
      | nil => exact absurd hj this
      | cons _ _ => rfl
    have hsw : startsWith (Model.Debcon.joinNl (t.content :: ts.map decodeLine)) [' '] = false := by
      have hh : headP isSpace (Model.Debcon.joinNl (t.content :: ts.map decodeLine)) = false := by
        rw [headP_joinNl _ _ _ hcne]
        simp only [trimmed, Bool.and_eq_true, Bool.not_eq_true'] at hctr
        exact hctr.1
      cases hj : Model.Debcon.joinNl (t.content :: ts.map decodeLine) with
      | nil => rfl
      | cons c cs =>
        rw [hj] at hh
        have : c ≠ ' ' := by intro e; subst e; simp [headP] at hh; revert hh; decide
        simp [startsWith, this]
    simp only [dumps, licenseDumps, descriptionDumps, hst, htne, Bool.false_eq_true, if_false, hsw, asFormattedText]
    rw [fmt_block t.content ts (plain_noB _ hcpl) hcne (nonblank_trimmed _ hcne hctr) hallts hlastts]
    have : f.first ++ '\n' :: ' ' :: Model.Debcon.joinNl (t.content :: ts.map rawLine) =
        Model.Debcon.joinNl (f.first :: (t :: ts).map rawLine) := by
      rw [List.map_cons, joinNl_cons2, hrawt, joinNl_cons_sp]
    rw [this, ← hc]
    exact strip_rawVal f.first f.conts hfne htrim hall hlast

theorem dumps_formatted_text (x : Str) (ls : List TLine) (hx : NoB x) (hxne : x ≠ []) (hxb : isBlank x = false)
    (hall : ∀ l ∈ ls, tlineOk l = true) (hlast : ∀ l ∈ ls.getLast?, l.kind ≠ 1) :
    dumps (.formatted (some (Model.Debcon.joinNl (x :: ls.map decodeLine)))) = Model.Debcon.joinNl (x :: ls.map rawLine) := by
  have htne : (Model.Debcon.joinNl (x :: ls.map decodeLine)).isEmpty = false := by
    have := joinNl_ne_nil' x (ls.map decodeLine) hxne
    cases hj : Model.Debcon.joinNl (x :: ls.map decodeLine) with
    | nil => exact absurd hj this
    | cons _ _ => rfl
  have hsl := splitlines_block x ls hx hxne hall hlast
  have hfb := fmt_block x ls hx hxne hxb hall hlast
  simp only [dumps, Option.getD_some, lineSeparated, htne, Bool.false_eq_true, if_false]
  rw [hfb, hsl]
  simp

theorem dumps_formatted (f : Field) (hk : f.kind = 4) (h : fieldOk f = true) :
    dumps (expectedFV f) = rawVal (canonField f) := by
  have hall := formatted_conts_ok f hk h
  simp only [fieldOk, hk, Bool.and_eq_true, Bool.not_eq_true', Bool.or_eq_true, List.isEmpty_eq_false_iff] at h
  obtain ⟨⟨⟨_, hpl⟩, htrim⟩, hblock, hsome⟩ := h
  by_cases hfe : f.first = []
  · have hblock : blockOk f.conts = true := by simpa [hfe] using hblock
    obtain ⟨_, hhead, hlast⟩ := block_parts _ hblock
    have hcne : f.conts ≠ [] := by
      rcases hsome with h | h
      · exact absurd hfe h
      · exact h
    cases hc : f.conts with
    | nil => exact absurd hc hcne
    | cons t ts =>
      have hk0 : t.kind = 0 := hhead t (by rw [hc]; rfl)
      obtain ⟨hcne', hcpl, hctr, hrawt, hdect⟩ := kind0_parts t hk0 (hall t (by rw [hc]; simp))
      have hallts : ∀ l ∈ ts, tlineOk l = true := fun l hl => hall l (by rw [hc]; simp [hl])
      have hlastts : ∀ l ∈ ts.getLast?, l.kind ≠ 1 := by
        intro l hl
        apply hlast l
        rw [hc]
        cases ts with
        | nil => cases hl
        | cons a as => rw [List.getLast?_cons_cons]; exact hl
      have he : expectedFV f = .formatted (some (Model.Debcon.joinNl (t.content :: ts.map decodeLine))) := by
        simp [expectedFV, hk, hfe, hc, joinNl_eq, hdect]
      have hraw : rawVal (canonField f) = Model.Debcon.joinNl (t.content :: ts.map rawLine) := by
        simp [canonField, hk, hfe, hc, rawVal]
      rw [he, hraw]
      exact dumps_formatted_text _ _ (plain_noB _ hcpl) hcne' (nonblank_trimmed _ hcne' hctr) hallts hlastts
  · have hfie : f.first.isEmpty = false := by cases hff : f.first <;> simp_all
    have hbody : bodyOk f.conts = true := by simpa [hfie] using hblock
    simp only [bodyOk, Bool.and_eq_true] at hbody
    have hlast := last_of_match _ hbody.2
    have he : expectedFV f = .formatted (some (Model.Debcon.joinNl (f.first :: f.conts.map decodeLine))) := by
      simp [expectedFV, hk, hfie, joinNl_eq]
    have hraw : rawVal (canonField f) = Model.Debcon.joinNl (f.first :: f.conts.map rawLine) := by
      simp [canonField, hk, hfie, rawVal]
    rw [he, hraw]
    exact dumps_formatted_text _ _ (plain_noB _ hpl) hfe (nonblank_trimmed _ hfe htrim) hall hlast

/-- **every typed field is rendered as the raw value of its canonical field** -/
theorem dumps_eq (f : Field) (h : fieldOk f = true) (h5 : f.kind ≠ 5) : dumps (expectedFV f) = rawVal (canonField f) := by
  rcases kind_cases f h with hk | hk | hk | hk | hk | hk | hk
  · exact dumps_single f hk h
  · exact dumps_wsSep f hk
  · exact dumps_copyright f hk h
  · exact dumps_license f hk h
  · exact dumps_formatted f hk h
  · exact absurd hk h5
  · exact dumps_lineSep f hk h

/-! ### the canonical name is a name of the same field -/

theorem class_table : ∀ n ∈ List.range 128,
    isAsciiAlpha (lowerAsciiChar (Char.ofNat n)) = isAsciiAlpha (Char.ofNat n) ∧
    isAsciiAlnum (lowerAsciiChar (Char.ofNat n)) = isAsciiAlnum (Char.ofNat n) := by
  decide +kernel

theorem class_facts (c : Char) :
    isAsciiAlpha (lowerAsciiChar c) = isAsciiAlpha c ∧ isAsciiAlnum (lowerAsciiChar c) = isAsciiAlnum c := by
  by_cases h : c.toNat < 128
  · have := class_table c.toNat (by simpa using h)
    rwa [Char.ofNat_toNat] at this
  · have hu : isAsciiUpper c = false := by
      cases hc : isAsciiUpper c with
      | false => rfl
      | true => have := (Props.C19.upper_iff c).mp hc; omega
    simp [lowerAsciiChar, hu]

def licenceS : Str := "licence".toList
def licenseS : Str := "license".toList

theorem normLabel_def (s : Str) : normLabel s = if lowerAscii s = licenceS then licenseS else lowerAscii s := rfl
theorem license_ne : licenseS ≠ licenceS := by decide
theorem lower_licenseS : lowerAscii licenseS = licenseS := by decide

theorem lower_normLabel (s : Str) : lowerAscii (normLabel s) = normLabel s := by
  rw [normLabel_def]
  by_cases h : lowerAscii s = licenceS
  · rw [if_pos h]; exact lower_licenseS
  · rw [if_neg h]; exact Props.C19.lowerAscii_lower s

theorem normLabel_ne_licence (s : Str) : normLabel s ≠ licenceS := by
  rw [normLabel_def]
  by_cases h : lowerAscii s = licenceS
  · rw [if_pos h]; exact license_ne
  · rw [if_neg h]; exact h

theorem lower_canonLabel (f : Field) : lowerAscii (canonLabel f) = normLabel f.label := by
  unfold canonLabel
  rw [lowerAscii_normalizeName, lower_normLabel]

theorem normLabel_canon (f : Field) : normLabel (canonLabel f) = normLabel f.label := by
  rw [normLabel_def (canonLabel f), lower_canonLabel, if_neg (normLabel_ne_licence f.label)]

theorem all_lower (p : Char → Bool) (hp : ∀ c, p (lowerAsciiChar c) = p c) (s : Str) : (lowerAscii s).all p = s.all p := by
  unfold lowerAscii
  induction s with
  | nil => rfl
  | cons c cs ih => simp only [List.map_cons, List.all_cons, hp, ih]

theorem headP_lower (p : Char → Bool) (hp : ∀ c, p (lowerAsciiChar c) = p c) (s : Str) : headP p (lowerAscii s) = headP p s := by
  cases s with
  | nil => rfl
  | cons c cs => simp [lowerAscii, headP, hp]

theorem canon_label_shape (f : Field) (h : labelOk f = true) :
    headP isAsciiAlpha (canonLabel f) = true ∧ (canonLabel f).all (fun c => isAsciiAlnum c || c == '-') = true := by
  have hP : ∀ c, (fun c => isAsciiAlnum c || c == '-') (lowerAsciiChar c) = (fun c => isAsciiAlnum c || c == '-') c := by
    intro c
    simp only [(class_facts c).2, (Props.C19.case_facts c).2.2.2.2.1]
  have hA : ∀ c, isAsciiAlpha (lowerAsciiChar c) = isAsciiAlpha c := fun c => (class_facts c).1
  have h1 := lower_canonLabel f
  simp only [labelOk, Bool.and_eq_true] at h
  obtain ⟨⟨hhead, hall⟩, _⟩ := h
  -- the normalised label has the shape of the label
  have hn : headP isAsciiAlpha (normLabel f.label) = true ∧ (normLabel f.label).all (fun c => isAsciiAlnum c || c == '-') = true := by
    rw [normLabel_def]
    by_cases hl : lowerAscii f.label = licenceS
    · rw [if_pos hl]; exact ⟨by decide, by decide⟩
    · rw [if_neg hl]
      exact ⟨by rw [headP_lower _ hA]; exact hhead, by rw [all_lower _ hP]; exact hall⟩
  rw [← h1, headP_lower _ hA, all_lower _ hP] at hn
  exact hn

/-! ### the canonical field is a field of the grammar spelling the same value -/

theorem canon_kind (f : Field) : (canonField f).kind = f.kind := by
  unfold canonField
  split
  · rename_i h; exact h.symm
  · rename_i h; exact h.symm
  · rename_i h
    split
    · split <;> exact h.symm
    · exact h.symm
  · rfl

theorem canon_label (f : Field) : (canonField f).label = canonLabel f := by
  unfold canonField
  split
  · rfl
  · rfl
  · split
    · split <;> rfl
    · rfl
  · rfl

theorem labelOk_canon (f : Field) (h : labelOk f = true) : labelOk (canonField f) = true := by
  have hs := canon_label_shape f h
  simp only [labelOk, Bool.and_eq_true] at h
  simp only [labelOk, canon_label, canon_kind, normLabel_canon, Bool.and_eq_true]
  exact ⟨hs, h.2⟩

theorem dropWhile_sp_id (s : Str) (h : headP isSpace s = false) : s.dropWhile (· == ' ') = s := by
  cases s with
  | nil => rfl
  | cons c cs =>
    have : (c == ' ') = false := by
      cases hc : c == ' ' with
      | false => rfl
      | true =>
        have : c = ' ' := by simpa using hc
        subst this
        simp [headP] at h
        revert h; decide
    simp [List.dropWhile_cons, this]

theorem dropWhile_replicate (k : Nat) (s : Str) (h : headP isSpace s = false) :
    (List.replicate k ' ' ++ s).dropWhile (· == ' ') = s := by
  induction k with
  | zero => exact dropWhile_sp_id s h
  | succ k ih => simp [List.replicate_succ, List.dropWhile_cons, ih]

theorem ss_head (s : Str) (h : SS s) : headP isSpace s = false := by
  have := h.tr
  simp only [trimmed, Bool.and_eq_true, Bool.not_eq_true'] at this
  exact this.1

/-- a word of a single-spaced line -/
theorem word_facts (s w : Str) (h : SS s) (hw : w ∈ splitChar ' ' s) :
    singleSpaced w = true ∧ plain w = true ∧ ' ' ∉ w ∧ headP isSpace w = false := by
  have hne := h.pieces w hw
  have hnosp : ' ' ∉ w := splitChar_no_sep ' ' s w hw
  have hsub : ∀ c ∈ w, c ∈ s := mem_of_mem_splitChar ' ' s w hw
  have hpl : plain w = true := by
    have := h.pl
    simp only [plain, List.all_eq_true] at this ⊢
    exact fun c hc => this c (hsub c hc)
  have hns : ∀ c ∈ w, isSpace c = false := by
    intro c hc
    cases hs : isSpace c with
    | false => rfl
    | true =>
      have := h.onlySp c (hsub c hc) hs
      subst this
      exact absurd hc hnosp
  have hhead : headP isSpace w = false := by
    cases w with
    | nil => rfl
    | cons c cs => simpa [headP] using hns c (by simp)
  have hlast : lastP isSpace w = false := by
    cases hl : lastP isSpace w with
    | false => rfl
    | true =>
      obtain ⟨a, c, e, hc⟩ := lastP_mem hl
      have := hns c (by rw [e]; simp)
      rw [this] at hc; cases hc
  refine ⟨?_, hpl, hnosp, hhead⟩
  simp only [singleSpaced, Bool.and_eq_true, Bool.not_eq_true', List.isEmpty_eq_false_iff, List.all_eq_true, trimmed,
    Bool.or_eq_true, beq_iff_eq]
  refine ⟨⟨⟨⟨hne, hpl⟩, hhead, hlast⟩, ?_⟩, ?_⟩
  · intro p hp
    rw [splitChar_not_mem ' ' w hnosp] at hp
    simp at hp; subst hp
    exact hne
  · intro c hc; left; exact hns c hc

theorem words_facts (f : Field) (hk : f.kind = 1) (h : fieldOk f = true) :
    ∀ w ∈ wordsOf f, singleSpaced w = true ∧ plain w = true ∧ ' ' ∉ w ∧ headP isSpace w = false := by
  simp only [fieldOk, hk, Bool.and_eq_true, List.all_eq_true] at h
  obtain ⟨_, hfirst, hconts⟩ := h
  intro w hw
  unfold wordsOf at hw
  rcases List.mem_append.mp hw with h1 | h1
  · exact word_facts _ _ (ss_of _ hfirst) h1
  · obtain ⟨l, hl, hwl⟩ := List.mem_flatMap.mp h1
    exact word_facts _ _ (item_facts l (hconts l hl)).ss hwl

theorem itemText_word (w : Str) (h : headP isSpace w = false) : itemText ⟨3, w⟩ = w := dropWhile_sp_id w h

theorem itemText_stmtLine (l : TLine) (h : headP isSpace (itemText l) = false) : itemText (stmtLine l) = itemText l := by
  unfold stmtLine
  exact dropWhile_replicate 10 _ h

theorem plain_append (a b : Str) (ha : plain a = true) (hb : plain b = true) : plain (a ++ b) = true := by
  simp only [plain, List.all_append, Bool.and_eq_true] at *
  exact ⟨ha, hb⟩

theorem plain_spaces (k : Nat) : plain (List.replicate k ' ') = true := by
  induction k with
  | zero => rfl
  | succ k ih =>
    simp only [List.replicate_succ, plain, List.all_cons, Bool.and_eq_true] at ih ⊢
    exact ⟨by decide, ih⟩

theorem canon_fieldOk (f : Field) (h : fieldOk f = true) : fieldOk (canonField f) = true := by
  have hlab : labelOk (canonField f) = true := by
    apply labelOk_canon
    simp only [fieldOk, Bool.and_eq_true] at h
    exact h.1.1.1
  have hck := canon_kind f
  rcases kind_cases f h with hk | hk | hk | hk | hk | hk | hk
  · have e : canonField f = ⟨canonLabel f, f.kind, f.first, f.conts⟩ := by simp [canonField, hk]
    rw [e] at hlab ⊢
    simp only [fieldOk, hk, Bool.and_eq_true] at h ⊢
    rw [hk] at hlab
    exact ⟨⟨⟨hlab, h.1.1.2⟩, h.1.2⟩, h.2⟩
  · -- white-space list
    have hw := words_facts f hk h
    rw [hk] at hck
    cases hws : wordsOf f with
    | nil => exact absurd hws (words_ne f)
    | cons w ws =>
      have e : canonField f = ⟨canonLabel f, 1, w, ws.map fun w => ⟨3, w⟩⟩ := by simp [canonField, hk, hws]
      rw [e] at hlab ⊢
      obtain ⟨hss, hpl, _, _⟩ := hw w (by rw [hws]; simp)
      have hs := ss_of _ hss
      simp only [fieldOk, Bool.and_eq_true, List.all_eq_true]
      refine ⟨⟨⟨hlab, hpl⟩, hs.tr⟩, hss, ?_⟩
      intro l hl
      obtain ⟨v, hv, rfl⟩ := List.mem_map.mp hl
      obtain ⟨hss', hpl', _, hh'⟩ := hw v (by rw [hws]; simp [hv])
      simp only [itemOk, Bool.or_eq_true, Bool.and_eq_true, beq_iff_eq]
      right
      refine ⟨⟨trivial, hpl'⟩, ?_⟩
      rw [itemText_word v hh']; exact hss'
  · -- copyright
    have e : canonField f = ⟨canonLabel f, 2, f.first, f.conts.map stmtLine⟩ := by simp [canonField, hk]
    rw [e] at hlab ⊢
    simp only [fieldOk, hk, Bool.and_eq_true, List.all_eq_true] at h ⊢
    refine ⟨⟨⟨hlab, h.1.1.2⟩, h.1.2⟩, h.2.1, ?_⟩
    intro l hl
    obtain ⟨u, hu, rfl⟩ := List.mem_map.mp hl
    have hf := item_facts u (h.2.2 u hu)
    simp only [itemOk, Bool.or_eq_true, Bool.and_eq_true, beq_iff_eq]
    right
    refine ⟨⟨rfl, ?_⟩, ?_⟩
    · exact plain_append _ _ (plain_spaces 10) hf.ss.pl
    · rw [itemText_stmtLine u (ss_head _ hf.ss)]
      simp only [singleSpaced, Bool.and_eq_true, Bool.not_eq_true', List.isEmpty_eq_false_iff, List.all_eq_true,
        Bool.or_eq_true, beq_iff_eq]
      refine ⟨⟨⟨⟨hf.ss.ne, hf.ss.pl⟩, hf.ss.tr⟩, hf.ss.pieces⟩, ?_⟩
      intro c hc
      cases hs : isSpace c with
      | false => left; rfl
      | true => right; exact hf.ss.onlySp c hc hs
  · have e : canonField f = ⟨canonLabel f, f.kind, f.first, f.conts⟩ := by simp [canonField, hk]
    rw [e] at hlab ⊢
    simp only [fieldOk, hk, Bool.and_eq_true] at h ⊢
    rw [hk] at hlab
    exact ⟨⟨⟨hlab, h.1.1.2⟩, h.1.2⟩, h.2⟩
  · -- formatted text
    have hall := formatted_conts_ok f hk h
    by_cases hfe : f.first = []
    · simp only [fieldOk, hk, Bool.and_eq_true, Bool.not_eq_true', Bool.or_eq_true, List.isEmpty_eq_false_iff] at h
      obtain ⟨_, hblock, hsome⟩ := h
      have hblock : blockOk f.conts = true := by simpa [hfe] using hblock
      obtain ⟨_, hhead, hlast⟩ := block_parts _ hblock
      have hcne : f.conts ≠ [] := by
        rcases hsome with h | h
        · exact absurd hfe h
        · exact h
      cases hc : f.conts with
      | nil => exact absurd hc hcne
      | cons t ts =>
        have hk0 : t.kind = 0 := hhead t (by rw [hc]; rfl)
        obtain ⟨hcne', hcpl, hctr, _, _⟩ := kind0_parts t hk0 (hall t (by rw [hc]; simp))
        have e : canonField f = ⟨canonLabel f, 4, t.content, ts⟩ := by simp [canonField, hk, hfe, hc]
        rw [e] at hlab ⊢
        have hcie : t.content.isEmpty = false := by cases hcc : t.content <;> simp_all
        simp only [fieldOk, hcie, Bool.false_eq_true, if_false, Bool.not_false, Bool.true_or, Bool.and_true, Bool.and_eq_true,
          bodyOk, List.all_eq_true]
        refine ⟨⟨⟨hlab, hcpl⟩, hctr⟩, fun l hl => hall l (by rw [hc]; simp [hl]), ?_⟩
        cases hg : ts.getLast? with
        | none => rfl
        | some u =>
          have := hlast u (by rw [hc]; cases ts with
            | nil => cases hg
            | cons a as => rw [List.getLast?_cons_cons]; exact hg)
          simpa using this
    · have hfie : f.first.isEmpty = false := by cases hff : f.first <;> simp_all
      have e : canonField f = ⟨canonLabel f, f.kind, f.first, f.conts⟩ := by simp [canonField, hk, hfie]
      rw [e] at hlab ⊢
      simp only [fieldOk, hk, Bool.and_eq_true] at h ⊢
      rw [hk] at hlab
      exact ⟨⟨⟨hlab, h.1.1.2⟩, h.1.2⟩, h.2⟩
  · have e : canonField f = ⟨canonLabel f, f.kind, f.first, f.conts⟩ := by simp [canonField, hk]
    rw [e] at hlab ⊢
    simp only [fieldOk, hk, Bool.and_eq_true] at h ⊢
    rw [hk] at hlab
    exact ⟨⟨⟨hlab, h.1.1.2⟩, h.1.2⟩, h.2⟩
  · have e : canonField f = ⟨canonLabel f, f.kind, f.first, f.conts⟩ := by simp [canonField, hk]
    rw [e] at hlab ⊢
    simp only [fieldOk, hk, Bool.and_eq_true] at h ⊢
    rw [hk] at hlab
    exact ⟨⟨⟨hlab, h.1.1.2⟩, h.1.2⟩, h.2⟩

theorem flatMap_single_words (ws : List Str) (h : ∀ w ∈ ws, ' ' ∉ w ∧ headP isSpace w = false) :
    (ws.map fun w => (⟨3, w⟩ : TLine)).flatMap (fun l => splitChar ' ' (itemText l)) = ws := by
  induction ws with
  | nil => rfl
  | cons w ws ih =>
    simp only [List.map_cons, List.flatMap_cons]
    rw [itemText_word w (h w (by simp)).2, splitChar_not_mem ' ' w (h w (by simp)).1, ih (fun v hv => h v (by simp [hv]))]
    rfl

theorem canon_expected (f : Field) (h : fieldOk f = true) (h5 : f.kind ≠ 5) : expectedFV (canonField f) = expectedFV f := by
  rcases kind_cases f h with hk | hk | hk | hk | hk | hk | hk
  · simp [canonField, hk, expectedFV]
  · have hw := words_facts f hk h
    cases hws : wordsOf f with
    | nil => exact absurd hws (words_ne f)
    | cons w ws =>
      have e : canonField f = ⟨canonLabel f, 1, w, ws.map fun w => ⟨3, w⟩⟩ := by simp [canonField, hk, hws]
      have he : expectedFV f = .wsSep (w :: ws) := by simp [expectedFV, hk, ← hws, wordsOf]
      rw [e, he]
      simp only [expectedFV]
      rw [splitChar_not_mem ' ' w (hw w (by rw [hws]; simp)).2.2.1,
        flatMap_single_words ws (fun v hv => ⟨(hw v (by rw [hws]; simp [hv])).2.2.1, (hw v (by rw [hws]; simp [hv])).2.2.2⟩)]
      rfl
  · have e : canonField f = ⟨canonLabel f, 2, f.first, f.conts.map stmtLine⟩ := by simp [canonField, hk]
    rw [e]
    simp only [fieldOk, hk, Bool.and_eq_true, List.all_eq_true] at h
    simp only [expectedFV, hk, List.map_map]
    congr 3
    apply List.map_congr_left
    intro l hl
    simp only [Function.comp]
    rw [itemText_stmtLine l (ss_head _ (item_facts l (h.2.2 l hl)).ss)]
  · simp [canonField, hk, expectedFV]
  · by_cases hfe : f.first = []
    · have hall := formatted_conts_ok f hk h
      simp only [fieldOk, hk, Bool.and_eq_true, Bool.not_eq_true', Bool.or_eq_true, List.isEmpty_eq_false_iff] at h
      obtain ⟨_, hblock, hsome⟩ := h
      have hblock : blockOk f.conts = true := by simpa [hfe] using hblock
      obtain ⟨_, hhead, _⟩ := block_parts _ hblock
      have hcne : f.conts ≠ [] := by
        rcases hsome with h | h
        · exact absurd hfe h
        · exact h
      cases hc : f.conts with
      | nil => exact absurd hc hcne
      | cons t ts =>
        have hk0 : t.kind = 0 := hhead t (by rw [hc]; rfl)
        obtain ⟨hcne', _, _, _, hdect⟩ := kind0_parts t hk0 (hall t (by rw [hc]; simp))
        have hcie : t.content.isEmpty = false := by cases hcc : t.content <;> simp_all
        simp [canonField, hk, hfe, hc, expectedFV, hcie, hdect]
    · have hfie : f.first.isEmpty = false := by cases hff : f.first <;> simp_all
      simp [canonField, hk, hfie, expectedFV]
  · exact absurd hk h5
  · simp [canonField, hk, expectedFV]

theorem canon_first_ne (f : Field) (h : fieldOk f = true) : (canonField f).first ≠ [] := by
  rcases kind_cases f h with hk | hk | hk | hk | hk | hk | hk
  · simp only [fieldOk, hk, Bool.and_eq_true, Bool.not_eq_true', List.isEmpty_eq_false_iff] at h
    simpa [canonField, hk] using h.2.1
  · have hw := words_facts f hk h
    cases hws : wordsOf f with
    | nil => exact absurd hws (words_ne f)
    | cons w ws =>
      have : (canonField f).first = w := by simp [canonField, hk, hws]
      rw [this]
      exact (ss_of _ (hw w (by rw [hws]; simp)).1).ne
  · simp only [fieldOk, hk, Bool.and_eq_true] at h
    simpa [canonField, hk] using (ss_of _ h.2.1).ne
  · simp only [fieldOk, hk, Bool.and_eq_true, Bool.not_eq_true', List.isEmpty_eq_false_iff] at h
    simpa [canonField, hk] using h.2.1
  · by_cases hfe : f.first = []
    · have hall := formatted_conts_ok f hk h
      simp only [fieldOk, hk, Bool.and_eq_true, Bool.not_eq_true', Bool.or_eq_true, List.isEmpty_eq_false_iff] at h
      obtain ⟨_, hblock, hsome⟩ := h
      have hblock : blockOk f.conts = true := by simpa [hfe] using hblock
      obtain ⟨_, hhead, _⟩ := block_parts _ hblock
      have hcne : f.conts ≠ [] := by
        rcases hsome with h | h
        · exact absurd hfe h
        · exact h
      cases hc : f.conts with
      | nil => exact absurd hc hcne
      | cons t ts =>
        have hk0 : t.kind = 0 := hhead t (by rw [hc]; rfl)
        obtain ⟨hcne', _, _, _, _⟩ := kind0_parts t hk0 (hall t (by rw [hc]; simp))
        simpa [canonField, hk, hfe, hc] using hcne'
    · have hfie : f.first.isEmpty = false := by cases hff : f.first <;> simp_all
      simpa [canonField, hk, hfie] using hfe
  · simp only [fieldOk, hk, Bool.and_eq_true, Bool.not_eq_true', List.isEmpty_eq_false_iff] at h
    simpa [canonField, hk] using h.2.1
  · simp only [fieldOk, hk, Bool.and_eq_true, Bool.not_eq_true', List.isEmpty_eq_false_iff] at h
    simpa [canonField, hk] using h.2.1

theorem canon_extra (f : Field) (hk : f.kind = 5) : (canonField f).first = f.first ∧ (canonField f).conts = f.conts := by
  simp [canonField, hk]

end Props.C13F
