/-
C13 — the fixpoint, document level.
-/
import DebInspector.Thm.C13P

namespace Props.C13D
open Py Model.Deb822 Model.Debcon Model.Copyright Props.Dep5 Props.C09 Props.C09G Props.C13F Props.C13P Proofs.Splitlines

/-! ### the parse of a document of the grammar -/

theorem wf_parts (d : Doc) (hw : wf d = true) :
    d.paras ≠ [] ∧ (∀ p ∈ d.paras, paraOk p = true) ∧
    (match d.paras.head? with | some p => paraKind p == some Kind.header | none => false) = true ∧
    (∀ p ∈ d.paras.tail, paraKind p ≠ some Kind.header) ∧
    d.seps.length = d.paras.length ∧ (∀ n ∈ d.seps, n ≥ 1) ∧ d.text = render d := by
  simp only [wf, Bool.and_eq_true, List.all_eq_true, Bool.not_eq_true', List.isEmpty_eq_false_iff, beq_iff_eq,
    decide_eq_true_eq, bne_iff_ne, ne_eq] at hw
  obtain ⟨⟨⟨⟨⟨⟨hne, hparas⟩, hhead⟩, htail⟩, hlen⟩, hseps⟩, htext⟩ := hw
  exact ⟨hne, hparas, hhead, htail, hlen, hseps, htext⟩

theorem fromText_spells (d : Doc) (hw : wf d = true) :
    ∃ ps, fromText d.text = .ok ps ∧ All2 SpellsP d.paras ps := by
  obtain ⟨_, hparas, _⟩ := wf_parts d hw
  obtain ⟨ps, hps, hall⟩ := mapExcept_groups d.paras hparas (parse d.text) (Props.C09D.parse_spells d hw)
  obtain ⟨hk1, _, _⟩ := spellsP_kinds hall
  refine ⟨ps, ?_, hall⟩
  unfold fromText fromFieldsGroups
  simp only [hps, mergeUnknown_id ps hk1, foldLicense_id ps hk1]

/-! ### the canonical document -/

def kindOf (p : Dep5.Para) : Kind := (paraKind p).getD .catchall

def canonParas (paras : List Dep5.Para) : List Dep5.Para := paras.map fun p => canonPara (kindOf p) p

def ones (n : Nat) : List Nat := List.replicate n 1

def canonDoc (d : Doc) : Doc :=
  ⟨canonParas d.paras, ones d.paras.length, renderAux (canonParas d.paras) (ones d.paras.length)⟩

def noMultiExtraDoc (d : Doc) : Prop := ∀ p ∈ d.paras, noMultiExtra p

theorem kindOf_eq (p : Dep5.Para) (K : Kind) (hK : paraKind p = some K) : kindOf p = K := by
  simp [kindOf, hK]

theorem renderAux_ones (p : Dep5.Para) (rest : List Dep5.Para) :
    renderAux (p :: rest) (ones (rest.length + 1)) = joinBlank ((p :: rest).map renderPara) ++ ['\n'] := by
  induction rest generalizing p with
  | nil => rfl
  | cons q rest ih =>
    have e : ones ((q :: rest).length + 1) = 1 :: ones (rest.length + 1) := by
      simp [ones, List.replicate_succ]
    rw [e]
    simp only [renderAux, List.headD_cons, List.tail_cons, List.map_cons, joinBlank]
    rw [ih q]
    simp [List.replicate]

/-- the rendering of the object is the text of the canonical document -/
theorem docDumps_eq (paras : List Dep5.Para) (ps : List Model.Copyright.Para) (hall : All2 SpellsP paras ps)
    (hx : ∀ p ∈ paras, noMultiExtra p) (hne : paras ≠ []) :
    docDumps ps = .ok (renderAux (canonParas paras) (ones paras.length)) := by
  have hmap : mapExcept paraDumps ps = .ok ((canonParas paras).map renderPara) := by
    clear hne
    induction hall with
    | nil => rfl
    | @cons p q ps0 qs0 hpq _ ih =>
      obtain ⟨hpo, K, hK, hKne, hqk, hqf, hqe⟩ := hpq
      have h1 := paraDumps_eq p K hpo hK hKne (hx p (by simp)) q hqk hqf hqe
      have h2 := ih (fun p' hp' => hx p' (by simp [hp']))
      simp only [mapExcept, h1, h2, canonParas, List.map_cons, kindOf_eq p K hK]
  unfold docDumps
  rw [hmap]
  cases hp : paras with
  | nil => exact absurd hp hne
  | cons p rest =>
    simp only [canonParas, List.map_cons, List.length_cons]
    have := renderAux_ones (canonPara (kindOf p) p) (rest.map fun p => canonPara (kindOf p) p)
    rw [List.length_map] at this
    rw [this]
    rfl

theorem wf_canon (d : Doc) (hw : wf d = true) : wf (canonDoc d) = true := by
  obtain ⟨hne, hparas, hhead, htail, _, _, _⟩ := wf_parts d hw
  have hk : ∀ p ∈ d.paras, ∃ K, paraKind p = some K ∧ K ≠ Kind.catchall ∧ kindOf p = K := by
    intro p hp
    obtain ⟨K, hK, hKne⟩ := paraKind_some p (hparas p hp)
    exact ⟨K, hK, hKne, kindOf_eq p K hK⟩
  have hkind : ∀ p ∈ d.paras, paraKind (canonPara (kindOf p) p) = paraKind p := by
    intro p hp
    obtain ⟨K, hK, hKne, hko⟩ := hk p hp
    rw [hko, paraKind_canon p K (hparas p hp) hK hKne, hK]
  simp only [wf, canonDoc, Bool.and_eq_true, List.all_eq_true, Bool.not_eq_true', List.isEmpty_eq_false_iff, beq_iff_eq,
    decide_eq_true_eq, bne_iff_ne, ne_eq]
  refine ⟨⟨⟨⟨⟨⟨?_, ?_⟩, ?_⟩, ?_⟩, ?_⟩, ?_⟩, rfl⟩
  · unfold canonParas; simpa using hne
  · intro P hP
    obtain ⟨p, hp, rfl⟩ := List.mem_map.mp hP
    obtain ⟨K, hK, hKne, hko⟩ := hk p hp
    rw [hko]
    exact paraOk_canon p K (hparas p hp) hK hKne
  · cases hd : d.paras with
    | nil => exact absurd hd hne
    | cons p rest =>
      rw [hd] at hhead
      simp only [List.head?_cons] at hhead
      simp only [canonParas, List.map_cons, List.head?_cons]
      rw [hkind p (by rw [hd]; simp)]
      exact hhead
  · intro P hP
    have : (canonParas d.paras).tail = d.paras.tail.map fun p => canonPara (kindOf p) p := by
      unfold canonParas; cases d.paras <;> rfl
    rw [this] at hP
    obtain ⟨p, hp, rfl⟩ := List.mem_map.mp hP
    rw [hkind p (List.mem_of_mem_tail hp)]
    exact htail p hp
  · simp [ones, canonParas]
  · intro n hn
    have := List.eq_of_mem_replicate hn
    omega

/-! ### parsing the rendering -/

theorem All2.of_map {α β γ} {R : β → γ → Prop} (f : α → β) (as : List α) (cs : List γ) (h : All2 R (as.map f) cs) :
    All2 (fun a c => R (f a) c) as cs := by
  induction as generalizing cs with
  | nil => cases h; exact All2.nil
  | cons a as ih =>
    cases h with
    | cons h1 h2 => exact All2.cons h1 (ih _ h2)

theorem All2.imp_mem {α γ} {R S : α → γ → Prop} (as : List α) (cs : List γ) (h : All2 R as cs)
    (himp : ∀ a ∈ as, ∀ c, R a c → S a c) : All2 S as cs := by
  induction h with
  | nil => exact All2.nil
  | @cons a c as0 cs0 h1 _ ih =>
    exact All2.cons (himp a (by simp) c h1) (ih (fun a' ha' => himp a' (by simp [ha'])))

theorem spells_of_canon (p : Dep5.Para) (hp : paraOk p = true) (q : Model.Copyright.Para)
    (h : SpellsP (canonPara (kindOf p) p) q) : SpellsP p q := by
  obtain ⟨K, hK, hKne⟩ := paraKind_some p hp
  rw [kindOf_eq p K hK] at h
  obtain ⟨_, K', hK', _, hqk, hqf, hqe⟩ := h
  have : K' = K := by
    have := paraKind_canon p K hp hK hKne
    rw [this] at hK'; cases hK'; rfl
  subst this
  obtain ⟨e1, e2⟩ := paraOf_canon p K' hp hK hKne
  exact ⟨hp, K', hK, hKne, hqk, by rw [hqf, e1], by rw [hqe, e2]⟩

/-- two paragraph objects that spell the same paragraph have the same class and dictionary form -/
theorem kd_unique (p : Dep5.Para) (hx : noMultiExtra p) (q q' : Model.Copyright.Para) (h : SpellsP p q) (h' : SpellsP p q') :
    Props.C13.kd q = Props.C13.kd q' := by
  obtain ⟨hp, K, hK, hKne, hqk, hqf, hqe⟩ := h
  obtain ⟨_, K', hK', _, hqk', hqf', hqe'⟩ := h'
  have : K' = K := by rw [hK] at hK'; cases hK'; rfl
  subst this
  unfold Props.C13.kd
  rw [hqk, hqk', toDict_eq p K' hp hK hKne hx q hqf hqe, toDict_eq p K' hp hK hKne hx q' hqf' hqe']

theorem kd_all (paras : List Dep5.Para) (ps qs : List Model.Copyright.Para) (hx : ∀ p ∈ paras, noMultiExtra p)
    (h1 : All2 SpellsP paras ps) (h2 : All2 SpellsP paras qs) : qs.map Props.C13.kd = ps.map Props.C13.kd := by
  induction h1 generalizing qs with
  | nil => cases h2; rfl
  | @cons p q ps0 qs0 hpq _ ih =>
    cases h2 with
    | cons hpq' hrest =>
      simp only [List.map_cons]
      rw [kd_unique p (hx p (by simp)) q _ hpq hpq', ih _ (fun p' hp' => hx p' (by simp [hp'])) hrest]

/-- **render → parse → render**: the rendering of the object of a document of the grammar is the text of its
canonical document; parsing it gives paragraph objects that spell the same paragraphs, and rendering those gives the
same text again -/
theorem cycle (d : Doc) (hw : wf d = true) (hx : noMultiExtraDoc d) :
    ∃ ps qs, fromText d.text = .ok ps ∧ docDumps ps = .ok (canonDoc d).text ∧
      fromText (canonDoc d).text = .ok qs ∧ docDumps qs = .ok (canonDoc d).text ∧
      All2 SpellsP d.paras ps ∧ All2 SpellsP d.paras qs := by
  obtain ⟨hne, hparas, _⟩ := wf_parts d hw
  obtain ⟨ps, hps, hall⟩ := fromText_spells d hw
  obtain ⟨qs, hqs, hallq⟩ := fromText_spells (canonDoc d) (wf_canon d hw)
  have hallq' : All2 SpellsP d.paras qs := by
    have := All2.of_map (fun p => canonPara (kindOf p) p) d.paras qs hallq
    exact All2.imp_mem _ _ this (fun p hp q h => spells_of_canon p (hparas p hp) q h)
  exact ⟨ps, qs, hps, docDumps_eq d.paras ps hall hx hne, hqs, docDumps_eq d.paras qs hallq' hx hne, hall, hallq'⟩

/-! ### the rendering has one block of lines per paragraph -/

def blockStep (l : Str) (acc : List (List Str)) : List (List Str) :=
  if isBlank l then [] :: acc else
    match acc with
    | b :: rest => (l :: b) :: rest
    | [] => [[l]]

theorem blocks_eq (t : Str) : Props.C13.blocks t = (splitLinesAscii t).foldr blockStep [[]] := rfl

theorem foldr_block (b : List Str) (hb : ∀ l ∈ b, isBlank l = false) (h : List Str) (r : List (List Str)) :
    b.foldr blockStep (h :: r) = (b ++ h) :: r := by
  induction b with
  | nil => rfl
  | cons l ls ih =>
    simp only [List.foldr_cons, ih (fun x hx => hb x (by simp [hx])), blockStep, hb l (by simp), Bool.false_eq_true,
      if_false, List.cons_append]

/-- the lines of a document whose paragraphs are separated by one empty line -/
def sepLines : List (List Str) → List Str
  | [] => []
  | [b] => b
  | b :: c :: rest => b ++ [] :: sepLines (c :: rest)

theorem blocks_sepLines (L : List (List Str)) (hne : L ≠ []) (hL : ∀ b ∈ L, ∀ l ∈ b, isBlank l = false) :
    (sepLines L).foldr blockStep [[]] = L := by
  induction L with
  | nil => exact absurd rfl hne
  | cons b rest ih =>
    cases rest with
    | nil =>
      simp only [sepLines]
      rw [foldr_block b (hL b (by simp))]
      simp
    | cons c rest' =>
      have ih' := ih (by simp) (fun x hx => hL x (by simp [hx]))
      simp only [sepLines, List.foldr_append, List.foldr_cons]
      rw [ih']
      have : blockStep [] (c :: rest') = [] :: c :: rest' := by simp [blockStep, isBlank]
      rw [this, foldr_block b (hL b (by simp))]
      simp

theorem flatMap_lines6 (p : Dep5.Para) :
    p.flatMap (fun a => Props.C06.fieldLines (Props.C09D.toField a)) = p.flatMap fieldLines := by
  induction p with
  | nil => rfl
  | cons f fs ih => simp only [List.flatMap_cons, ih, Props.C09D.fieldLines_eq6]

theorem docLines_ones (paras : List Dep5.Para) :
    Props.C06.docLines (Props.C09D.toParas paras (ones paras.length)) =
      sepLines (paras.map fun p => p.flatMap fieldLines) := by
  induction paras with
  | nil => rfl
  | cons p rest ih =>
    cases rest with
    | nil =>
      simp only [Props.C09D.toParas, Props.C06.docLines, Props.C06.paraLines, List.map_cons, List.map_nil, sepLines,
        List.flatMap_map]
      exact flatMap_lines6 p
    | cons q rest' =>
      have e : ones ((p :: q :: rest').length) = 1 :: ones ((q :: rest').length) := by
        simp [ones, List.replicate_succ]
      rw [e]
      simp only [Props.C09D.toParas, List.headD_cons, List.tail_cons, Props.C06.docLines, List.map_cons, sepLines]
      have := ih
      simp only [Props.C09D.toParas, List.map_cons] at this
      rw [this]
      simp [Props.C06.paraLines, List.flatMap_map, flatMap_lines6]

theorem noBlank_canon (d : Doc) (hw : wf d = true) :
    Props.C13.noBlankInside (canonDoc d).text d.paras.length = true := by
  have hwc := wf_canon d hw
  obtain ⟨hne, hparas, _, _, hlen, hseps, _⟩ := wf_parts (canonDoc d) hwc
  obtain ⟨hne0, _⟩ := wf_parts d hw
  have hP : (canonDoc d).paras = canonParas d.paras := rfl
  have htext : (canonDoc d).text = renderAux (canonParas d.paras) (ones (canonParas d.paras).length) := by
    simp [canonDoc, canonParas]
  rw [hP] at hne hparas
  have hlines : splitLinesAscii (canonDoc d).text = sepLines ((canonParas d.paras).map fun p => p.flatMap fieldLines) := by
    rw [htext, Props.C09D.render_eq6 _ _ (by intro n hn; have := List.eq_of_mem_replicate hn; omega) (by simp [ones]),
      Props.C06.lines_render _ true (fun q hq => (Props.C09D.toParas_facts _ _ hparas q hq).2), docLines_ones]
  have hblocks : Props.C13.blocks (canonDoc d).text = (canonParas d.paras).map fun p => p.flatMap fieldLines := by
    rw [blocks_eq, hlines]
    apply blocks_sepLines
    · intro e; exact hne (List.map_eq_nil_iff.mp e)
    · intro b hb l hl
      obtain ⟨P, hPm, rfl⟩ := List.mem_map.mp hb
      obtain ⟨f, hf, hlf⟩ := List.mem_flatMap.mp hl
      have hfo := fields_ok P (hparas P hPm) f hf
      obtain ⟨h1, h2⟩ := fieldLines_facts f hfo l hlf
      exact nonblank_of_last l h1 h2
  unfold Props.C13.noBlankInside
  simp only [hblocks]
  have hlenP : (canonParas d.paras).length = d.paras.length := by simp [canonParas]
  have hall : ((canonParas d.paras).map fun p => p.flatMap fieldLines).filter (fun b => !b.isEmpty) =
      (canonParas d.paras).map fun p => p.flatMap fieldLines := by
    rw [List.filter_eq_self]
    intro b hb
    obtain ⟨P, hPm, rfl⟩ := List.mem_map.mp hb
    have hPo := hparas P hPm
    have hPne : P ≠ [] := by
      simp only [paraOk, Bool.and_eq_true, Bool.not_eq_true', List.isEmpty_eq_false_iff] at hPo
      exact hPo.1.1.1
    cases hPP : P with
    | nil => exact absurd hPP hPne
    | cons f fs => simp [List.flatMap_cons, fieldLines]
  rw [hall]
  have hn0 : (d.paras.length == 0) = false := by
    cases hd : d.paras with
    | nil => exact absurd hd hne0
    | cons _ _ => rfl
  simp [hlenP, hn0]

/-! ### rebuilding a paragraph from its dictionary form -/

def valOf (p : Dep5.Para) (n : Str) : Str :=
  match pick p n with
  | some f => rawVal (canonField f)
  | none => []

def itemsA (p : Dep5.Para) (K : Kind) : List (Str × Str) :=
  (typedFields K).filterMap fun nc => if (valOf p nc.1).isEmpty then none else some (nc.1, valOf p nc.1)

def itemsB (p : Dep5.Para) : List (Str × Str) := (is5 p).map fun f => (fieldKey f, f.first)

theorem typed_no_hyphen : ∀ K ∈ [Kind.header, Kind.files, Kind.license], ∀ nc ∈ typedFields K,
    replaceChar '-' '_' nc.1 = nc.1 := by decide +kernel

theorem replace_idem (s : Str) : replaceChar '-' '_' (replaceChar '-' '_' s) = replaceChar '-' '_' s := by
  unfold replaceChar
  rw [List.map_map]
  apply List.map_congr_left
  intro c _
  by_cases h : c = '-'
  · subst h; decide
  · simp [h]

theorem lookup_none_of_not_mem' {β} (l : List (Str × β)) (k : Str) (h : k ∉ l.map (·.1)) : l.lookup k = none :=
  lookup_none_of_not_mem l k h

theorem nodup_reverse' {α} (l : List α) (h : l.Nodup) : l.reverse.Nodup := by
  unfold List.Nodup at h ⊢
  rw [List.pairwise_reverse]
  exact h.imp (fun hab => fun e => hab e.symm)

theorem toDict_valOf (p : Dep5.Para) (K : Kind) (hp : paraOk p = true) (hK : paraKind p = some K) (hKne : K ≠ .catchall)
    (hx : noMultiExtra p) (q : Model.Copyright.Para)
    (hqf : q.fields = (paraOf p K).fields) (hqe : q.extra = (paraOf p K).extra) :
    toDict q = ((typedFields K).map fun nc => (nc.1, XV.s (valOf p nc.1))) ++ (is5 p).map fun f => (fieldKey f, XV.s f.first) :=
  toDict_eq p K hp hK hKne hx q hqf hqe

theorem fromDict_toDict (p : Dep5.Para) (hx : noMultiExtra p) (q : Model.Copyright.Para) (h : SpellsP p q) :
    toDict (Props.C13.fromDict q.kind (toDict q)) = toDict q := by
  obtain ⟨hp, K, hK, hKne, hqk, hqf, hqe⟩ := h
  have hfo := fields_ok p hp
  have hKm := kind_mem K hKne
  have hnd := typed_nodup K hKm
  have htd := toDict_valOf p K hp hK hKne hx q hqf hqe
  -- the items read back from the dictionary
  have hitemsA : ((typedFields K).map fun nc => (nc.1, XV.s (valOf p nc.1))).filterMap Props.C13.dictItem = itemsA p K := by
    unfold itemsA
    rw [List.filterMap_map]
    apply filterMap_congr'
    intro nc hnc
    simp only [Function.comp, Props.C13.dictItem, typed_no_hyphen K hKm nc hnc]
  have hitemsB : ((is5 p).map fun f => (fieldKey f, XV.s f.first)).filterMap Props.C13.dictItem = itemsB p := by
    unfold itemsB
    rw [List.filterMap_map]
    have : ∀ l : List Field, (∀ f ∈ l, f ∈ is5 p) →
        l.filterMap (Props.C13.dictItem ∘ fun f => (fieldKey f, XV.s f.first)) = l.map fun f => (fieldKey f, f.first) := by
      intro l
      induction l with
      | nil => intro _; rfl
      | cons f fs ih =>
        intro hl
        obtain ⟨hfp, hk5⟩ := List.mem_filter.mp (hl f (by simp))
        have hk : f.kind = 5 := by simpa using hk5
        obtain ⟨hne, _, _⟩ := extra_parts f hk (hfo f hfp)
        have hie : f.first.isEmpty = false := by cases hff : f.first <;> simp_all
        simp only [List.filterMap_cons, Function.comp, Props.C13.dictItem, hie, Bool.false_eq_true, if_false, List.map_cons]
        rw [ih (fun g hg => hl g (by simp [hg]))]
        simp only [fieldKey, replace_idem]
    exact this _ (fun f hf => hf)
  have hAkeys : ∀ kv ∈ itemsA p K, ∃ nc ∈ typedFields K, kv = (nc.1, valOf p nc.1) ∧ (valOf p nc.1).isEmpty = false := by
    intro kv hkv
    unfold itemsA at hkv
    obtain ⟨nc, hnc, h⟩ := List.mem_filterMap.mp hkv
    by_cases he : (valOf p nc.1).isEmpty = true
    · simp [he] at h
    · simp only [he, Bool.false_eq_true, if_false, Option.some.injEq] at h
      exact ⟨nc, hnc, h.symm, by simpa using he⟩
  have hAin : ∀ kv ∈ itemsA p K, ((typedFields K).map (·.1)).contains kv.1 = true := by
    intro kv hkv
    obtain ⟨nc, hnc, rfl, _⟩ := hAkeys kv hkv
    exact List.contains_iff_mem.mpr (List.mem_map.mpr ⟨nc, hnc, rfl⟩)
  have hBout : ∀ kv ∈ itemsB p, ((typedFields K).map (·.1)).contains kv.1 = false := by
    intro kv hkv
    unfold itemsB at hkv
    obtain ⟨f, hf, rfl⟩ := List.mem_map.mp hkv
    obtain ⟨hfp, hk5⟩ := List.mem_filter.mp hf
    exact extra_not_known K hKne f (hfo f hfp) (by simpa using hk5)
  have hknown : (itemsA p K ++ itemsB p).filter (fun kv => ((typedFields K).map (·.1)).contains kv.1) = itemsA p K := by
    rw [List.filter_append, List.filter_eq_self.mpr hAin, List.filter_eq_nil_iff.mpr (fun kv hkv => by rw [hBout kv hkv]; exact Bool.false_ne_true)]
    simp
  have hextra : (itemsA p K ++ itemsB p).filter (fun kv => !((typedFields K).map (·.1)).contains kv.1) = itemsB p := by
    rw [List.filter_append, List.filter_eq_nil_iff.mpr (fun kv hkv => by rw [hAin kv hkv]; decide),
      List.filter_eq_self.mpr (fun kv hkv => by rw [hBout kv hkv]; rfl)]
    simp
  -- keys of A: distinct typed names
  have hAnd : ((itemsA p K).map (·.1)).Nodup := by
    have : ∀ tf : List (Str × String), (tf.map (·.1)).Nodup →
        ((tf.filterMap fun nc => if (valOf p nc.1).isEmpty then none else some (nc.1, valOf p nc.1)).map (·.1)).Sublist (tf.map (·.1)) := by
      intro tf
      induction tf with
      | nil => intro _; exact List.Sublist.slnil
      | cons nc rest ih =>
        intro hnd
        rw [List.map_cons] at hnd
        have hn := List.nodup_cons.mp hnd
        by_cases he : (valOf p nc.1).isEmpty = true
        · simp only [List.filterMap_cons, he, if_true, List.map_cons]
          exact List.Sublist.cons _ (ih hn.2)
        · simp only [List.filterMap_cons, he, Bool.false_eq_true, if_false, List.map_cons]
          exact List.Sublist.cons_cons _ (ih hn.2)
    unfold itemsA
    exact List.Nodup.sublist (this _ hnd) hnd
  -- the value read back for a typed name
  have hlook : ∀ nc ∈ typedFields K, (itemsA p K).reverse.lookup nc.1 = if (valOf p nc.1).isEmpty then none else some (valOf p nc.1) := by
    intro nc hnc
    by_cases he : (valOf p nc.1).isEmpty = true
    · rw [if_pos he]
      apply lookup_none_of_not_mem
      intro hm
      rw [List.map_reverse, List.mem_reverse] at hm
      obtain ⟨kv, hkv, hk⟩ := List.mem_map.mp hm
      obtain ⟨nc', hnc', rfl, hne'⟩ := hAkeys kv hkv
      simp only at hk
      -- two typed names with the same key are the same entry
      have : nc' = nc := by
        have h1 := lookup_mem_nodup (typedFields K) hnd nc' hnc'
        have h2 := lookup_mem_nodup (typedFields K) hnd nc hnc
        rw [hk, h2] at h1
        cases nc; cases nc'; simp only [Option.some.injEq] at h1; simp_all
      subst this
      rw [he] at hne'; cases hne'
    · rw [if_neg he]
      have hmem : (nc.1, valOf p nc.1) ∈ (itemsA p K).reverse := by
        rw [List.mem_reverse]
        unfold itemsA
        exact List.mem_filterMap.mpr ⟨nc, hnc, by simp [he]⟩
      have := lookup_mem_nodup (itemsA p K).reverse (by rw [List.map_reverse]; exact nodup_reverse' _ hAnd) _ hmem
      exact this
  -- the typed values rebuilt from what was read back render as before
  have hval : ∀ nc ∈ typedFields K,
      dumps (fromValue nc.2 (if (valOf p nc.1).isEmpty then none else some (valOf p nc.1))) = valOf p nc.1 := by
    intro nc hnc
    unfold valOf
    cases hpk : pick p nc.1 with
    | none => simpa using absent_dumps K hKm nc hnc
    | some f =>
      obtain ⟨hfp, h5, hfk, _⟩ := pick_some p K hp hK hKne nc hnc f hpk
      have hok := canon_fieldOk f (hfo f hfp)
      have hne := canon_first_ne f (hfo f hfp)
      have h1 := rawVal_ne _ hok
      simp only [h1, Bool.false_eq_true, if_false]
      -- the class of the typed name is the class of the field
      have hal := known_allowed p K hp hK f hfp h5
      have htab := (allowed_table K hKm _ hal).1
      have hlk := lookup_mem_nodup (typedFields K) hnd nc hnc
      have hkk : replaceChar '-' '_' (normLabel f.label) = nc.1 := hfk
      simp only [] at htab
      rw [hkk, hlk] at htab
      have hcls : nc.2 = clsOf f.kind := by simpa using htab
      have htr : trimmed (canonField f).first = true := by
        simp only [fieldOk, Bool.and_eq_true] at hok; exact hok.1.2
      have htv := typed_value (canonField f) hok (by rw [canon_kind]; exact h5)
      rw [lstrip_rawVal _ hne htr, canon_kind] at htv
      rw [hcls, htv, canon_expected f (hfo f hfp) h5]
      exact dumps_eq f (hfo f hfp) h5
  -- assemble
  have hBnd : ((itemsB p).map (·.1)).Nodup := by
    unfold itemsB
    rw [List.map_map]
    exact List.Nodup.sublist (List.Sublist.map _ List.filter_sublist) (keys_nodup p hp)
  have hextraFold : (itemsB p).foldl (fun d kv => lset d kv.1 (XV.s kv.2)) ([] : List (Str × XV)) = (itemsB p).map fun kv => (kv.1, XV.s kv.2) := by
    have := fold_lset_fresh (itemsB p) (·.1) (fun kv => XV.s kv.2) ([] : List (Str × XV)) hBnd (by simp)
    simpa using this
  rw [hqk]
  unfold Props.C13.fromDict
  simp only [htd, List.filterMap_append, hitemsA, hitemsB, hknown, hextra, hextraFold]
  unfold toDict
  simp only [List.map_map]
  -- the known part
  have hknownPart : (typedFields K).map ((fun nf : Str × FV => (nf.1, XV.s (dumps nf.2))) ∘ fun nc =>
      (nc.1, fromValue nc.2 ((itemsA p K).reverse.lookup nc.1))) = (typedFields K).map fun nc => (nc.1, XV.s (valOf p nc.1)) := by
    apply List.map_congr_left
    intro nc hnc
    simp only [Function.comp, hlook nc hnc, hval nc hnc]
  rw [hknownPart]
  -- the extra part
  have := fold_lset_fresh (is5 p) fieldKey (fun f => XV.s f.first)
    ((typedFields K).map fun nc => (nc.1, XV.s (valOf p nc.1)))
    (List.Nodup.sublist (List.Sublist.map _ List.filter_sublist) (keys_nodup p hp))
    (by
      intro f hf
      obtain ⟨hfp, hk5⟩ := List.mem_filter.mp hf
      have := extra_not_known K hKne f (hfo f hfp) (by simpa using hk5)
      intro hm
      simp only [List.map_map, Function.comp_def] at hm
      have hc : ((typedFields K).map (·.1)).contains (fieldKey f) = true := List.contains_iff_mem.mpr hm
      rw [this] at hc; cases hc)
  rw [← this]
  unfold itemsB
  rw [List.map_map, List.foldl_map]
  have hstep : ∀ (l : List Field) (d : List (Str × DV)), (∀ f ∈ l, f ∈ is5 p) →
      l.foldl (fun d f => lset d ((fun kv : Str × Str => (kv.1, XV.s kv.2)) ((fun f => (fieldKey f, f.first)) f)).1
        (extraOut ((fun kv : Str × Str => (kv.1, XV.s kv.2)) ((fun f => (fieldKey f, f.first)) f)).2)) d =
      l.foldl (fun d f => lset d (fieldKey f) (XV.s f.first)) d := by
    intro l
    induction l with
    | nil => intro d _; rfl
    | cons f fs ih =>
      intro d hl
      obtain ⟨hfp, hk5⟩ := List.mem_filter.mp (hl f (by simp))
      have hk : f.kind = 5 := by simpa using hk5
      obtain ⟨hne, hpl, htr⟩ := extra_parts f hk (hfo f hfp)
      have hie : f.first.isEmpty = false := by cases hff : f.first <;> simp_all
      simp only [List.foldl_cons, extraOut, hie, Bool.false_eq_true, if_false, asFormattedText_line f.first hpl hne htr]
      exact ih _ (fun g hg => hl g (by simp [hg]))
  exact hstep _ _ (fun f hf => hf)

/-! ### the property -/

theorem All2.right_mem {α β} {R : α → β → Prop} {as : List α} {bs : List β} (h : All2 R as bs) :
    ∀ b ∈ bs, ∃ a ∈ as, R a b := by
  induction h with
  | nil => intro b hb; cases hb
  | @cons a b as0 bs0 hab _ ih =>
    intro x hx
    rcases List.mem_cons.mp hx with rfl | hx
    · exact ⟨a, by simp, hab⟩
    · obtain ⟨a', ha', hr⟩ := ih x hx
      exact ⟨a', by simp [ha'], hr⟩

theorem noMulti_of (d : Doc) (h : Props.C13.hasMultilineExtra d = false) : noMultiExtraDoc d := by
  intro p hp f hf hk
  unfold Props.C13.hasMultilineExtra at h
  rw [List.any_eq_false] at h
  have := h p hp
  rw [Bool.not_eq_true, List.any_eq_false] at this
  have := this f hf
  simp only [hk, beq_self_eq_true, Bool.true_and, Bool.not_eq_true, Bool.not_eq_false', List.isEmpty_iff] at this
  exact this

/-- **C13 for every document of the grammar** whose text blocks start with a paragraph line: outside finding K1 (an
unknown field with a continuation line) the object is a fixpoint of render → parse, every paragraph is reproduced by
`from_dict(to_dict(p))`, and the rendering has exactly one block of lines per paragraph.  Documents whose text blocks
start with a verbatim line (`wf d true` but not `wf d`) are not covered: the statement is partial there. -/
theorem sound_partial (d : Doc) (hw : wf d = true) : Props.C13.holdsOnK1 d (Props.C13.model d) = true := by
  unfold Props.C13.holdsOnK1 Props.C13.holdsWith
  cases hm : Props.C13.hasMultilineExtra d with
  | true => simp
  | false =>
    have hx := noMulti_of d hm
    obtain ⟨ps, qs, hps, hd1, hqs, hd2, hall, hallq⟩ := cycle d hw hx
    have hmodel : Props.C13.model d = .ok (Props.C13.Full.mk (ps.map Props.C13.kd) (canonDoc d).text
        (qs.map Props.C13.kd) (canonDoc d).text
        (ps.map fun p => toDict (Props.C13.fromDict p.kind (toDict p)))) := by
      unfold Props.C13.model
      simp only [hps, hd1, hqs, hd2]
    rw [hmodel]
    simp only [Bool.true_and, Bool.false_or, Bool.or_eq_true, Bool.and_eq_true, beq_iff_eq, Bool.not_eq_true']
    right
    refine ⟨⟨⟨kd_all d.paras ps qs hx hall hallq, trivial⟩, ?_⟩, ?_⟩
    · rw [List.map_map]
      apply List.map_congr_left
      intro q hq
      obtain ⟨p, hp, hpq⟩ := All2.right_mem hall q hq
      simp only [Function.comp, Props.C13.kd]
      exact fromDict_toDict p (hx p hp) q hpq
    · rw [List.length_map, hall.length_eq]
      exact noBlank_canon d hw

/-- non-vacuity: a document with all field kinds, free-layout items and a text moved up to the declaration line -/
def sample : Doc :=
  let paras : List Dep5.Para := [
    [⟨"Format".toList, 0, "https://www.debian.org/doc/packaging-manuals/copyright-format/1.0/".toList, []⟩,
     ⟨"comment".toList, 4, [], [⟨0, "first".toList⟩, ⟨1, []⟩, ⟨2, "verbatim".toList⟩]⟩,
     ⟨"X-Foo".toList, 5, "bar".toList, []⟩],
    [⟨"Files".toList, 1, "a b".toList, [⟨3, "  .c".toList⟩]⟩,
     ⟨"Copyright".toList, 2, "2001 Foo".toList, [⟨3, "   Bar".toList⟩]⟩,
     ⟨"Licence".toList, 3, "MIT".toList, [⟨0, "text".toList⟩]⟩]]
  ⟨paras, [2, 1], renderAux paras [2, 1]⟩

example : wf sample = true ∧ Props.C13.hasMultilineExtra sample = false := by decide +kernel

end Props.C13D
