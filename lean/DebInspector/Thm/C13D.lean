/-
C13 — the fixpoint, document level.
-/
import DebInspector.Thm.C13P

namespace Props.C13D
open Py Model.Deb822 Model.Debcon Model.Copyright Props.Dep5 Props.C09 Props.C09G Props.C13F Props.C13P Proofs.Splitlines

/-! ### the parse of a document of the grammar -/

theorem wf_parts (d : Doc) (hw : wf d = true) :
    d.paras ≠ [] ∧ (∀ p ∈ d.paras, paraOk p = true) ∧
    (match d.paras.head? with | some p => paraKind p == some Kind.header | none => false) = true ∧
    (∀ p ∈ d.paras.tail, paraKind p ≠ some Kind.header) ∧
    d.seps.length = d.paras.length ∧ (∀ n ∈ d.seps, n ≥ 1) ∧ d.text = render d := by
  simp only [wf, Bool.and_eq_true, List.all_eq_true, Bool.not_eq_true', List.isEmpty_eq_false_iff, beq_iff_eq,
    decide_eq_true_eq, bne_iff_ne, ne_eq] at hw
  obtain ⟨⟨⟨⟨⟨⟨hne, hparas⟩, hhead⟩, htail⟩, hlen⟩, hseps⟩, htext⟩ := hw
  exact ⟨hne, hparas, hhead, htail, hlen, hseps, htext⟩

theorem fromText_spells (d : Doc) (hw : wf d = true) :
    ∃ ps, fromText d.text = .ok ps ∧ All2 SpellsP d.paras ps := by
  obtain ⟨_, hparas, _⟩ := wf_parts d hw
  obtain ⟨ps, hps, hall⟩ := mapExcept_groups d.paras hparas (parse d.text) (Props.C09D.parse_spells d hw)
  obtain ⟨hk1, _, _⟩ := spellsP_kinds hall
  refine ⟨ps, ?_, hall⟩
  unfold fromText fromFieldsGroups
  simp only [hps, mergeUnknown_id ps hk1, foldLicense_id ps hk1]

/-! ### the canonical document -/

def kindOf (p : Dep5.Para) : Kind := (paraKind p).getD .catchall

def canonParas (paras : List Dep5.Para) : List Dep5.Para := paras.map fun p => canonPara (kindOf p) p

def ones (n : Nat) : List Nat := List.replicate n 1

def canonDoc (d : Doc) : Doc :=
  ⟨canonParas d.paras, ones d.paras.length, renderAux (canonParas d.paras) (ones d.paras.length)⟩

def noMultiExtraDoc (d : Doc) : Prop := ∀ p ∈ d.paras, noMultiExtra p

theorem kindOf_eq (p : Dep5.Para) (K : Kind) (hK : paraKind p = some K) : kindOf p = K := by
  simp [kindOf, hK]

theorem renderAux_ones (p : Dep5.Para) (rest : List Dep5.Para) :
    renderAux (p :: rest) (ones (rest.length + 1)) = joinBlank ((p :: rest).map renderPara) ++ ['\n'] := by
  induction rest generalizing p with
  | nil => rfl
  | cons q rest ih =>
    have e : ones ((q :: rest).length + 1) = 1 :: ones (rest.length + 1) := by
      simp [ones, List.replicate_succ]
    rw [e]
    simp only [renderAux, List.headD_cons, List.tail_cons, List.map_cons, joinBlank]
    rw [ih q]
    simp [List.replicate]

/-- the rendering of the object is the text of the canonical document -/
theorem docDumps_eq (paras : List Dep5.Para) (ps : List Model.Copyright.Para) (hall : All2 SpellsP paras ps)
    (hx : ∀ p ∈ paras, noMultiExtra p) (hne : paras ≠ []) :
    docDumps ps = .ok (renderAux (canonParas paras) (ones paras.length)) := by
  have hmap : mapExcept paraDumps ps = .ok ((canonParas paras).map renderPara) := by
    clear hne
    induction hall with
    | nil => rfl
    | @cons p q ps0 qs0 hpq _ ih =>
      obtain ⟨hpo, K, hK, hKne, hqk, hqf, hqe⟩ := hpq
      have h1 := paraDumps_eq p K hpo hK hKne (hx p (by simp)) q hqk hqf hqe
      have h2 := ih (fun p' hp' => hx p' (by simp [hp']))
      simp only [mapExcept, h1, h2, canonParas, List.map_cons, kindOf_eq p K hK]
  unfold docDumps
  rw [hmap]
  cases hp : paras with
  | nil => exact absurd hp hne
  | cons p rest =>
    simp only [canonParas, List.map_cons, List.length_cons]
    have := renderAux_ones (canonPara (kindOf p) p) (rest.map fun p => canonPara (kindOf p) p)
    rw [List.length_map] at this
    rw [this]
    rfl

theorem wf_canon (d : Doc) (hw : wf d = true) : wf (canonDoc d) = true := by
  obtain ⟨hne, hparas, hhead, htail, _, _, _⟩ := wf_parts d hw
  have hk : ∀ p ∈ d.paras, ∃ K, paraKind p = some K ∧ K ≠ Kind.catchall ∧ kindOf p = K := by
    intro p hp
    obtain ⟨K, hK, hKne⟩ := paraKind_some p (hparas p hp)
    exact ⟨K, hK, hKne, kindOf_eq p K hK⟩
  have hkind : ∀ p ∈ d.paras, paraKind (canonPara (kindOf p) p) = paraKind p := by
    intro p hp
    obtain ⟨K, hK, hKne, hko⟩ := hk p hp
    rw [hko, paraKind_canon p K (hparas p hp) hK hKne, hK]
  simp only [wf, canonDoc, Bool.and_eq_true, List.all_eq_true, Bool.not_eq_true', List.isEmpty_eq_false_iff, beq_iff_eq,
    decide_eq_true_eq, bne_iff_ne, ne_eq]
  refine ⟨⟨⟨⟨⟨⟨?_, ?_⟩, ?_⟩, ?_⟩, ?_⟩, ?_⟩, rfl⟩
  · unfold canonParas; simpa using hne
  · intro P hP
    obtain ⟨p, hp, rfl⟩ := List.mem_map.mp hP
    obtain ⟨K, hK, hKne, hko⟩ := hk p hp
    rw [hko]
    exact paraOk_canon p K (hparas p hp) hK hKne
  · cases hd : d.paras with
    | nil => exact absurd hd hne
    | cons p rest =>
      rw [hd] at hhead
      simp only [List.head?_cons] at hhead
      simp only [canonParas, List.map_cons, List.head?_cons]
      rw [hkind p (by rw [hd]; simp)]
      exact hhead
  · intro P hP
    have : (canonParas d.paras).tail = d.paras.tail.map fun p => canonPara (kindOf p) p := by
      unfold canonParas; cases d.paras <;> rfl
    rw [this] at hP
    obtain ⟨p, hp, rfl⟩ := List.mem_map.mp hP
    rw [hkind p (List.mem_of_mem_tail hp)]
    exact htail p hp
  · simp [ones, canonParas]
  · intro n hn
    have := List.eq_of_mem_replicate hn
    omega

/-! ### parsing the rendering -/

theorem All2.of_map {α β γ} {R : β → γ → Prop} (f : α → β) (as : List α) (cs : List γ) (h : All2 R (as.map f) cs) :
    All2 (fun a c => R (f a) c) as cs := by
  induction as generalizing cs with
  | nil => cases h; exact All2.nil
  | cons a as ih =>
    cases h with
    | cons h1 h2 => exact All2.cons h1 (ih _ h2)

theorem All2.imp_mem {α γ} {R S : α → γ → Prop} (as : List α) (cs : List γ) (h : All2 R as cs)
    (himp : ∀ a ∈ as, ∀ c, R a c → S a c) : All2 S as cs := by
  induction h with
  | nil => exact All2.nil
  | @cons a c as0 cs0 h1 _ ih =>
    exact All2.cons (himp a (by simp) c h1) (ih (fun a' ha' => himp a' (by simp [ha'])))

theorem spells_of_canon (p : Dep5.Para) (hp : paraOk p = true) (q : Model.Copyright.Para)
    (h : SpellsP (canonPara (kindOf p) p) q) : SpellsP p q := by
  obtain ⟨K, hK, hKne⟩ := paraKind_some p hp
  rw [kindOf_eq p K hK] at h
  obtain ⟨_, K', hK', _, hqk, hqf, hqe⟩ := h
  have : K' = K := by
    have := paraKind_canon p K hp hK hKne
    rw [this] at hK'; cases hK'; rfl
  subst this
  obtain ⟨e1, e2⟩ := paraOf_canon p K' hp hK hKne
  exact ⟨hp, K', hK, hKne, hqk, by rw [hqf, e1], by rw [hqe, e2]⟩

/-- two paragraph objects that spell the same paragraph have the same class and dictionary form -/
theorem kd_unique (p : Dep5.Para) (hx : noMultiExtra p) (q q' : Model.Copyright.Para) (h : SpellsP p q) (h' : SpellsP p q') :
    Props.C13.kd q = Props.C13.kd q' := by
  obtain ⟨hp, K, hK, hKne, hqk, hqf, hqe⟩ := h
  obtain ⟨_, K', hK', _, hqk', hqf', hqe'⟩ := h'
  have : K' = K := by rw [hK] at hK'; cases hK'; rfl
  subst this
  unfold Props.C13.kd
  rw [hqk, hqk', toDict_eq p K' hp hK hKne hx q hqf hqe, toDict_eq p K' hp hK hKne hx q' hqf' hqe']

theorem kd_all (paras : List Dep5.Para) (ps qs : List Model.Copyright.Para) (hx : ∀ p ∈ paras, noMultiExtra p)
    (h1 : All2 SpellsP paras ps) (h2 : All2 SpellsP paras qs) : qs.map Props.C13.kd = ps.map Props.C13.kd := by
  induction h1 generalizing qs with
  | nil => cases h2; rfl
  | @cons p q ps0 qs0 hpq _ ih =>
    cases h2 with
    | cons hpq' hrest =>
      simp only [List.map_cons]
      rw [kd_unique p (hx p (by simp)) q _ hpq hpq', ih _ (fun p' hp' => hx p' (by simp [hp'])) hrest]

/-- **render → parse → render**: the rendering of the object of a document of the grammar is the text of its
canonical document; parsing it gives paragraph objects that spell the same paragraphs, and rendering those gives the
same text again -/
theorem cycle (d : Doc) (hw : wf d = true) (hx : noMultiExtraDoc d) :
    ∃ ps qs, fromText d.text = .ok ps ∧ docDumps ps = .ok (canonDoc d).text ∧
      fromText (canonDoc d).text = .ok qs ∧ docDumps qs = .ok (canonDoc d).text ∧
      All2 SpellsP d.paras ps ∧ All2 SpellsP d.paras qs := by
  obtain ⟨hne, hparas, _⟩ := wf_parts d hw
  obtain ⟨ps, hps, hall⟩ := fromText_spells d hw
  obtain ⟨qs, hqs, hallq⟩ := fromText_spells (canonDoc d) (wf_canon d hw)
  have hallq' : All2 SpellsP d.paras qs := by
    have := All2.of_map (fun p => canonPara (kindOf p) p) d.paras qs hallq
    exact All2.imp_mem _ _ this (fun p hp q h => spells_of_canon p (hparas p hp) q h)
  exact ⟨ps, qs, hps, docDumps_eq d.paras ps hall hx hne, hqs, docDumps_eq d.paras qs hallq' hx hne, hall, hallq'⟩

end Props.C13D
