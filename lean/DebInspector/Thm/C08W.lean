/-
C08 — the word-inclusion clause for every text: every word of the text appears in a key or a value of what
`get_paragraph_data` returns, and of what `get_paragraphs_data` returns.
-/
import DebInspector.Thm.C08
import DebInspector.Thm.C06
import DebInspector.Thm.C13F
import DebInspector.Thm.C17
import DebInspector.Thm.C19

namespace Props.C08W
open Py Model.Email Props.C08

/-! ### words of this property -/

def sep (c : Char) : Bool := isSpace c || c = ':'

theorem atomsAux_sep (a b cur : Str) (c : Char) (hc : sep c = true) :
    atomsAux (a ++ c :: b) cur = atomsAux a cur ++ atomsAux b [] := by
  induction a generalizing cur with
  | nil =>
    have hc' : (isSpace c || decide (c = ':')) = true := hc
    simp only [List.nil_append, atomsAux, hc', if_true]
    by_cases he : cur.isEmpty = true
    · simp [he]
    · simp [he]
  | cons x xs ih =>
    simp only [List.cons_append, atomsAux]
    by_cases hx : (isSpace x || decide (x = ':')) = true
    · simp only [hx, if_true]
      by_cases he : cur.isEmpty = true
      · simp only [he, if_true]; exact ih []
      · simp only [he, Bool.false_eq_true, if_false, List.cons_append]; rw [ih []]
    · simp only [hx, Bool.false_eq_true, if_false]
      exact ih _

theorem atoms_sep (a b : Str) (c : Char) (hc : sep c = true) : atoms (a ++ c :: b) = atoms a ++ atoms b :=
  atomsAux_sep a b [] c hc

theorem atoms_nil : atoms [] = [] := rfl

theorem atoms_cons_sep (c : Char) (b : Str) (hc : sep c = true) : atoms (c :: b) = atoms b := by
  have := atoms_sep [] b c hc
  simpa [atoms_nil] using this

theorem atoms_snoc_sep (a : Str) (c : Char) (hc : sep c = true) : atoms (a ++ [c]) = atoms a := by
  have := atoms_sep a [] c hc
  simpa [atoms_nil] using this

/-- if the first part ends with a separator (or is empty), words do not straddle the joint -/
theorem atoms_append_end (a b : Str) (h : a = [] ∨ lastP sep a = true) : atoms (a ++ b) = atoms a ++ atoms b := by
  rcases h with rfl | h
  · simp [atoms_nil]
  · obtain ⟨a', c, e, hc⟩ := lastP_mem h
    subst e
    rw [List.append_assoc, List.singleton_append, atoms_sep a' b c hc, atoms_snoc_sep a' c hc]

theorem atoms_append_start (a b : Str) (h : headP sep b = true) : atoms (a ++ b) = atoms a ++ atoms b := by
  cases b with
  | nil => simp [headP] at h
  | cons c cs =>
    simp only [headP] at h
    rw [atoms_sep a cs c h, atoms_cons_sep c cs h]

/-! ### inclusion -/

def Sub (a b : List Str) : Prop := ∀ x ∈ a, x ∈ b

theorem subset_iff (a b : List Str) : subset a b = true ↔ Sub a b := by
  simp [subset, Sub, List.all_eq_true, List.contains_iff_mem]

theorem Sub.refl (a : List Str) : Sub a a := fun _ h => h
theorem Sub.trans {a b c : List Str} (h1 : Sub a b) (h2 : Sub b c) : Sub a c := fun x hx => h2 x (h1 x hx)
theorem Sub.append {a b c : List Str} (h1 : Sub a c) (h2 : Sub b c) : Sub (a ++ b) c := by
  intro x hx
  rcases List.mem_append.mp hx with h | h
  · exact h1 x h
  · exact h2 x h
theorem Sub.left (a b : List Str) : Sub a (a ++ b) := fun _ h => List.mem_append.mpr (Or.inl h)
theorem Sub.right (a b : List Str) : Sub b (a ++ b) := fun _ h => List.mem_append.mpr (Or.inr h)
theorem Sub.nil (b : List Str) : Sub [] b := fun _ h => by cases h

def isTerm (c : Char) : Bool := c = '\n' || c = '\r'

theorem term_sep {c : Char} (h : isTerm c = true) : sep c = true := by
  simp only [isTerm, Bool.or_eq_true, decide_eq_true_eq] at h
  rcases h with rfl | rfl <;> decide

/-- the words of a piece are among the words of a text it sits in, when no word straddles its two ends -/
theorem atoms_piece (pre x post : Str)
    (h1 : pre = [] ∨ lastP sep pre = true ∨ headP sep x = true ∨ x = [])
    (h2 : post = [] ∨ headP sep post = true ∨ lastP sep x = true ∨ x = []) :
    Sub (atoms x) (atoms (pre ++ x ++ post)) := by
  by_cases hx : x = []
  · subst hx; simp [atoms_nil, Sub.nil]
  · have e1 : atoms (pre ++ x) = atoms pre ++ atoms x := by
      rcases h1 with h | h | h | h
      · subst h; simp [atoms_nil]
      · exact atoms_append_end pre x (Or.inr h)
      · exact atoms_append_start pre x h
      · exact absurd h hx
    have e2 : atoms (pre ++ x ++ post) = atoms (pre ++ x) ++ atoms post := by
      rcases h2 with h | h | h | h
      · subst h; simp [atoms_nil]
      · exact atoms_append_start _ post h
      · apply atoms_append_end
        right
        rw [Props.C13F.lastP_append_ne _ _ _ hx]; exact h
      · exact absurd h hx
    rw [e2, e1]
    intro w hw
    simp [hw]

/-! ### lines with their terminators -/

/-- every line but the last ends with a line terminator -/
def TE : List Str → Prop
  | [] => True
  | [_] => True
  | l :: m :: rest => lastP isTerm l = true ∧ TE (m :: rest)

theorem lastP_reverse_cons (p : Char → Bool) (c : Char) (cur : Str) : lastP p (c :: cur).reverse = p c := by
  rw [List.reverse_cons]
  cases hr : cur.reverse with
  | nil => simp [lastP]
  | cons d ds => rw [Props.C13F.lastP_append_ne _ _ _ (by simp)]; simp [lastP]

theorem TE_cons (l : Str) (ls : List Str) (hl : lastP isTerm l = true) (h : TE ls) : TE (l :: ls) := by
  cases ls with
  | nil => trivial
  | cons m rest => exact ⟨hl, h⟩

theorem ske_TE (t cur : Str) (cr : Bool) (hcr : cr = true → ∃ cur', cur = '\r' :: cur') : TE (splitKeepEndsAux t cur cr) := by
  induction t generalizing cur cr with
  | nil =>
    unfold splitKeepEndsAux
    split <;> trivial
  | cons c rest ih =>
    unfold splitKeepEndsAux
    by_cases hc : cr = true
    · obtain ⟨cur', rfl⟩ := hcr hc
      simp only [hc, if_true]
      by_cases h1 : c = '\n'
      · simp only [h1, if_true]
        exact TE_cons _ _ (by rw [lastP_reverse_cons]; decide) (ih [] false (by simp))
      · simp only [h1, if_false]
        by_cases h2 : c = '\r'
        · simp only [h2, if_true]
          exact TE_cons _ _ (by rw [lastP_reverse_cons]; decide) (ih ['\r'] true (fun _ => ⟨[], rfl⟩))
        · simp only [h2, if_false]
          exact TE_cons _ _ (by rw [lastP_reverse_cons]; decide) (ih [c] false (by simp))
    · have hc' : cr = false := by simpa using hc
      simp only [hc', Bool.false_eq_true, if_false]
      by_cases h1 : c = '\n'
      · simp only [h1, if_true]
        exact TE_cons _ _ (by rw [lastP_reverse_cons]; decide) (ih [] false (by simp))
      · simp only [h1, if_false]
        by_cases h2 : c = '\r'
        · subst h2
          simp only [if_true]
          exact ih ('\r' :: cur) true (fun _ => ⟨cur, rfl⟩)
        · simp only [h2, if_false]
          exact ih (c :: cur) false (by simp)

theorem splitKeepEnds_TE (t : Str) : TE (splitKeepEnds t) := ske_TE t [] false (by simp)

theorem atoms_flatten (ls : List Str) (h : TE ls) : atoms ls.flatten = ls.flatMap atoms := by
  induction ls with
  | nil => rfl
  | cons l rest ih =>
    cases rest with
    | nil => simp
    | cons m rest' =>
      obtain ⟨hl, hr⟩ := h
      rw [List.flatten_cons, List.flatMap_cons]
      rw [atoms_append_end l _ (Or.inr ?_), ih hr]
      obtain ⟨a, c, e, hc⟩ := lastP_mem hl
      rw [e, Props.C13F.lastP_append_ne _ _ _ (by simp)]
      simpa [lastP] using term_sep hc

/-! ### the header loop accounts for every line it is given -/

theorem flush_defects (s : HSt) : (flushHeader s).acc.defects = s.acc.defects := by
  unfold flushHeader
  cases s.last with
  | none => rfl
  | some fc => rfl

theorem flush_last (s : HSt) : (flushHeader s).last = none := by
  unfold flushHeader
  cases h : s.last with
  | none => exact h
  | some fc => rfl

theorem phl_defects (n : Nat) (ls : List Str) : ∀ (idx : Nat) (s : HSt), s.acc.defects = true →
    (parseHeaderLines n idx s ls).acc.defects = true := by
  induction ls with
  | nil => intro idx s h; simp only [parseHeaderLines, flush_defects, h]
  | cons l rest ih =>
    intro idx s h
    unfold parseHeaderLines
    split
    · split
      · exact ih _ _ rfl
      · exact ih _ _ h
    · simp only
      split
      · split
        · exact ih _ _ (by simp [flush_defects, h])
        · split
          · simp [flush_defects, h]
          · exact ih _ _ rfl
      · split
        · exact ih _ _ rfl
        · exact ih _ _ (by simp [flush_defects, h])

def optAtoms : Option Str → List Str
  | some s => atoms s
  | none => []

def hdrAtoms (hs : List (Str × Str)) : List Str := hs.flatMap fun nv => atoms nv.1 ++ atoms nv.2

def openAtoms : Option (Str × List Str) → List Str
  | some (f, cs) => atoms f ++ cs.flatMap atoms
  | none => []

def accAtoms (s : HSt) : List Str :=
  optAtoms s.acc.unixfrom ++ hdrAtoms s.acc.headers ++ optAtoms s.acc.pushedBack ++ openAtoms s.last

def openLines : Option (Str × List Str) → List Str
  | some (f, cs) => f :: cs
  | none => []

theorem atoms_allsep (w : Str) (h : ∀ c ∈ w, sep c = true) : atoms w = [] := by
  induction w with
  | nil => rfl
  | cons c cs ih => rw [atoms_cons_sep c cs (h c (by simp))]; exact ih (fun d hd => h d (by simp [hd]))

theorem atoms_append_allsep (a w : Str) (h : ∀ c ∈ w, sep c = true) : atoms (a ++ w) = atoms a := by
  induction w generalizing a with
  | nil => simp
  | cons c cs ih =>
    have : a ++ c :: cs = (a ++ [c]) ++ cs := by simp
    rw [this, ih (a ++ [c]) (fun d hd => h d (by simp [hd])), atoms_snoc_sep a c (h c (by simp))]

theorem atoms_lstripSpTab (s : Str) : atoms (lstripSpTab s) = atoms s := by
  induction s with
  | nil => rfl
  | cons c cs ih =>
    unfold lstripSpTab
    by_cases h : (c = ' ' ∨ c = '\t')
    · have hs : sep c = true := by rcases h with rfl | rfl <;> decide
      have hd : (decide (c = ' ') || decide (c = '\t')) = true := by rcases h with rfl | rfl <;> simp
      rw [if_pos hd, ih, atoms_cons_sep c cs hs]
    · have hd : ¬ (decide (c = ' ') || decide (c = '\t')) = true := by
        simp only [not_or] at h
        simp [h.1, h.2]
      rw [if_neg hd]

theorem rstripCrLf_decomp (s : Str) : ∃ w, (∀ c ∈ w, isTerm c = true) ∧ s = rstripCrLf s ++ w := by
  induction s with
  | nil => exact ⟨[], by simp, rfl⟩
  | cons c cs ih =>
    obtain ⟨w, hw, hdec⟩ := ih
    unfold rstripCrLf
    cases hr : rstripCrLf cs with
    | nil =>
      rw [hr, List.nil_append] at hdec
      simp only
      by_cases h : (decide (c = '\r') || decide (c = '\n')) = true
      · rw [if_pos h]
        refine ⟨c :: cs, ?_, rfl⟩
        intro d hd
        rcases List.mem_cons.mp hd with rfl | hd
        · simp only [Bool.or_eq_true, decide_eq_true_eq] at h
          rcases h with rfl | rfl <;> decide
        · rw [hdec] at hd; exact hw d hd
      · rw [if_neg h]
        exact ⟨cs, by rw [hdec]; exact hw, rfl⟩
    | cons d ds =>
      rw [hr] at hdec
      simp only
      exact ⟨w, hw, by rw [List.cons_append, ← hdec]⟩

theorem atoms_rstripCrLf (s : Str) : atoms (rstripCrLf s) = atoms s := by
  obtain ⟨w, hw, hdec⟩ := rstripCrLf_decomp s
  conv => rhs; rw [hdec]
  rw [atoms_append_allsep _ w (fun c hc => term_sep (hw c hc))]

theorem lstripSpTab_decomp (s : Str) : ∃ w, (∀ c ∈ w, c = ' ' ∨ c = '\t') ∧ s = w ++ lstripSpTab s := by
  induction s with
  | nil => exact ⟨[], by simp, rfl⟩
  | cons c cs ih =>
    unfold lstripSpTab
    by_cases h : (decide (c = ' ') || decide (c = '\t')) = true
    · rw [if_pos h]
      obtain ⟨w, hw, hdec⟩ := ih
      refine ⟨c :: w, ?_, by rw [List.cons_append, ← hdec]⟩
      intro d hd
      rcases List.mem_cons.mp hd with rfl | hd
      · simpa using h
      · exact hw d hd
    · rw [if_neg h]; exact ⟨[], by simp, rfl⟩

theorem TE_tail (l : Str) (ls : List Str) (h : TE (l :: ls)) : TE ls := by
  cases ls with
  | nil => trivial
  | cons m rest => exact h.2

theorem TE_head (l m : Str) (ls : List Str) (h : TE (l :: m :: ls)) : lastP isTerm l = true := h.1

/-- one header: its name and value hold every word of its source lines -/
theorem hsp_atoms (first : Str) (conts : List Str) (hcol : ':' ∈ first) (hte : TE (first :: conts)) :
    atoms (headerSourceParse first conts).1 ++ atoms (headerSourceParse first conts).2 =
      atoms first ++ conts.flatMap atoms := by
  have hs := partitionChar_spec ':' first
  simp only at hs
  obtain ⟨hnocol, h2, h3⟩ := hs
  have hfound : (partitionChar ':' first).2.1 = true := by
    cases hf : (partitionChar ':' first).2.1 with
    | true => rfl
    | false =>
      have := (h3 hf).1
      rw [this] at hnocol
      exact absurd hcol hnocol
  have hfirst := h2 hfound
  unfold headerSourceParse
  simp only
  rw [atoms_rstripCrLf]
  have ha : atoms first = atoms (partitionChar ':' first).1 ++ atoms (partitionChar ':' first).2.2 := by
    conv => lhs; rw [hfirst]
    exact atoms_sep _ _ ':' (by decide)
  rw [ha, List.append_assoc]
  congr 1
  cases conts with
  | nil => simp [atoms_lstripSpTab]
  | cons c cs =>
    have hlast : lastP isTerm first = true := TE_head _ _ _ hte
    -- the terminator at the end of the first line is after the colon
    have hrest : (partitionChar ':' first).2.2 ≠ [] ∧ lastP isTerm (partitionChar ':' first).2.2 = true := by
      rw [hfirst, Props.C13F.lastP_append_ne _ _ _ (by simp)] at hlast
      cases hr : (partitionChar ':' first).2.2 with
      | nil => rw [hr] at hlast; simp [lastP, isTerm] at hlast
      | cons d ds =>
        rw [hr, lastP_cons_ne_nil _ _ _ (by simp)] at hlast
        exact ⟨by simp, hlast⟩
    obtain ⟨w, hw, hdec⟩ := lstripSpTab_decomp (partitionChar ':' first).2.2
    have hl : lstripSpTab (partitionChar ':' first).2.2 ≠ [] := by
      intro e
      rw [e, List.append_nil] at hdec
      obtain ⟨a, d, e2, hd⟩ := lastP_mem hrest.2
      have := hw d (by rw [← hdec, e2]; simp)
      rcases this with rfl | rfl <;> simp [isTerm] at hd
    have hlastl : lastP sep (lstripSpTab (partitionChar ':' first).2.2) = true := by
      have := hrest.2
      rw [hdec, Props.C13F.lastP_append_ne _ _ _ hl] at this
      obtain ⟨a, d, e2, hd⟩ := lastP_mem this
      rw [e2, Props.C13F.lastP_append_ne _ _ _ (by simp)]
      simpa [lastP] using term_sep hd
    rw [atoms_append_end _ _ (Or.inr hlastl), atoms_lstripSpTab, atoms_flatten _ (TE_tail _ _ hte)]

theorem dropNameChars_suffix (l : Str) : ∃ pre, l = pre ++ dropNameChars l := by
  induction l with
  | nil => exact ⟨[], rfl⟩
  | cons c cs ih =>
    unfold dropNameChars
    by_cases h : isHeaderNameChar c = true
    · rw [if_pos h]
      obtain ⟨pre, hp⟩ := ih
      exact ⟨c :: pre, by rw [List.cons_append, ← hp]⟩
    · rw [if_neg h]; exact ⟨[], rfl⟩

theorem colon_of_header (l : Str) (h : headP (· = ':') (dropNameChars l) = true) : ':' ∈ l := by
  obtain ⟨pre, hp⟩ := dropNameChars_suffix l
  cases hd : dropNameChars l with
  | nil => rw [hd] at h; simp [headP] at h
  | cons c cs =>
    rw [hd] at h hp
    have : c = ':' := by simpa [headP] using h
    rw [hp, this]; simp

theorem TE_prefix (a b : List Str) (h : TE (a ++ b)) (hb : b ≠ []) : TE a ∧ ∀ l ∈ a, lastP isTerm l = true := by
  induction a with
  | nil => exact ⟨trivial, by simp⟩
  | cons x xs ih =>
    cases xs with
    | nil =>
      cases b with
      | nil => exact absurd rfl hb
      | cons y ys =>
        have := h.1
        exact ⟨trivial, by intro l hl; simp at hl; subst hl; exact this⟩
    | cons y ys =>
      have h1 := h.1
      obtain ⟨i1, i2⟩ := ih h.2
      refine ⟨⟨h1, i1⟩, ?_⟩
      intro l hl
      rcases List.mem_cons.mp hl with rfl | hl
      · exact h1
      · exact i2 l hl

theorem atoms_stripEol (l : Str) : atoms (stripEol l) = atoms l := by
  unfold stripEol
  by_cases h1 : endsWith l ['\r', '\n'] = true
  · rw [if_pos h1]
    obtain ⟨a, ha⟩ := (Props.C17.endsWith_iff l ['\r', '\n']).mp h1
    subst ha
    have : (a ++ ['\r', '\n']).dropLast.dropLast = a := by simp [List.dropLast_append_cons]
    rw [this, atoms_append_allsep a _ (by intro c hc; simp at hc; rcases hc with rfl | rfl <;> decide)]
  · rw [if_neg h1]
    by_cases h2 : (endsWith l ['\n'] || endsWith l ['\r']) = true
    · rw [if_pos h2]
      simp only [Bool.or_eq_true] at h2
      rcases h2 with h | h
      · obtain ⟨a, ha⟩ := (Props.C17.endsWith_iff l ['\n']).mp h
        subst ha
        rw [List.dropLast_concat, atoms_snoc_sep a '\n' (by decide)]
      · obtain ⟨a, ha⟩ := (Props.C17.endsWith_iff l ['\r']).mp h
        subst ha
        rw [List.dropLast_concat, atoms_snoc_sep a '\r' (by decide)]
    · rw [if_neg h2]

theorem accAtoms_flush (s : HSt) (hcol : ∀ fc, s.last = some fc → ':' ∈ fc.1) (hte : TE (openLines s.last)) :
    Sub (accAtoms s) (accAtoms (flushHeader s)) := by
  unfold flushHeader
  cases hl : s.last with
  | none => simp only; rw [show accAtoms s = accAtoms s from rfl]; exact Sub.refl _
  | some fc =>
    obtain ⟨f, cs⟩ := fc
    simp only
    rw [hl] at hte
    have := hsp_atoms f cs (hcol (f, cs) hl) hte
    intro x hx
    simp only [accAtoms, hl, openAtoms, List.mem_append] at hx
    simp only [accAtoms, openAtoms, List.append_nil, hdrAtoms, List.flatMap_append, List.flatMap_cons, List.flatMap_nil,
      List.mem_append, this]
    rcases hx with ((h | h) | h) | h
    · simp [h]
    · simp only [hdrAtoms] at h; simp [h]
    · simp [h]
    · rcases h with h | h <;> simp [h]

theorem flush_acc_eq (s : HSt) : (flushHeader s).acc.unixfrom = s.acc.unixfrom ∧ (flushHeader s).acc.pushedBack = s.acc.pushedBack := by
  unfold flushHeader
  cases s.last with
  | none => exact ⟨rfl, rfl⟩
  | some fc => exact ⟨rfl, rfl⟩

theorem accAtoms_mem (s : HSt) (x : Str) : x ∈ accAtoms s ↔
    x ∈ optAtoms s.acc.unixfrom ∨ x ∈ hdrAtoms s.acc.headers ∨ x ∈ optAtoms s.acc.pushedBack ∨ x ∈ openAtoms s.last := by
  simp only [accAtoms, List.mem_append, or_assoc]

theorem step_sub (A A' : List Str) (l : Str) (rest : List Str) (h : Sub (A ++ atoms l) A') :
    Sub (A ++ (l :: rest).flatMap atoms) (A' ++ rest.flatMap atoms) := by
  intro x hx
  simp only [List.flatMap_cons, List.mem_append] at hx
  rcases hx with hx | hx | hx
  · exact List.mem_append.mpr (Or.inl (h x (List.mem_append.mpr (Or.inl hx))))
  · exact List.mem_append.mpr (Or.inl (h x (List.mem_append.mpr (Or.inr hx))))
  · exact List.mem_append.mpr (Or.inr hx)

/-- **the header loop**: when it reports no defect, the unix-from line, the headers and the pushed-back line hold every
word of the lines it was given -/
theorem phl_atoms (n : Nat) (ls : List Str) : ∀ (idx : Nat) (s : HSt), s.acc.defects = false → idx + ls.length = n →
    (∀ l ∈ ls, isHeaderLine l = true) → TE (openLines s.last ++ ls) → (∀ fc, s.last = some fc → ':' ∈ fc.1) →
    (idx = 0 → s.acc.unixfrom = none) → s.acc.pushedBack = none →
    (parseHeaderLines n idx s ls).acc.defects = false →
    Sub (accAtoms s ++ ls.flatMap atoms) (accAtoms (parseHeaderLines n idx s ls)) ∧ (parseHeaderLines n idx s ls).last = none := by
  induction ls with
  | nil =>
    intro idx s _ _ _ hte hcol _ _ _
    simp only [parseHeaderLines, List.flatMap_nil, List.append_nil]
    exact ⟨accAtoms_flush s hcol (by simpa using hte), flush_last s⟩
  | cons l rest ih =>
    intro idx s hd hn hhl hte hcol huf hpb hres
    have hn' : idx + 1 + rest.length = n := by simp only [List.length_cons] at hn; omega
    have hhl' : ∀ x ∈ rest, isHeaderLine x = true := fun x hx => hhl x (by simp [hx])
    unfold parseHeaderLines at hres ⊢
    by_cases hsp : headP (fun c => c = ' ' || c = '\t') l = true
    · simp only [hsp, if_true] at hres ⊢
      cases hl : s.last with
      | none =>
        simp only [hl] at hres
        rw [phl_defects n rest (idx + 1) _ rfl] at hres; cases hres
      | some fc =>
        obtain ⟨f, cs⟩ := fc
        simp only [hl] at hres ⊢
        have hte' : TE (openLines (some (f, cs ++ [l])) ++ rest) := by
          rw [hl] at hte
          simpa [openLines, List.append_assoc] using hte
        obtain ⟨h1, h2⟩ := ih (idx + 1) { s with last := some (f, cs ++ [l]) } hd hn' hhl' hte'
          (by intro fc hfc; simp only [Option.some.injEq] at hfc; rw [← hfc]; exact hcol (f, cs) hl)
          (by intro h0; omega) hpb hres
        refine ⟨Sub.trans (step_sub _ _ l rest ?_) h1, h2⟩
        intro x hx
        rw [accAtoms_mem]
        simp only [openAtoms, List.flatMap_append, List.flatMap_cons, List.flatMap_nil, List.append_nil, List.mem_append]
        rcases List.mem_append.mp hx with hx | hx
        · rw [accAtoms_mem, hl] at hx
          simp only [openAtoms, List.mem_append] at hx
          rcases hx with h | h | h | h | h
          · exact Or.inl h
          · exact Or.inr (Or.inl h)
          · exact Or.inr (Or.inr (Or.inl h))
          · exact Or.inr (Or.inr (Or.inr (Or.inl h)))
          · exact Or.inr (Or.inr (Or.inr (Or.inr (Or.inl h))))
        · exact Or.inr (Or.inr (Or.inr (Or.inr (Or.inr hx))))
    · simp only [hsp, Bool.false_eq_true, if_false] at hres ⊢
      -- the open header is closed: all its lines end with a terminator, since a line follows
      have hopen := TE_prefix (openLines s.last) (l :: rest) hte (by simp)
      have hfl := accAtoms_flush s hcol hopen.1
      have hfd : (flushHeader s).acc.defects = false := by rw [flush_defects]; exact hd
      have hflast := flush_last s
      have hfuf := (flush_acc_eq s).1
      have hfpb : (flushHeader s).acc.pushedBack = none := by rw [(flush_acc_eq s).2]; exact hpb
      have hte1 : TE (l :: rest) := by
        have : ∀ (a b : List Str), TE (a ++ b) → TE b := by
          intro a
          induction a with
          | nil => intro b h; exact h
          | cons x xs iha => intro b h; exact iha b (TE_tail _ _ h)
        exact this _ _ hte
      -- what is accounted for after the flush, as a four-way membership
      have hflm : ∀ x, x ∈ accAtoms s → x ∈ optAtoms (flushHeader s).acc.unixfrom ∨ x ∈ hdrAtoms (flushHeader s).acc.headers := by
        intro x hx
        have := (accAtoms_mem _ x).mp (hfl x hx)
        rw [hfpb, hflast] at this
        simp only [optAtoms, openAtoms, List.not_mem_nil, or_false] at this
        exact this
      by_cases hfrom : startsWith l fromSpace = true
      · simp only [hfrom, if_true] at hres ⊢
        by_cases h0 : idx = 0
        · subst h0
          simp only [if_true] at hres ⊢
          have hufn : (flushHeader s).acc.unixfrom = none := by rw [hfuf]; exact huf rfl
          obtain ⟨h1, h2⟩ := ih (0 + 1) { flushHeader s with acc := { (flushHeader s).acc with unixfrom := some (stripEol l) } }
            hfd (by omega) hhl' (by simpa [hflast, openLines] using TE_tail _ _ hte1)
            (by intro fc hfc; simp only [hflast] at hfc; cases hfc) (by intro h; omega) hfpb hres
          refine ⟨Sub.trans (step_sub _ _ l rest ?_) h1, h2⟩
          intro x hx
          rw [accAtoms_mem]
          simp only [optAtoms, atoms_stripEol]
          rcases List.mem_append.mp hx with hx | hx
          · rcases hflm x hx with h | h
            · rw [hufn] at h; simp [optAtoms] at h
            · exact Or.inr (Or.inl h)
          · exact Or.inl hx
        · simp only [h0, if_false] at hres ⊢
          by_cases hlast : idx = n - 1
          · simp only [hlast, if_true] at hres ⊢
            have hrest : rest = [] := by
              simp only [List.length_cons] at hn
              have : rest.length = 0 := by omega
              exact List.length_eq_zero_iff.mp this
            subst hrest
            refine ⟨?_, hflast⟩
            intro x hx
            rw [accAtoms_mem]
            simp only [optAtoms, hflast, openAtoms]
            simp only [List.flatMap_cons, List.flatMap_nil, List.append_nil] at hx
            rcases List.mem_append.mp hx with hx | hx
            · rcases hflm x hx with h | h
              · exact Or.inl h
              · exact Or.inr (Or.inl h)
            · exact Or.inr (Or.inr (Or.inl hx))
          · simp only [hlast, if_false] at hres
            rw [phl_defects n rest (idx + 1) _ rfl] at hres; cases hres
      · simp only [hfrom, Bool.false_eq_true, if_false] at hres ⊢
        by_cases hcolon : headP (· = ':') l = true
        · simp only [hcolon, if_true] at hres
          rw [phl_defects n rest (idx + 1) _ rfl] at hres; cases hres
        · simp only [hcolon, Bool.false_eq_true, if_false] at hres ⊢
          have hlcol : ':' ∈ l := by
            have := hhl l (by simp)
            simp only [isHeaderLine, Bool.or_eq_true] at this
            rcases this with (h | h) | h
            · rw [h] at hfrom; exact absurd rfl hfrom
            · exact colon_of_header l h
            · have : headP (fun c => c = ' ' || c = '\t') l = true := by
                cases l with
                | nil => simp [headP] at h
                | cons c cs => simpa [headP, Bool.or_comm] using h
              exact absurd this hsp
          obtain ⟨h1, h2⟩ := ih (idx + 1) { flushHeader s with last := some (l, []) } hfd hn' hhl'
            (by simpa [openLines] using hte1)
            (by intro fc hfc; simp only [Option.some.injEq] at hfc; rw [← hfc]; exact hlcol)
            (by intro h; omega) hfpb hres
          refine ⟨Sub.trans (step_sub _ _ l rest ?_) h1, h2⟩
          intro x hx
          rw [accAtoms_mem]
          simp only [openAtoms, List.flatMap_nil, List.append_nil]
          rcases List.mem_append.mp hx with hx | hx
          · rcases hflm x hx with h | h
            · exact Or.inl h
            · exact Or.inr (Or.inl h)
          · exact Or.inr (Or.inr (Or.inr hx))

/-! ### a line that starts with a terminator is only terminators -/

def CurInv (cur : Str) (cr : Bool) : Prop :=
  cur = [] ∨ (cur = ['\r'] ∧ cr = true) ∨ (∃ c cs, cur.reverse = c :: cs ∧ isTerm c = false)

def OnlyTermIfNl (l : Str) : Prop := startsWithNl l = true → ∀ c ∈ l, isTerm c = true

theorem curInv_push (cur : Str) (cr : Bool) (c : Char) (hc : isTerm c = false) (h : CurInv cur cr) (hcr : cr = false) :
    CurInv (c :: cur) false := by
  right; right
  rcases h with h | ⟨_, h⟩ | ⟨d, ds, hd, hdt⟩
  · subst h; exact ⟨c, [], rfl, hc⟩
  · rw [hcr] at h; cases h
  · exact ⟨d, ds ++ [c], by simp [hd], hdt⟩

theorem emit_ok (cur : Str) (cr : Bool) (h : CurInv cur cr) : OnlyTermIfNl cur.reverse := by
  intro hs
  rcases h with h | ⟨h, _⟩ | ⟨d, ds, hd, hdt⟩
  · subst h; simp
  · subst h; intro c hc; simp at hc; subst hc; decide
  · rw [hd] at hs
    simp only [startsWithNl, headP, Bool.or_eq_true, decide_eq_true_eq] at hs
    simp only [isTerm, Bool.or_eq_false_iff, decide_eq_false_iff_not] at hdt
    rcases hs with h | h
    · exact absurd h hdt.1
    · exact absurd h hdt.2

theorem emit_nl_ok (cur : Str) (cr : Bool) (h : CurInv cur cr) : OnlyTermIfNl ('\n' :: cur).reverse := by
  intro hs
  rcases h with h | ⟨h, _⟩ | ⟨d, ds, hd, hdt⟩
  · subst h; intro c hc; simp at hc; subst hc; decide
  · subst h; intro c hc; simp at hc; rcases hc with rfl | rfl <;> decide
  · rw [List.reverse_cons, hd] at hs
    simp only [List.cons_append, startsWithNl, headP, Bool.or_eq_true, decide_eq_true_eq] at hs
    simp only [isTerm, Bool.or_eq_false_iff, decide_eq_false_iff_not] at hdt
    rcases hs with h | h
    · exact absurd h hdt.1
    · exact absurd h hdt.2

theorem ske_nl (t cur : Str) (cr : Bool) (h : CurInv cur cr) (hcr : cr = true → ∃ cur', cur = '\r' :: cur') :
    ∀ l ∈ splitKeepEndsAux t cur cr, OnlyTermIfNl l := by
  induction t generalizing cur cr with
  | nil =>
    intro l hl
    unfold splitKeepEndsAux at hl
    by_cases he : cur.isEmpty = true
    · simp [he] at hl
    · simp only [he, Bool.false_eq_true, if_false, List.mem_singleton] at hl
      subst hl; exact emit_ok cur cr h
  | cons c rest ih =>
    intro l hl
    unfold splitKeepEndsAux at hl
    have hnilinv : CurInv [] false := Or.inl rfl
    by_cases hc : cr = true
    · simp only [hc, if_true] at hl
      by_cases h1 : c = '\n'
      · subst h1
        simp only [if_true, List.mem_cons] at hl
        rcases hl with rfl | hl
        · exact emit_nl_ok cur cr h
        · exact ih [] false hnilinv (by simp) l hl
      · simp only [h1, if_false] at hl
        by_cases h2 : c = '\r'
        · subst h2
          simp only [if_true, List.mem_cons] at hl
          rcases hl with rfl | hl
          · exact emit_ok cur cr h
          · exact ih ['\r'] true (Or.inr (Or.inl ⟨rfl, rfl⟩)) (fun _ => ⟨[], rfl⟩) l hl
        · simp only [h2, if_false, List.mem_cons] at hl
          rcases hl with rfl | hl
          · exact emit_ok cur cr h
          · have hct : isTerm c = false := by simp [isTerm, h1, h2]
            exact ih [c] false (Or.inr (Or.inr ⟨c, [], rfl, hct⟩)) (by simp) l hl
    · have hc' : cr = false := by simpa using hc
      simp only [hc', Bool.false_eq_true, if_false] at hl
      by_cases h1 : c = '\n'
      · subst h1
        simp only [if_true, List.mem_cons] at hl
        rcases hl with rfl | hl
        · exact emit_nl_ok cur cr h
        · exact ih [] false hnilinv (by simp) l hl
      · simp only [h1, if_false] at hl
        by_cases h2 : c = '\r'
        · subst h2
          simp only [if_true] at hl
          -- a carriage return after other characters, or at the start of a line
          have hinv' : CurInv ('\r' :: cur) true := by
            rcases h with h | ⟨_, h⟩ | ⟨d, ds, hd, hdt⟩
            · subst h; exact Or.inr (Or.inl ⟨rfl, rfl⟩)
            · rw [hc'] at h; cases h
            · exact Or.inr (Or.inr ⟨d, ds ++ ['\r'], by simp [hd], hdt⟩)
          exact ih ('\r' :: cur) true hinv' (fun _ => ⟨cur, rfl⟩) l hl
        · simp only [h2, if_false] at hl
          have hct : isTerm c = false := by simp [isTerm, h1, h2]
          exact ih (c :: cur) false (curInv_push cur cr c hct h hc') (by simp) l hl

theorem sep_line_atoms (t : Str) (l : Str) (hl : l ∈ splitKeepEnds t) (hs : startsWithNl l = true) : atoms l = [] := by
  have := ske_nl t [] false (Or.inl rfl) (by simp) l hl hs
  exact atoms_allsep l (fun c hc => term_sep (this c hc))

theorem takeHeaderLines_split (ls : List Str) :
    ls = (takeHeaderLines ls).1 ++ (takeHeaderLines ls).2 ∧ ∀ l ∈ (takeHeaderLines ls).1, isHeaderLine l = true := by
  induction ls with
  | nil => exact ⟨rfl, by simp [takeHeaderLines]⟩
  | cons l rest ih =>
    unfold takeHeaderLines
    by_cases h : isHeaderLine l = true
    · simp only [h, if_true]
      refine ⟨by rw [List.cons_append, ← ih.1], ?_⟩
      intro x hx
      rcases List.mem_cons.mp hx with rfl | hx
      · exact h
      · exact ih.2 x hx
    · simp only [h, Bool.false_eq_true, if_false]
      exact ⟨rfl, by simp⟩

/-! ### the merging loop keeps every word -/

theorem sep_lower (c : Char) : sep (lowerAsciiChar c) = sep c := by
  by_cases h : c.toNat < 128
  · have : ∀ n ∈ List.range 128, sep (lowerAsciiChar (Char.ofNat n)) = sep (Char.ofNat n) := by decide +kernel
    have := this c.toNat (by simpa using h)
    rwa [Char.ofNat_toNat] at this
  · have hu : isAsciiUpper c = false := by
      cases hc : isAsciiUpper c with
      | false => rfl
      | true => have := (Props.C19.upper_iff c).mp hc; omega
    simp [lowerAsciiChar, hu]

theorem atomsAux_lower (s cur : Str) : atomsAux (lowerAscii s) cur = atomsAux s cur := by
  induction s generalizing cur with
  | nil => rfl
  | cons c cs ih =>
    simp only [lowerAscii, List.map_cons, atomsAux] at ih ⊢
    have hs : (isSpace (lowerAsciiChar c) || decide (lowerAsciiChar c = ':')) = (isSpace c || decide (c = ':')) := sep_lower c
    rw [hs, (Props.C19.case_facts c).1]
    by_cases h : (isSpace c || decide (c = ':')) = true
    · simp only [h, if_true]
      by_cases he : cur.isEmpty = true
      · simp only [he, if_true]; exact ih []
      · simp only [he, Bool.false_eq_true, if_false]; rw [ih []]
    · simp only [h, Bool.false_eq_true, if_false]
      exact ih _

theorem atoms_lower (s : Str) : atoms (lowerAscii s) = atoms s := atomsAux_lower s []

theorem space_sep {c : Char} (h : isSpace c = true) : sep c = true := by simp [sep, h]

theorem atoms_allsep_append (w a : Str) (h : ∀ c ∈ w, sep c = true) : atoms (w ++ a) = atoms a := by
  induction w with
  | nil => rfl
  | cons c cs ih => rw [List.cons_append, atoms_cons_sep c _ (h c (by simp))]; exact ih (fun d hd => h d (by simp [hd]))

theorem atoms_strip (s : Str) : atoms (strip s) = atoms s := by
  obtain ⟨w1, hw1, hd1⟩ := lstrip_decomp s
  obtain ⟨w2, hw2, hd2⟩ := rstrip_decomp (lstrip s)
  conv => rhs; rw [hd1, hd2]
  rw [atoms_allsep_append w1 _ (fun c hc => space_sep (hw1 c hc)), atoms_append_allsep _ w2 (fun c hc => space_sep (hw2 c hc))]
  rfl

theorem atoms_joinNl_mem (vs : List Str) (v : Str) (hv : v ∈ vs) : Sub (atoms v) (atoms (Model.Email.joinNl vs)) := by
  induction vs with
  | nil => cases hv
  | cons x xs ih =>
    cases xs with
    | nil =>
      simp only [List.mem_singleton] at hv
      subst hv
      exact Sub.refl _
    | cons y ys =>
      have e : Model.Email.joinNl (x :: y :: ys) = x ++ '\n' :: Model.Email.joinNl (y :: ys) := rfl
      rw [e, atoms_sep x _ '\n' (by decide)]
      rcases List.mem_cons.mp hv with rfl | hv
      · exact Sub.left _ _
      · exact Sub.trans (ih hv) (Sub.right _ _)

theorem addNew_keeps (acc : List Str) (v x : Str) (h : x ∈ acc) : x ∈ addNew acc v := by
  unfold addNew
  split
  · exact h
  · exact List.mem_append.mpr (Or.inl h)

theorem addNew_has (acc : List Str) (v : Str) : v ∈ addNew acc v := by
  unfold addNew
  by_cases h : acc.contains v = true
  · simp only [h, if_true]; exact List.contains_iff_mem.mp h
  · simp only [h, Bool.false_eq_true, if_false]; simp

theorem distinct_has (vs : List Str) (x : Str) (hx : x ∈ vs) : x ∈ distinct vs := by
  unfold distinct
  have : ∀ (l acc : List Str), (x ∈ acc ∨ x ∈ l) → x ∈ l.foldl addNew acc := by
    intro l
    induction l with
    | nil => intro acc h; rcases h with h | h; exact h; cases h
    | cons y ys ih =>
      intro acc h
      simp only [List.foldl_cons]
      apply ih
      rcases h with h | h
      · exact Or.inl (addNew_keeps acc y x h)
      · rcases List.mem_cons.mp h with rfl | h
        · exact Or.inl (addNew_has acc x)
        · exact Or.inr h
  exact this vs [] (Or.inr hx)

theorem lookup_mem' {β} (l : List (Str × β)) (k : Str) (v : β) (h : l.lookup k = some v) : (k, v) ∈ l := by
  induction l with
  | nil => cases h
  | cons a as ih =>
    obtain ⟨a1, a2⟩ := a
    by_cases e : k = a1
    · subst e
      simp only [List.lookup, beq_self_eq_true, Option.some.injEq] at h
      subst h; simp
    · have : (k == a1) = false := by simpa using e
      simp only [List.lookup, this] at h
      simp [ih h]

theorem items_sub (items : List (Str × Str)) : Sub (hdrAtoms items) (dictAtoms (mergeItems items)) := by
  intro x hx
  simp only [hdrAtoms, List.mem_flatMap] at hx
  obtain ⟨nv, hnv, hx⟩ := hx
  have hment : mentioned (keyOf nv) items = true := by
    simp only [mentioned, List.any_eq_true, decide_eq_true_eq]
    exact ⟨nv, hnv, rfl⟩
  have hlk := mergeItems_lookup items (keyOf nv)
  rw [hment, if_pos rfl] at hlk
  have hmem := lookup_mem' _ _ _ hlk
  simp only [dictAtoms, List.mem_flatMap]
  refine ⟨_, hmem, ?_⟩
  simp only [List.mem_append] at hx ⊢
  rcases hx with hx | hx
  · left
    have : atoms (keyOf nv) = atoms nv.1 := by unfold keyOf; rw [atoms_strip, atoms_lower]
    rw [this]; exact hx
  · right
    have hv : atoms (valOf nv) = atoms nv.2 := by unfold valOf; exact atoms_strip _
    rw [← hv] at hx
    by_cases he : (valOf nv).isEmpty = true
    · have : valOf nv = [] := List.isEmpty_iff.mp he
      rw [this] at hx; simp [atoms_nil] at hx
    · have hin : valOf nv ∈ valuesFor (keyOf nv) items := by
        unfold valuesFor
        simp only [List.mem_filter, List.mem_map, decide_eq_true_eq, Bool.not_eq_true']
        exact ⟨⟨nv, ⟨hnv, rfl⟩, rfl⟩, by simpa using he⟩
      exact atoms_joinNl_mem _ _ (distinct_has _ _ hin) x hx

/-! ### one paragraph -/

theorem phl_pb_mem (n : Nat) (ls : List Str) : ∀ (idx : Nat) (s : HSt) (l : Str),
    (parseHeaderLines n idx s ls).acc.pushedBack = some l → s.acc.pushedBack = some l ∨ l ∈ ls := by
  induction ls with
  | nil =>
    intro idx s l h
    simp only [parseHeaderLines, (flush_acc_eq s).2] at h
    exact Or.inl h
  | cons x rest ih =>
    intro idx s l h
    unfold parseHeaderLines at h
    have step : ∀ s', (parseHeaderLines n (idx + 1) s' rest).acc.pushedBack = some l → s'.acc.pushedBack = s.acc.pushedBack →
        s.acc.pushedBack = some l ∨ l ∈ x :: rest := by
      intro s' h' hs'
      rcases ih (idx + 1) s' l h' with h1 | h1
      · exact Or.inl (by rw [← hs']; exact h1)
      · exact Or.inr (by simp [h1])
    split at h
    · split at h
      · exact step _ h rfl
      · exact step _ h rfl
    · simp only at h
      split at h
      · split at h
        · exact step _ h (by simp [(flush_acc_eq s).2])
        · split at h
          · simp only [Option.some.injEq] at h
            exact Or.inr (by simp [h])
          · exact step _ h (by simp [(flush_acc_eq s).2])
      · split at h
        · exact step _ h (by simp [(flush_acc_eq s).2])
        · exact step _ h (by simp [(flush_acc_eq s).2])

theorem TE_pre (a b : List Str) (h : TE (a ++ b)) : TE a := by
  induction a with
  | nil => trivial
  | cons x xs ih =>
    cases xs with
    | nil => trivial
    | cons y ys => exact ⟨h.1, ih h.2⟩

theorem TE_suffix (a b : List Str) (h : TE (a ++ b)) : TE b := by
  induction a with
  | nil => exact h
  | cons x xs ih => exact ih (TE_tail _ _ h)

theorem unknown_item_sub (v : Str) (rest : List (Str × Str)) :
    Sub (atoms v) (hdrAtoms ((if v.isEmpty then [] else [(unknownKey, v)]) ++ rest)) := by
  by_cases h : v.isEmpty = true
  · have : v = [] := List.isEmpty_iff.mp h
    subst this; exact Sub.nil _
  · simp only [h, Bool.false_eq_true, if_false]
    intro x hx
    simp only [hdrAtoms, List.flatMap_append, List.flatMap_cons, List.flatMap_nil, List.mem_append]
    exact Or.inl (Or.inl (Or.inr hx))

def sepDefect (rest : List Str) : Bool :=
  match rest with
  | [] => false
  | l :: _ => !startsWithNl l

def bodyOf (rest : List Str) : List Str :=
  match rest with
  | [] => []
  | l :: ls => if startsWithNl l then ls else l :: ls

def pbList (st : HSt) : List Str := match st.acc.pushedBack with | some l => [l] | none => []

def initSt : HSt := ⟨none, ⟨[], none, false, none⟩⟩

theorem parseHeaders_eq (t : Str) :
    parseHeaders t =
      { headers := (parseHeaderLines (takeHeaderLines (splitKeepEnds t)).1.length 0 initSt (takeHeaderLines (splitKeepEnds t)).1).acc.headers,
        unixfrom := (parseHeaderLines (takeHeaderLines (splitKeepEnds t)).1.length 0 initSt (takeHeaderLines (splitKeepEnds t)).1).acc.unixfrom,
        defects := (parseHeaderLines (takeHeaderLines (splitKeepEnds t)).1.length 0 initSt (takeHeaderLines (splitKeepEnds t)).1).acc.defects ||
          sepDefect (takeHeaderLines (splitKeepEnds t)).2,
        payload := (pbList (parseHeaderLines (takeHeaderLines (splitKeepEnds t)).1.length 0 initSt (takeHeaderLines (splitKeepEnds t)).1) ++
          bodyOf (takeHeaderLines (splitKeepEnds t)).2).flatten } := by
  unfold parseHeaders
  simp only
  generalize (takeHeaderLines (splitKeepEnds t)).1 = hdr
  generalize (takeHeaderLines (splitKeepEnds t)).2 = rest
  cases rest with
  | nil => rfl
  | cons l ls =>
    by_cases h : startsWithNl l = true
    · simp only [sepDefect, bodyOf, pbList, initSt, h, if_true, Bool.not_true, Bool.false_eq_true]
      rfl
    · simp only [sepDefect, bodyOf, pbList, initSt, h, if_false, Bool.not_false, Bool.false_eq_true]
      rfl

/-- **every word of the text appears in a key or a value of `get_paragraph_data(text)`** -/
theorem paragraph_words (t : Str) : Sub (atoms t) (dictAtoms (getParagraphData t)) := by
  have htriv : Sub (atoms t) (dictAtoms [(unknownKey, t)]) := by
    intro x hx
    simp [dictAtoms, hx]
  unfold getParagraphData
  by_cases he : t.isEmpty = true
  · rw [if_pos he]; exact htriv
  · rw [if_neg he]
    simp only
    by_cases hd : ((parseHeaders t).headers.isEmpty || (parseHeaders t).defects) = true
    · rw [if_pos hd]; exact htriv
    · rw [if_neg hd]
      refine Sub.trans ?_ (items_sub _)
      -- the lines of the text
      have hflat := Props.C06.splitKeepEnds_flatten t
      have hTE := splitKeepEnds_TE t
      obtain ⟨hsplit, hhdr⟩ := takeHeaderLines_split (splitKeepEnds t)
      rw [parseHeaders_eq] at hd ⊢
      generalize hH : (takeHeaderLines (splitKeepEnds t)).1 = hdr at hsplit hhdr hd ⊢
      generalize hR : (takeHeaderLines (splitKeepEnds t)).2 = rest at hsplit hd ⊢
      generalize hst : parseHeaderLines hdr.length 0 initSt hdr = st at hd ⊢
      simp only at hd ⊢
      have hatoms : atoms t = hdr.flatMap atoms ++ rest.flatMap atoms := by
        conv => lhs; rw [← hflat]
        rw [atoms_flatten _ hTE, hsplit, List.flatMap_append]
      have hnd : st.acc.defects = false ∧ sepDefect rest = false := by
        simp only [Bool.or_eq_true, not_or, Bool.not_eq_true, Bool.or_eq_false_iff] at hd
        exact hd.2
      rw [hsplit] at hTE
      obtain ⟨hphl, hlast⟩ := phl_atoms hdr.length hdr 0 initSt rfl (by simp) hhdr
        (by simp only [initSt, openLines, List.nil_append]; exact TE_pre hdr rest hTE)
        (by intro fc hfc; cases hfc) (fun _ => rfl) rfl (by rw [hst]; exact hnd.1)
      rw [hst] at hphl hlast
      -- the body: the rest without the separator line, which has no words
      have hbody : rest.flatMap atoms = (bodyOf rest).flatMap atoms := by
        cases rest with
        | nil => rfl
        | cons l ls =>
          have hs : startsWithNl l = true := by
            have := hnd.2
            simpa [sepDefect] using this
          have hl : l ∈ splitKeepEnds t := by rw [hsplit]; simp
          simp only [bodyOf, hs, if_true, List.flatMap_cons, sep_line_atoms t l hl hs, List.nil_append]
      -- the payload: the pushed-back line and the body
      have hTEbody : TE (pbList st ++ bodyOf rest) := by
        have hTb : TE (bodyOf rest) := by
          cases rest with
          | nil => trivial
          | cons l ls =>
            simp only [bodyOf]
            split
            · exact TE_tail _ _ (TE_suffix hdr _ hTE)
            · exact TE_suffix hdr _ hTE
        unfold pbList
        cases hpb : st.acc.pushedBack with
        | none => simpa using hTb
        | some pl =>
          simp only [List.singleton_append]
          cases hb : bodyOf rest with
          | nil => trivial
          | cons b bs =>
            rw [hb] at hTb
            refine ⟨?_, hTb⟩
            -- the pushed-back line is a header line, and a line follows the header block
            have hmem : pl ∈ hdr := by
              rcases phl_pb_mem hdr.length hdr 0 initSt pl (by rw [hst]; exact hpb) with h | h
              · simp [initSt] at h
              · exact h
            have hrne : rest ≠ [] := by intro e; rw [e] at hb; simp [bodyOf] at hb
            exact (TE_prefix hdr rest hTE hrne).2 pl hmem
      have hpay : atoms (pbList st ++ bodyOf rest).flatten = optAtoms st.acc.pushedBack ++ (bodyOf rest).flatMap atoms := by
        rw [atoms_flatten _ hTEbody, List.flatMap_append]
        unfold pbList optAtoms
        cases st.acc.pushedBack <;> simp
      -- every word of the text is a word of an item
      rw [hatoms, hbody]
      intro x hx
      have hx' : x ∈ optAtoms st.acc.unixfrom ∨ x ∈ hdrAtoms st.acc.headers ∨ x ∈ atoms (pbList st ++ bodyOf rest).flatten := by
        rw [hpay]
        rcases List.mem_append.mp hx with h | h
        · have := (accAtoms_mem st x).mp (hphl x (by simp [accAtoms, initSt, optAtoms, hdrAtoms, openAtoms, h]))
          rcases this with h1 | h1 | h1 | h1
          · exact Or.inl h1
          · exact Or.inr (Or.inl h1)
          · exact Or.inr (Or.inr (List.mem_append.mpr (Or.inl h1)))
          · -- no header is left open
            rw [hlast] at h1; simp [openAtoms] at h1
        · exact Or.inr (Or.inr (List.mem_append.mpr (Or.inr h)))
      -- the items
      have hitems : ∀ (uf : Option Str) (hs : List (Str × Str)) (pay : Str),
          (x ∈ optAtoms uf ∨ x ∈ hdrAtoms hs ∨ x ∈ atoms pay) →
          x ∈ hdrAtoms ((match uf with | some u => if u.isEmpty then [] else [(unknownKey, u)] | none => []) ++
            (hs ++ (if pay.isEmpty then [] else [(unknownKey, pay)]))) := by
        intro uf hs pay h
        rcases h with h | h | h
        · cases uf with
          | none => simp [optAtoms] at h
          | some u => exact unknown_item_sub u _ x h
        · simp only [hdrAtoms, List.flatMap_append, List.mem_append]
          exact Or.inr (Or.inl h)
        · have := unknown_item_sub pay [] x h
          simp only [hdrAtoms, List.flatMap_append, List.mem_append, List.append_nil] at this ⊢
          exact Or.inr (Or.inr this)
      exact hitems _ _ _ hx'

/-! ### all paragraphs -/

theorem dropWhileSpTab_decomp (s : Str) : ∃ w, (∀ c ∈ w, sep c = true) ∧ s = w ++ dropWhileSpTab s := by
  induction s with
  | nil => exact ⟨[], by simp, rfl⟩
  | cons c cs ih =>
    unfold dropWhileSpTab
    by_cases h : (decide (c = ' ') || decide (c = '\t')) = true
    · rw [if_pos h]
      obtain ⟨w, hw, hdec⟩ := ih
      refine ⟨c :: w, ?_, by rw [List.cons_append, ← hdec]⟩
      intro d hd
      rcases List.mem_cons.mp hd with rfl | hd
      · simp only [Bool.or_eq_true, decide_eq_true_eq] at h
        rcases h with rfl | rfl <;> decide
      · exact hw d hd
    · rw [if_neg h]; exact ⟨[], by simp, rfl⟩

theorem skipBlankLines_decomp (fuel : Nat) (s : Str) : ∃ w, (∀ c ∈ w, sep c = true) ∧ s = w ++ skipBlankLines fuel s := by
  induction fuel generalizing s with
  | zero => exact ⟨[], by simp, rfl⟩
  | succ n ih =>
    unfold skipBlankLines
    obtain ⟨w1, hw1, hd1⟩ := dropWhileSpTab_decomp s
    split
    · rename_i rest heq
      obtain ⟨w2, hw2, hd2⟩ := ih rest
      refine ⟨w1 ++ '\n' :: w2, ?_, ?_⟩
      · intro d hd
        simp only [List.mem_append, List.mem_cons] at hd
        rcases hd with h | rfl | h
        · exact hw1 d h
        · decide
        · exact hw2 d h
      · conv => lhs; rw [hd1, heq, hd2]
        simp [List.append_assoc]
    · exact ⟨[], by simp, rfl⟩

theorem splitParagraphsAux_atoms (fuel : Nat) : ∀ (text cur : Str), text.length < fuel →
    Sub (atoms (cur.reverse ++ text)) ((splitParagraphsAux fuel text cur).flatMap atoms) := by
  induction fuel with
  | zero => intro text cur h; omega
  | succ n ih =>
    intro text cur hlen
    cases text with
    | nil =>
      simp only [splitParagraphsAux, List.append_nil, List.flatMap_cons, List.flatMap_nil]
      exact Sub.refl _
    | cons c rest =>
      simp only [List.length_cons] at hlen
      unfold splitParagraphsAux
      by_cases hc : (c = '\n' && headP (· = '\n') rest) = true
      · rw [if_pos hc]
        simp only [Bool.and_eq_true, decide_eq_true_eq] at hc
        obtain ⟨hc1, hc2⟩ := hc
        subst hc1
        obtain ⟨r2, hr⟩ : ∃ r2, rest = '\n' :: r2 := by
          cases rest with
          | nil => simp [headP] at hc2
          | cons d ds => simp only [headP, decide_eq_true_eq] at hc2; exact ⟨ds, by rw [hc2]⟩
        subst hr
        obtain ⟨w, hw, hdec⟩ := skipBlankLines_decomp (('\n' :: r2).length) r2
        have hlen2 : (skipBlankLines ('\n' :: r2).length ('\n' :: r2 : Str).tail).length < n := by
          simp only [List.tail_cons]
          have : r2.length = w.length + (skipBlankLines ('\n' :: r2).length r2).length := by
            conv => lhs; rw [hdec]
            simp
          simp only [List.length_cons] at hlen
          omega
        have ih' := ih (skipBlankLines ('\n' :: r2).length ('\n' :: r2 : Str).tail) [] hlen2
        simp only [List.reverse_nil, List.nil_append, List.tail_cons] at ih'
        simp only [List.flatMap_cons, List.tail_cons]
        rw [atoms_sep cur.reverse _ '\n' (by decide), atoms_cons_sep '\n' r2 (by decide)]
        apply Sub.append (Sub.left _ _)
        apply Sub.trans _ (Sub.trans ih' (Sub.right _ _))
        conv => lhs; rw [hdec]
        rw [atoms_allsep_append w _ hw]
        exact Sub.refl _
      · rw [if_neg hc]
        have := ih rest (c :: cur) (by omega)
        simpa [List.append_assoc] using this

/-- **every word of the text appears in a key or a value of one of the mappings of `get_paragraphs_data(text)`** -/
theorem paragraphs_words (t : Str) : Sub (atoms t) ((getParagraphsData t).flatMap dictAtoms) := by
  unfold getParagraphsData splitInParagraphs
  have h1 := splitParagraphsAux_atoms (t.length + 1) t [] (by omega)
  simp only [List.reverse_nil, List.nil_append] at h1
  intro x hx
  obtain ⟨piece, hp, hxp⟩ := List.mem_flatMap.mp (h1 x hx)
  have hne : piece ≠ [] := by intro e; rw [e] at hxp; simp [atoms_nil] at hxp
  rw [List.flatMap_map]
  refine List.mem_flatMap.mpr ⟨piece, List.mem_filter.mpr ⟨hp, by cases piece <;> simp_all⟩, ?_⟩
  exact paragraph_words piece x hxp

/-- **C08 for every text** -/
theorem sound (t : Str) : holdsOn t (model t) = true := by
  unfold holdsOn model
  simp only [Bool.and_eq_true]
  exact ⟨(subset_iff _ _).mpr (paragraph_words t), (subset_iff _ _).mpr (paragraphs_words t)⟩

/-- non-vacuity: the words of a text with a repeated field, a continuation line, a body and a second paragraph -/
example : atoms "Package: a\nDepends: b,\n c (>= 1)\nPackage: A\n\nbody: x\n\n\nSecond: p".toList =
    ["package", "a", "depends", "b,", "c", "(>=", "1)", "package", "a", "body", "x", "second", "p"].map String.toList := by
  decide +kernel

end Props.C08W
