/-
C07 — totality of the lenient pipeline: `sound` (every text), through `from_fields`, the merge of
contiguous unknown paragraphs, the fold into an empty license, and the rendering.
-/
import DebInspector.Props.C07
import DebInspector.Proofs.CopyrightTotal

namespace Props.C07
open Py Model.Deb822 Model.Debcon Model.Copyright Proofs.CopyrightTotal

/-- the duplicate-renaming loop of `from_fields` finds an unused name within `|seen| + 1` iterations,
for every set of names seen so far and every field name (the termination argument behind F4) -/
theorem freshName_some (seen : List Str) (name : Str) (suffix : Nat) :
    ∃ n s, freshName seen name (seen.length + 1) name suffix = some (n, s) ∧ n ∉ seen :=
  Proofs.CopyrightTotal.freshName_some name seen (seen.length + 1) name suffix (Nat.lt_succ_self _) (Or.inl rfl)

/-- neither the clash assertion nor the index errors of `from_fields` can fire -/
theorem addField_ok (knownNames : List Str) (a : Acc) (f : Fld) (h : KeysSeen a) :
    ∃ a', addField knownNames a f = .ok a' ∧ KeysSeen a' :=
  Proofs.CopyrightTotal.addField_ok knownNames a f h

/-- building a paragraph of any class from any list of fields returns normally -/
theorem fromFields_ok (k : Kind) (fields : List Fld) : ∃ p, fromFields k fields = .ok p :=
  Proofs.CopyrightTotal.fromFields_ok k fields

/-- non-vacuity: the three inputs that raised on the pinned tree -/
example : Props.isOk (model "License-1: a\nLicense: b\nLicense: c\n".toList).copyright = true := by decide +kernel
example : Props.isOk (model "Files: *\nExtra-Data: x\n".toList).copyright = true := by decide +kernel
example : holdsOn [] (model "License:\n\njunk\n\nmore\n\nLicense: x\n".toList) = true := by decide +kernel


/-! ### what `from_fields` guarantees about the paragraph it builds -/

def ExtraInv (extra : List (Str × XV)) (lines : List (Str × (Nat × Nat))) : Prop :=
  ∀ kv ∈ extra, (∃ v, kv.2 = .s v) ∧ kv.1 ∈ lines.map (·.1)

theorem lset_keys_mem {α} (l : List (Str × α)) (k : Str) (v : α) : k ∈ (lset l k v).map (·.1) := by
  induction l with
  | nil => simp [lset]
  | cons kv rest ih =>
    obtain ⟨k', v'⟩ := kv
    unfold lset
    split
    · rename_i h; subst h; simp
    · simp [ih]

theorem lset_keys_mono {α} (l : List (Str × α)) (k : Str) (v : α) (x : Str) (h : x ∈ l.map (·.1)) :
    x ∈ (lset l k v).map (·.1) := by
  induction l with
  | nil => simp at h
  | cons kv rest ih =>
    obtain ⟨k', v'⟩ := kv
    unfold lset
    split
    · simpa using h
    · simp only [List.map_cons, List.mem_cons] at h ⊢
      rcases h with h | h
      · exact Or.inl h
      · exact Or.inr (ih h)

theorem addField_extraInv (knownNames : List Str) (a a' : Acc) (f : Fld)
    (h : addField knownNames a f = .ok a') (hinv : ExtraInv a.extra a.lines) : ExtraInv a'.extra a'.lines := by
  unfold addField at h
  simp only at h
  split at h
  · cases h; exact hinv
  · split at h
    · cases h
    · split at h
      · cases h
      · split at h
        · rename_i name suffix _ first last _ _
          split at h
          · cases h
            intro kv hkv
            obtain ⟨h1, h2⟩ := hinv kv hkv
            exact ⟨h1, lset_keys_mono _ _ _ _ h2⟩
          · cases h
            intro kv hkv
            simp only [List.mem_append, List.mem_singleton] at hkv
            rcases hkv with hkv | rfl
            · obtain ⟨h1, h2⟩ := hinv kv hkv
              exact ⟨h1, lset_keys_mono _ _ _ _ h2⟩
            · exact ⟨⟨_, rfl⟩, lset_keys_mem _ _ _⟩
        · cases h

theorem addFields_extraInv (knownNames : List Str) (fs : List Fld) (a a' : Acc)
    (h : addFields knownNames a fs = .ok a') (hinv : ExtraInv a.extra a.lines) : ExtraInv a'.extra a'.lines := by
  induction fs generalizing a with
  | nil => simp only [addFields] at h; cases h; exact hinv
  | cons f fs ih =>
    simp only [addFields] at h
    split at h
    · cases h
    · rename_i a1 h1
      exact ih a1 h (addField_extraInv knownNames a a1 f h1 hinv)

theorem typedFields_catchall : typedFields .catchall = [] := by decide

/-- a paragraph as `from_fields` builds it -/
def Good (p : Para) : Prop :=
  ExtraInv p.extra p.lines ∧ (p.kind = .catchall → p.fields = [])

theorem fromFields_good (k : Kind) (fields : List Fld) : ∃ p, fromFields k fields = .ok p ∧ Good p := by
  obtain ⟨p, hp⟩ := fromFields_ok k fields
  refine ⟨p, hp, ?_⟩
  unfold fromFields at hp
  simp only at hp
  split at hp
  · cases hp
  · rename_i a ha
    cases hp
    refine ⟨addFields_extraInv _ fields _ a ha (by intro kv hkv; cases hkv), ?_⟩
    intro hk
    simp only at hk
    subst hk
    simp [typedFields_catchall]

theorem mapExcept_good (groups : List (List Fld)) :
    ∃ ps, mapExcept (fun g => fromFields (classify g) g) groups = .ok ps ∧ ∀ p ∈ ps, Good p := by
  induction groups with
  | nil => exact ⟨[], rfl, by intro p hp; cases hp⟩
  | cons g gs ih =>
    obtain ⟨p, hp, hg⟩ := fromFields_good (classify g) g
    obtain ⟨ps, hps, hgs⟩ := ih
    refine ⟨p :: ps, by simp [mapExcept, hp, hps], ?_⟩
    intro q hq
    rcases List.mem_cons.mp hq with rfl | hq
    · exact hg
    · exact hgs q hq


/-! ### merging contiguous unknown paragraphs never raises -/

/-- what the fold step needs of a paragraph -/
def FoldInv (p : Para) : Prop :=
  (p.kind = .catchall → p.fields = []) ∧ ∀ k v, (k, XV.s v) ∈ p.extra → k ∈ p.lines.map (·.1)

theorem good_foldInv {p : Para} (h : Good p) : FoldInv p :=
  ⟨h.2, fun k v hkv => (h.1 (k, .s v) hkv).2⟩

def dstep (d : List (Str × DV)) (nv : Str × XV) : List (Str × DV) :=
  lset d nv.1 (match nv.2 with
    | .s v => .s (if v.isEmpty then v else asFormattedText v)
    | .emptyList => .emptyList)

theorem toDict_eq (p : Para) :
    toDict p = p.extra.foldl dstep (p.fields.map fun nf => (nf.1, .s (dumps nf.2))) := by
  unfold toDict dstep; rfl

theorem lset_mem {α} (l : List (Str × α)) (k : Str) (v : α) : ∀ kv ∈ lset l k v, kv ∈ l ∨ kv.2 = v := by
  induction l with
  | nil => intro kv h; simp [lset] at h; right; rw [h]
  | cons a rest ih =>
    obtain ⟨k', v'⟩ := a
    intro kv h
    unfold lset at h
    split at h
    · simp only [List.mem_cons] at h
      rcases h with rfl | h
      · exact Or.inr rfl
      · exact Or.inl (List.mem_cons_of_mem _ h)
    · simp only [List.mem_cons] at h
      rcases h with rfl | h
      · exact Or.inl (by simp)
      · rcases ih kv h with h | h
        · exact Or.inl (List.mem_cons_of_mem _ h)
        · exact Or.inr h

theorem foldl_dstep_values (extra : List (Str × XV)) (d : List (Str × DV))
    (he : ∀ kv ∈ extra, ∃ v, kv.2 = XV.s v) (hd : ∀ kv ∈ d, ∃ v, kv.2 = XV.s v) :
    ∀ kv ∈ extra.foldl dstep d, ∃ v, kv.2 = XV.s v := by
  induction extra generalizing d with
  | nil => exact hd
  | cons nv rest ih =>
    apply ih (dstep d nv) (fun kv h => he kv (by simp [h]))
    intro kv hkv
    rcases lset_mem _ _ _ kv hkv with h | h
    · exact hd kv h
    · obtain ⟨v, hv⟩ := he nv (by simp)
      rw [h, hv]; exact ⟨_, rfl⟩

theorem toDict_values_s (p : Para) (he : ∀ kv ∈ p.extra, ∃ v, kv.2 = XV.s v) :
    ∀ kv ∈ toDict p, ∃ v, kv.2 = XV.s v := by
  rw [toDict_eq]
  apply foldl_dstep_values _ _ he
  intro kv hkv
  simp only [List.mem_map] at hkv
  obtain ⟨nf, _, rfl⟩ := hkv
  exact ⟨_, rfl⟩

theorem lookup_lset {α} (l : List (Str × α)) (k k' : Str) (v : α) :
    (lset l k v).lookup k' = if k' = k then some v else l.lookup k' := by
  induction l with
  | nil =>
    by_cases e : k' = k
    · subst e; simp [lset]
    · have : (k' == k) = false := by simpa using e
      simp [lset, List.lookup, this, e]
  | cons a rest ih =>
    obtain ⟨a1, a2⟩ := a
    unfold lset
    by_cases hak : a1 = k
    · subst hak
      simp only [if_true, List.lookup]
      by_cases e : k' = a1
      · subst e; simp
      · have : (k' == a1) = false := by simpa using e
        simp [this, e]
    · simp only [hak, if_false, List.lookup]
      by_cases e : k' = a1
      · subst e
        have : ¬ k' = k := hak
        simp [this]
      · have : (k' == a1) = false := by simpa using e
        simp only [this, ih]

theorem foldl_dstep_lookup_s (extra : List (Str × XV)) (d : List (Str × DV)) (k : Str) (x : Str)
    (h : (extra.foldl dstep d).lookup k = some (XV.s x)) :
    (∃ v, (k, XV.s v) ∈ extra) ∨ d.lookup k = some (XV.s x) := by
  induction extra generalizing d with
  | nil => exact Or.inr h
  | cons nv rest ih =>
    rcases ih (dstep d nv) h with h' | h'
    · obtain ⟨v, hv⟩ := h'
      exact Or.inl ⟨v, List.mem_cons_of_mem _ hv⟩
    · unfold dstep at h'
      rw [lookup_lset] at h'
      by_cases e : k = nv.1
      · rw [if_pos e] at h'
        obtain ⟨n1, n2⟩ := nv
        simp only at e h'
        subst e
        cases n2 with
        | s v => exact Or.inl ⟨v, by simp⟩
        | emptyList => simp at h'
      · rw [if_neg e] at h'
        exact Or.inr h'

theorem toDict_nil_of (p : Para) (hf : p.fields = []) (he : p.extra = []) : toDict p = [] := by
  rw [toDict_eq, hf, he]; rfl

theorem mergeRun_ok (contigs : List Para) (h : ∀ p ∈ contigs, Good p ∧ p.kind = .catchall) :
    ∃ m, mergeRun contigs = .ok m ∧ FoldInv m := by
  unfold mergeRun
  simp only
  have hall : ∀ v ∈ contigs.flatMap (fun p => (toDict p).map (·.2)), ∃ x, v = XV.s x := by
    intro v hv
    simp only [List.mem_flatMap, List.mem_map] at hv
    obtain ⟨p, hp, kv, hkv, rfl⟩ := hv
    exact toDict_values_s p (fun kv hkv => ((h p hp).1.1 kv hkv).1) kv hkv
  have hany : (contigs.flatMap fun p => (toDict p).map (·.2)).any (fun v => v = XV.emptyList) = false := by
    rw [List.any_eq_false]
    intro v hv
    obtain ⟨x, rfl⟩ := hall v hv
    simp
  rw [hany]
  simp only [Bool.false_eq_true, if_false]
  refine ⟨_, rfl, fun _ => rfl, ?_⟩
  intro k v hkv
  simp only [List.mem_singleton, Prod.mk.injEq] at hkv
  obtain ⟨rfl, hv⟩ := hkv
  -- the values are not empty, so some member has an entry, hence a line range
  have hvne : (List.filterMap dvStr (contigs.flatMap fun p => (toDict p).map (·.2))) ≠ [] := by
    intro e; rw [e] at hv; simp at hv
  have hd : (contigs.flatMap fun p => (toDict p).map (·.2)) ≠ [] := by
    intro e; rw [e] at hvne; exact hvne rfl
  obtain ⟨v0, hv0⟩ := List.exists_mem_of_ne_nil _ hd
  simp only [List.mem_flatMap, List.mem_map] at hv0
  obtain ⟨p, hp, kv, hkv, _⟩ := hv0
  obtain ⟨hg, hk⟩ := h p hp
  have hex : p.extra ≠ [] := by
    intro e
    rw [toDict_nil_of p (hg.2 hk) e] at hkv
    cases hkv
  obtain ⟨e0, he0⟩ := List.exists_mem_of_ne_nil _ hex
  have hl : e0.1 ∈ p.lines.map (·.1) := (hg.1 e0 he0).2
  have hnums : (contigs.flatMap fun p => p.lines.map (·.2)) ≠ [] := by
    intro e
    have : ∀ x ∈ contigs, x.lines.map (·.2) = [] := by
      intro x hx
      have := List.flatMap_eq_nil_iff.mp e x hx
      exact this
    have := this p hp
    simp only [List.map_eq_nil_iff] at this
    rw [this] at hl
    cases hl
  cases hn : (contigs.flatMap fun p => p.lines.map (·.2)) with
  | nil => exact absurd hn hnums
  | cons n ns => simp


theorem groupByKind_props (ps : List Para) :
    ∀ g ∈ groupByKind ps, (∀ q ∈ g, q ∈ ps) ∧ (∀ q ∈ g, ∀ q' ∈ g, q.kind = q'.kind) := by
  induction ps with
  | nil => intro g hg; simp [groupByKind] at hg
  | cons p ps ih =>
    intro g hg
    unfold groupByKind at hg
    split at hg
    · rename_i q g0 rest heq
      have ih0 := ih (q :: g0) (by rw [heq]; simp)
      split at hg
      · rename_i hk
        simp only [List.mem_cons] at hg
        rcases hg with rfl | hg
        · refine ⟨?_, ?_⟩
          · intro x hx
            simp only [List.mem_cons] at hx
            rcases hx with rfl | hx
            · simp
            · exact List.mem_cons_of_mem _ (ih0.1 x (by simpa using hx))
          · intro x hx y hy
            have key : ∀ z ∈ p :: q :: g0, z.kind = p.kind := by
              intro z hz
              simp only [List.mem_cons] at hz
              rcases hz with rfl | hz
              · rfl
              · rw [← hk]; exact ih0.2 z (by simpa using hz) q (by simp)
            rw [key x hx, key y hy]
        · have := ih g (by rw [heq]; exact List.mem_cons_of_mem _ hg)
          exact ⟨fun x hx => List.mem_cons_of_mem _ (this.1 x hx), this.2⟩
      · simp only [List.mem_cons] at hg
        rcases hg with rfl | hg
        · exact ⟨by intro x hx; simp at hx; simp [hx], by intro x hx y hy; simp at hx hy; rw [hx, hy]⟩
        · have := ih g (by rw [heq]; simpa using hg)
          exact ⟨fun x hx => List.mem_cons_of_mem _ (this.1 x hx), this.2⟩
    · simp only [List.mem_singleton] at hg
      subst hg
      exact ⟨by intro x hx; simp at hx; simp [hx], by intro x hx y hy; simp at hx hy; rw [hx, hy]⟩

def mstep (acc : Except PyExc (List Para)) (g : List Para) : Except PyExc (List Para) :=
  match acc with
  | .error e => .error e
  | .ok out =>
    match g with
    | [] => .ok out
    | p :: _ =>
      if p.kind ≠ .catchall || g.length = 1 || !g.all isAllUnknown then .ok (out ++ g)
      else
        match mergeRun g with
        | .error e => .error e
        | .ok m => .ok (out ++ [m])

theorem mergeUnknown_eq (ps : List Para) : mergeUnknown ps = (groupByKind ps).foldl mstep (.ok []) := rfl

theorem foldl_mstep_ok (gs : List (List Para)) (out : List Para)
    (hg : ∀ g ∈ gs, (∀ q ∈ g, Good q) ∧ (∀ q ∈ g, ∀ q' ∈ g, q.kind = q'.kind))
    (ho : ∀ p ∈ out, FoldInv p) :
    ∃ out', gs.foldl mstep (.ok out) = .ok out' ∧ ∀ p ∈ out', FoldInv p := by
  induction gs generalizing out with
  | nil => exact ⟨out, rfl, ho⟩
  | cons g gs ih =>
    have hgs : ∀ g' ∈ gs, (∀ q ∈ g', Good q) ∧ (∀ q ∈ g', ∀ q' ∈ g', q.kind = q'.kind) :=
      fun g' h' => hg g' (List.mem_cons_of_mem _ h')
    obtain ⟨hgood, hkind⟩ := hg g (by simp)
    simp only [List.foldl_cons]
    cases g with
    | nil => exact ih out hgs ho
    | cons p rest =>
      simp only [mstep]
      split
      · apply ih _ hgs
        intro x hx
        simp only [List.mem_append] at hx
        rcases hx with hx | hx
        · exact ho x hx
        · exact good_foldInv (hgood x hx)
      · rename_i hc
        have hpk : p.kind = .catchall := by
          by_cases hk : p.kind = .catchall
          · exact hk
          · exfalso; apply hc; simp [hk]
        obtain ⟨m, hm, hmi⟩ := mergeRun_ok (p :: rest)
          (fun q hq => ⟨hgood q hq, by rw [hkind q hq p (by simp)]; exact hpk⟩)
        rw [hm]
        apply ih _ hgs
        intro x hx
        simp only [List.mem_append, List.mem_singleton] at hx
        rcases hx with hx | rfl
        · exact ho x hx
        · exact hmi

theorem mergeUnknown_ok (ps : List Para) (h : ∀ p ∈ ps, Good p) :
    ∃ out, mergeUnknown ps = .ok out ∧ ∀ p ∈ out, FoldInv p := by
  rw [mergeUnknown_eq]
  apply foldl_mstep_ok
  · intro g hg
    obtain ⟨h1, h2⟩ := groupByKind_props ps g hg
    exact ⟨fun q hq => h q (h1 q hq), h2⟩
  · intro p hp; cases hp

/-! ### folding free text into an empty license never raises -/

def foldCond (p1 p2 : Para) : Bool :=
  p1.kind = .license && licenseParaIsEmpty p1 && p2.kind = .catchall &&
    (toDict p2).map (·.1) = [unknownName] && (match toDict p2 with | [(_, v)] => dvTruthy v | _ => false)

theorem foldLoop_unfold (p1 p2 : Para) (rest : List Para) (b : Bool) :
    foldLoop (p1 :: p2 :: rest) b =
      if b then foldLoop (p2 :: rest) false
      else if foldCond p1 p2 then
        (match toDict p2, p2.lines.lookup unknownName with
         | [(_, .s text)], some rng =>
           let p1' := { setLicense p1 [] (some text) with lines := lset p1.lines "license".toList rng }
           match foldLoop (p2 :: rest) true with
           | .error e => .error e
           | .ok (out, fp) => .ok (p1' :: out, fp)
         | _, _ => .error .keyError)
      else
        (match foldLoop (p2 :: rest) false with
         | .error e => .error e
         | .ok (out, fp) => .ok (p1 :: out, fp)) := by
  rw [foldLoop]
  rfl

theorem lookup_some_of_mem {α} (l : List (Str × α)) (k : Str) (h : k ∈ l.map (·.1)) : ∃ v, l.lookup k = some v := by
  induction l with
  | nil => simp at h
  | cons a as ih =>
    obtain ⟨a1, a2⟩ := a
    simp only [List.lookup]
    by_cases e : k = a1
    · subst e; exact ⟨a2, by simp⟩
    · have hb : (k == a1) = false := by simpa using e
      simp only [hb]
      simp only [List.map_cons, List.mem_cons] at h
      rcases h with h | h
      · exact absurd h e
      · exact ih h

theorem foldLoop_ok (ps : List Para) (h : ∀ p ∈ ps, FoldInv p) (b : Bool) : ∃ r, foldLoop ps b = .ok r := by
  induction ps generalizing b with
  | nil => exact ⟨_, rfl⟩
  | cons p1 rest ih =>
    cases rest with
    | nil => exact ⟨_, rfl⟩
    | cons p2 rest =>
      have ih' := fun b => ih (fun p hp => h p (List.mem_cons_of_mem _ hp)) b
      rw [foldLoop_unfold]
      by_cases hb : b = true
      · simp only [hb, if_true]; exact ih' false
      · simp only [hb, Bool.false_eq_true, if_false]
        by_cases hc : foldCond p1 p2 = true
        · simp only [hc, if_true]
          unfold foldCond at hc
          simp only [Bool.and_eq_true, decide_eq_true_eq] at hc
          obtain ⟨⟨⟨⟨_, _⟩, hk2⟩, hkeys⟩, htruthy⟩ := hc
          have hfi := h p2 (by simp)
          cases hd : toDict p2 with
          | nil => rw [hd] at hkeys; simp at hkeys
          | cons kv tl =>
            rw [hd] at hkeys htruthy
            cases tl with
            | cons _ _ => simp at hkeys
            | nil =>
              obtain ⟨k, v⟩ := kv
              simp only [List.map_cons, List.map_nil, List.cons.injEq, and_true] at hkeys
              subst hkeys
              cases v with
              | emptyList => simp [dvTruthy] at htruthy
              | s text =>
                have hlk : (toDict p2).lookup unknownName = some (XV.s text) := by rw [hd]; simp [List.lookup]
                rw [toDict_eq, hfi.1 hk2] at hlk
                rcases foldl_dstep_lookup_s _ _ _ _ hlk with ⟨v, hv⟩ | hbad
                · obtain ⟨rng, hrng⟩ := lookup_some_of_mem _ _ (hfi.2 _ _ hv)
                  rw [hrng]
                  simp only
                  obtain ⟨r, hr⟩ := ih' true
                  rw [hr]
                  exact ⟨_, rfl⟩
                · simp at hbad
        · simp only [hc, Bool.false_eq_true, if_false]
          obtain ⟨r, hr⟩ := ih' false
          rw [hr]
          exact ⟨_, rfl⟩

theorem foldLicense_ok (ps : List Para) (h : ∀ p ∈ ps, FoldInv p) : ∃ out, foldLicense ps = .ok out := by
  unfold foldLicense
  split
  · exact ⟨_, rfl⟩
  · obtain ⟨r, hr⟩ := foldLoop_ok ps h false
    rw [hr]
    simp only
    split
    · exact ⟨_, rfl⟩
    · split <;> exact ⟨_, rfl⟩

/-- **building a copyright object from any text returns normally** -/
theorem fromText_ok (t : Str) : ∃ ps, fromText t = .ok ps := by
  unfold fromText fromFieldsGroups
  obtain ⟨ps, hps, hg⟩ := mapExcept_good (parse t)
  rw [hps]
  obtain ⟨out, ho, hf⟩ := mergeUnknown_ok ps hg
  simp only [ho]
  exact foldLicense_ok out hf


/-! ### rendering raises nothing (the model leaves non-ASCII field names outside) -/

theorem baseDumps_cases (p : Para) : (∃ s, baseDumps p = .ok s) ∨ baseDumps p = .error .outOfModel := by
  unfold baseDumps
  simp only
  split
  · exact Or.inr rfl
  · exact Or.inl ⟨_, rfl⟩

theorem paraDumps_cases (p : Para) : (∃ s, paraDumps p = .ok s) ∨ paraDumps p = .error .outOfModel := by
  unfold paraDumps
  split
  · split
    · exact Or.inl ⟨_, rfl⟩
    · exact baseDumps_cases p
  · split
    · exact Or.inl ⟨_, rfl⟩
    · exact baseDumps_cases p
  · exact baseDumps_cases p

theorem mapExcept_cases {α β} (f : α → Except PyExc β) (e0 : PyExc) (l : List α)
    (h : ∀ a ∈ l, (∃ b, f a = .ok b) ∨ f a = .error e0) :
    (∃ bs, mapExcept f l = .ok bs) ∨ mapExcept f l = .error e0 := by
  induction l with
  | nil => exact Or.inl ⟨[], rfl⟩
  | cons a as ih =>
    unfold mapExcept
    rcases h a (by simp) with ⟨b, hb⟩ | hb
    · rw [hb]
      simp only
      rcases ih (fun x hx => h x (List.mem_cons_of_mem _ hx)) with ⟨bs, hbs⟩ | hbs
      · rw [hbs]; exact Or.inl ⟨_, rfl⟩
      · rw [hbs]; exact Or.inr rfl
    · rw [hb]; exact Or.inr rfl

theorem docDumps_cases (ps : List Para) : (∃ s, docDumps ps = .ok s) ∨ docDumps ps = .error .outOfModel := by
  unfold docDumps
  rcases mapExcept_cases paraDumps .outOfModel ps (fun p _ => paraDumps_cases p) with ⟨ds, h⟩ | h
  · rw [h]; exact Or.inl ⟨_, rfl⟩
  · rw [h]; exact Or.inr rfl

/-- **C07** — for every Unicode text the model of every lenient entry point returns normally:
both parsers, building the copyright object, its dictionary forms, its rendering (which the model
leaves only for non-ASCII field names, `OutOfModel`), both validity checks; and evaluating twice gives
equal results (the model is a function). -/
theorem sound (t : Str) : holdsOn t (model t) = true := by
  obtain ⟨ps, hps⟩ := fromText_ok t
  unfold holdsOn model
  simp only [hps, Props.isOk, Bool.true_and, Bool.and_true]
  rcases docDumps_cases ps with ⟨s, hs⟩ | hs
  · rw [hs]
  · rw [hs]; rfl


end Props.C07
