/-
C07 — totality of the lenient pipeline: property theorems proved so far.
-/
import DebInspector.Props.C07
import DebInspector.Proofs.CopyrightTotal

namespace Props.C07
open Py Model.Deb822 Model.Copyright Proofs.CopyrightTotal

/-- the duplicate-renaming loop of `from_fields` finds an unused name within `|seen| + 1` iterations,
for every set of names seen so far and every field name (the termination argument behind F4) -/
theorem freshName_some (seen : List Str) (name : Str) (suffix : Nat) :
    ∃ n s, freshName seen name (seen.length + 1) name suffix = some (n, s) ∧ n ∉ seen :=
  Proofs.CopyrightTotal.freshName_some name seen (seen.length + 1) name suffix (Nat.lt_succ_self _) (Or.inl rfl)

/-- neither the clash assertion nor the index errors of `from_fields` can fire -/
theorem addField_ok (knownNames : List Str) (a : Acc) (f : Fld) (h : KeysSeen a) :
    ∃ a', addField knownNames a f = .ok a' ∧ KeysSeen a' :=
  Proofs.CopyrightTotal.addField_ok knownNames a f h

/-- building a paragraph of any class from any list of fields returns normally -/
theorem fromFields_ok (k : Kind) (fields : List Fld) : ∃ p, fromFields k fields = .ok p :=
  Proofs.CopyrightTotal.fromFields_ok k fields

/-- non-vacuity: the three inputs that raised on the pinned tree -/
example : Props.isOk (model "License-1: a\nLicense: b\nLicense: c\n".toList).copyright = true := by decide +kernel
example : Props.isOk (model "Files: *\nExtra-Data: x\n".toList).copyright = true := by decide +kernel
example : holdsOn [] (model "License:\n\njunk\n\nmore\n\nLicense: x\n".toList) = true := by decide +kernel

end Props.C07
