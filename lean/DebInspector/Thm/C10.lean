/-
C10 — the line-number shift behind the shift clause.
-/
import DebInspector.Props.C10

namespace Props.C10
open Py Model.Deb822

theorem splitLinesAscii_nl (t : Str) : splitLinesAscii ('\n' :: t) = [] :: splitLinesAscii t := by
  simp [splitLinesAscii, splitLinesAsciiAux]

theorem splitLinesAscii_blank_prefix (k : Nat) (t : Str) :
    splitLinesAscii (List.replicate k '\n' ++ t) = List.replicate k [] ++ splitLinesAscii t := by
  induction k with
  | zero => simp
  | succ k ih => simp [List.replicate_succ, splitLinesAscii_nl, ih]

def shiftNL (k : Nat) (l : NL) : NL := ⟨l.num + k, l.val⟩

theorem numberFrom_shift (n k : Nat) (ls : List Str) :
    numberFrom (n + k) ls = (numberFrom n ls).map (shiftNL k) := by
  induction ls generalizing n with
  | nil => rfl
  | cons l ls ih =>
    simp only [numberFrom, List.map_cons, shiftNL]
    have : n + k + 1 = (n + 1) + k := by omega
    rw [this, ih]

theorem numberFrom_append (n : Nat) (a b : List Str) :
    numberFrom n (a ++ b) = numberFrom n a ++ numberFrom (n + a.length) b := by
  induction a generalizing n with
  | nil => simp [numberFrom]
  | cons x xs ih =>
    simp only [List.cons_append, numberFrom, ih, List.length_cons]
    have : n + 1 + xs.length = n + (xs.length + 1) := by omega
    rw [this]

/-- **prepending `k` blank lines shifts the number of every source line by exactly `k`**: the source
lines of the new text are `k` empty lines numbered `1..k` followed by the old lines renumbered `+k` -/
theorem linesFromText_shift (k : Nat) (t : Str) :
    linesFromText (List.replicate k '\n' ++ t) =
      numberFrom 1 (List.replicate k []) ++ (linesFromText t).map (shiftNL k) := by
  unfold linesFromText
  rw [splitLinesAscii_blank_prefix, numberFrom_append, List.length_replicate, numberFrom_shift]

/-- non-vacuity: a merged block of free text in the middle of a file and a folded license -/
example : (model ⟨"Files: *\nCopyright: x\n\njunk one\njunk two\n".toList, 0⟩).base =
    .ok [⟨.files, [("files".toList, .s "*".toList), ("copyright".toList, .s "x".toList),
                   ("license".toList, .s []), ("comment".toList, .s [])],
          [("files".toList, (1, 1)), ("copyright".toList, (2, 2))]⟩,
         ⟨.catchall, [("unknown".toList, .s "junk one\n junk two".toList)], [("unknown".toList, (4, 5))]⟩] := by
  decide +kernel
example : holdsOn ⟨"Files: *\nLicense:\n\n some text\n more\n".toList, 3⟩
    (model ⟨"Files: *\nLicense:\n\n some text\n more\n".toList, 3⟩) = true := by decide +kernel

end Props.C10
