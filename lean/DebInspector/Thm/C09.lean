/-
C09 — classification and year-range theorems.
-/
import DebInspector.Props.C09

namespace Props.C09
open Py Model.Deb822 Model.Copyright

/-- a group with a `Format` (or `Format-Specification`) field is a header paragraph, whatever else it
holds and in whatever order -/
theorem classify_header (fields : List Fld) (h : ∃ f ∈ fields, f.name = "format".toList ∨ f.name = "format-specification".toList) :
    classify fields = .header := by
  obtain ⟨f, hf, hn⟩ := h
  unfold classify
  have : ((fields.map (·.name)).contains "format".toList || (fields.map (·.name)).contains "format-specification".toList) = true := by
    simp only [Bool.or_eq_true, List.contains_iff_mem, List.mem_map]
    rcases hn with e | e
    · exact Or.inl ⟨f, hf, e⟩
    · exact Or.inr ⟨f, hf, e⟩
  simp only [this, if_true]

/-- without a format field, a group with a `Files` field is a files paragraph -/
theorem classify_files (fields : List Fld)
    (h0 : ∀ f ∈ fields, f.name ≠ "format".toList ∧ f.name ≠ "format-specification".toList)
    (h : ∃ f ∈ fields, f.name = "files".toList) : classify fields = .files := by
  obtain ⟨f, hf, hn⟩ := h
  unfold classify
  have n1 : (fields.map (·.name)).contains "format".toList = false := by
    simp only [List.contains_eq_mem, decide_eq_false_iff_not, List.mem_map, not_exists, not_and]
    intro g hg; exact (h0 g hg).1
  have n2 : (fields.map (·.name)).contains "format-specification".toList = false := by
    simp only [List.contains_eq_mem, decide_eq_false_iff_not, List.mem_map, not_exists, not_and]
    intro g hg; exact (h0 g hg).2
  have y : (fields.map (·.name)).contains "files".toList = true := by
    simp only [List.contains_iff_mem, List.mem_map]; exact ⟨f, hf, hn⟩
  simp only [n1, n2, y, Bool.or_self, Bool.false_eq_true, if_false, if_true]

/-- without format and files fields, a group with a `License` field is a stand-alone license paragraph -/
theorem classify_license (fields : List Fld)
    (h0 : ∀ f ∈ fields, f.name ≠ "format".toList ∧ f.name ≠ "format-specification".toList ∧ f.name ≠ "files".toList)
    (h : ∃ f ∈ fields, f.name = "license".toList) : classify fields = .license := by
  obtain ⟨f, hf, hn⟩ := h
  unfold classify
  have n1 : (fields.map (·.name)).contains "format".toList = false := by
    simp only [List.contains_eq_mem, decide_eq_false_iff_not, List.mem_map, not_exists, not_and]
    intro g hg; exact (h0 g hg).1
  have n2 : (fields.map (·.name)).contains "format-specification".toList = false := by
    simp only [List.contains_eq_mem, decide_eq_false_iff_not, List.mem_map, not_exists, not_and]
    intro g hg; exact (h0 g hg).2.1
  have n3 : (fields.map (·.name)).contains "files".toList = false := by
    simp only [List.contains_eq_mem, decide_eq_false_iff_not, List.mem_map, not_exists, not_and]
    intro g hg; exact (h0 g hg).2.2
  have y : (fields.map (·.name)).contains "license".toList = true := by
    simp only [List.contains_iff_mem, List.mem_map]; exact ⟨f, hf, hn⟩
  simp only [n1, n2, n3, y, Bool.or_self, Bool.false_eq_true, if_false, if_true]

/-- every punctuation character of the specification is in the set the code extracted from `is_year_range` -/
theorem punct_subset : ∀ c ∈ Dep5.punct, yearPunct.contains c = true := by decide +kernel

theorem asciiDigit_table : ∀ n, n < 128 → (Char.ofNat n).isDigit = true →
    isDigitU (Char.ofNat n) = true ∧ yearPunct.contains (Char.ofNat n) = true := by decide +kernel

theorem digit_facts {c : Char} (h : c.isDigit = true) : isDigitU c = true ∧ yearPunct.contains c = true := by
  have hlt : c.toNat < 128 := by
    simp only [Char.isDigit, Bool.and_eq_true, decide_eq_true_eq] at h
    have := UInt32.le_iff_toNat_le.mp h.2
    have e : c.toNat = c.val.toNat := rfl
    simp at this; omega
  have := asciiDigit_table c.toNat hlt
  rw [Char.ofNat_toNat] at this
  exact this h

/-- **year ranges**: every token made of ASCII digits and punctuation with at least one digit — `2001`,
`2001-2003,`, `1999/2000` — is taken as a year range by the model of `is_year_range` -/
theorem yearSpec_isYearRange (t : Str) (h : Dep5.isYearSpec t = true) : isYearRange t = true := by
  simp only [Dep5.isYearSpec, Bool.and_eq_true, Bool.not_eq_true', List.isEmpty_eq_false_iff, List.all_eq_true,
    List.any_eq_true, Bool.or_eq_true] at h
  obtain ⟨⟨hne, hall⟩, d, hd, hdig⟩ := h
  unfold isYearRange
  have hne' : t.isEmpty = false := by cases t <;> simp_all
  have hp : t.all (yearPunct.contains ·) = true := by
    rw [List.all_eq_true]
    intro c hc
    rcases hall c hc with h1 | h1
    · exact (digit_facts h1).2
    · exact punct_subset c (by simpa using h1)
  have hany : t.any isDigitU = true := by
    rw [List.any_eq_true]; exact ⟨d, hd, (digit_facts hdig).1⟩
  simp only [hne', hp, hany, Bool.not_false, Bool.and_self, Bool.or_true, Bool.true_and]

end Props.C09
