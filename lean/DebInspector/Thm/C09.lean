/-
C09 — classification and year-range theorems; the typed value of every field kind of the grammar
(`single_typed`, `wsSep_typed`, `copyright_typed`, `license_typed`, `formatted_typed`, `extra_typed`).
-/
import DebInspector.Props.C09
import DebInspector.Proofs.Splitlines
import DebInspector.Proofs.SplitJoin
import DebInspector.Proofs.VersionPrint

namespace Props.C09
open Py Model.Deb822 Model.Copyright

/-- a group with a `Format` (or `Format-Specification`) field is a header paragraph, whatever else it
holds and in whatever order -/
theorem classify_header (fields : List Fld) (h : ∃ f ∈ fields, f.name = "format".toList ∨ f.name = "format-specification".toList) :
    classify fields = .header := by
  obtain ⟨f, hf, hn⟩ := h
  unfold classify
  have : ((fields.map (·.name)).contains "format".toList || (fields.map (·.name)).contains "format-specification".toList) = true := by
    simp only [Bool.or_eq_true, List.contains_iff_mem, List.mem_map]
    rcases hn with e | e
    · exact Or.inl ⟨f, hf, e⟩
    · exact Or.inr ⟨f, hf, e⟩
  simp only [this, if_true]

/-- without a format field, a group with a `Files` field is a files paragraph -/
theorem classify_files (fields : List Fld)
    (h0 : ∀ f ∈ fields, f.name ≠ "format".toList ∧ f.name ≠ "format-specification".toList)
    (h : ∃ f ∈ fields, f.name = "files".toList) : classify fields = .files := by
  obtain ⟨f, hf, hn⟩ := h
  unfold classify
  have n1 : (fields.map (·.name)).contains "format".toList = false := by
    simp only [List.contains_eq_mem, decide_eq_false_iff_not, List.mem_map, not_exists, not_and]
    intro g hg; exact (h0 g hg).1
  have n2 : (fields.map (·.name)).contains "format-specification".toList = false := by
    simp only [List.contains_eq_mem, decide_eq_false_iff_not, List.mem_map, not_exists, not_and]
    intro g hg; exact (h0 g hg).2
  have y : (fields.map (·.name)).contains "files".toList = true := by
    simp only [List.contains_iff_mem, List.mem_map]; exact ⟨f, hf, hn⟩
  simp only [n1, n2, y, Bool.or_self, Bool.false_eq_true, if_false, if_true]

/-- without format and files fields, a group with a `License` field is a stand-alone license paragraph -/
theorem classify_license (fields : List Fld)
    (h0 : ∀ f ∈ fields, f.name ≠ "format".toList ∧ f.name ≠ "format-specification".toList ∧ f.name ≠ "files".toList)
    (h : ∃ f ∈ fields, f.name = "license".toList) : classify fields = .license := by
  obtain ⟨f, hf, hn⟩ := h
  unfold classify
  have n1 : (fields.map (·.name)).contains "format".toList = false := by
    simp only [List.contains_eq_mem, decide_eq_false_iff_not, List.mem_map, not_exists, not_and]
    intro g hg; exact (h0 g hg).1
  have n2 : (fields.map (·.name)).contains "format-specification".toList = false := by
    simp only [List.contains_eq_mem, decide_eq_false_iff_not, List.mem_map, not_exists, not_and]
    intro g hg; exact (h0 g hg).2.1
  have n3 : (fields.map (·.name)).contains "files".toList = false := by
    simp only [List.contains_eq_mem, decide_eq_false_iff_not, List.mem_map, not_exists, not_and]
    intro g hg; exact (h0 g hg).2.2
  have y : (fields.map (·.name)).contains "license".toList = true := by
    simp only [List.contains_iff_mem, List.mem_map]; exact ⟨f, hf, hn⟩
  simp only [n1, n2, n3, y, Bool.or_self, Bool.false_eq_true, if_false, if_true]

/-- every punctuation character of the specification is in the set the code extracted from `is_year_range` -/
theorem punct_subset : ∀ c ∈ Dep5.punct, yearPunct.contains c = true := by decide +kernel

theorem asciiDigit_table : ∀ n, n < 128 → (Char.ofNat n).isDigit = true →
    isDigitU (Char.ofNat n) = true ∧ yearPunct.contains (Char.ofNat n) = true := by decide +kernel

theorem digit_facts {c : Char} (h : c.isDigit = true) : isDigitU c = true ∧ yearPunct.contains c = true := by
  have hlt : c.toNat < 128 := by
    simp only [Char.isDigit, Bool.and_eq_true, decide_eq_true_eq] at h
    have := UInt32.le_iff_toNat_le.mp h.2
    have e : c.toNat = c.val.toNat := rfl
    simp at this; omega
  have := asciiDigit_table c.toNat hlt
  rw [Char.ofNat_toNat] at this
  exact this h

end Props.C09

/-! ## the field converters on the grammar -/

namespace Props.C09
open Py Model.Debcon Model.Copyright Props.Dep5 Proofs.Splitlines

/-! ### continuation lines of the grammar decode to what they spell -/

theorem plain_noB (s : Str) (h : plain s = true) : NoB s := by
  intro c hc
  have := List.all_eq_true.mp h c hc
  simp only [Bool.and_eq_true, Bool.not_eq_true'] at this
  exact this.1

theorem rstrip_of_lastNonspace (s : Str) (hne : s ≠ []) (h : lastP isSpace s = false) : rstrip s = s := by
  apply rstrip_of_last
  induction s with
  | nil => exact absurd rfl hne
  | cons c cs ih =>
    cases cs with
    | nil => simpa [lastP] using h
    | cons d ds => simpa [lastP] using ih (by simp) (by simpa [lastP] using h)

structure TFacts (l : TLine) : Prop where
  rawNoB : NoB (rawLine l)
  rawNe : rawLine l ≠ []
  dec : decLine (rawLine l) = decodeLine l

theorem tline_facts (l : TLine) (h : tlineOk l = true) : TFacts l := by
  unfold tlineOk at h
  have hspB : isBoundary ' ' = false := by decide
  have hdotB : isBoundary '.' = false := by decide
  match hk : l.kind with
  | 0 =>
    rw [hk] at h
    simp only [Bool.and_eq_true, Bool.not_eq_true', List.isEmpty_eq_false_iff, trimmed] at h
    obtain ⟨⟨⟨hne, hpl⟩, ⟨hh, hl⟩⟩, hdot⟩ := h
    have hraw : rawLine l = ' ' :: l.content := by simp [rawLine, hk]
    refine ⟨?_, by rw [hraw]; simp, ?_⟩
    · rw [hraw]
      intro c hc
      rcases List.mem_cons.mp hc with rfl | hc
      · exact hspB
      · exact plain_noB _ hpl c hc
    · rw [hraw]
      have hnb : isBlank l.content = false := isBlank_of_head hh hne
      have hr : rstrip l.content = l.content := rstrip_of_lastNonspace _ hne hl
      have hsb : isBlank (' ' :: l.content) = false := by rw [isBlank_cons, hnb]; simp
      have e1 : rstrip (' ' :: l.content) = ' ' :: l.content := by rw [rstrip_cons_of_nonblank _ _ hsb, hr]
      cases hc : l.content with
      | nil => exact absurd hc hne
      | cons c cs =>
        rw [hc] at hh hdot e1 hr
        have hcs : isSpace c = false := by simpa [headP] using hh
        have hcsp : c ≠ ' ' := by intro e; subst e; revert hcs; decide
        have hcd : c ≠ '.' := by simpa [headP] using hdot
        unfold decLine
        simp only [e1]
        have hsp : isSpace ' ' = true := by decide
        simp [startsWith, hcsp, hcd, strip, lstrip, hcs, hr, decodeLine, hk, hc, hsp]
  | 1 =>
    rw [hk] at h
    have hraw : rawLine l = [' ', '.'] := by simp [rawLine, hk]
    refine ⟨?_, by rw [hraw]; simp, ?_⟩
    · rw [hraw]; intro c hc; simp at hc; rcases hc with rfl | rfl <;> decide
    · rw [hraw]; simp [decodeLine, hk]; decide
  | n + 2 =>
    have hk2 : l.kind = 2 := by
      rw [hk] at h
      match n, h with
      | 0, _ => exact hk
      | _ + 1, h => simp at h
    rw [hk2] at h
    simp only [Bool.and_eq_true, Bool.not_eq_true', List.isEmpty_eq_false_iff] at h
    obtain ⟨⟨hne, hpl⟩, hl⟩ := h
    have hraw : rawLine l = ' ' :: ' ' :: l.content := by simp [rawLine, hk2]
    refine ⟨?_, by rw [hraw]; simp, ?_⟩
    · rw [hraw]
      intro c hc
      simp only [List.mem_cons] at hc
      rcases hc with rfl | rfl | hc
      · exact hspB
      · exact hspB
      · exact plain_noB _ hpl c hc
    · rw [hraw]
      have hr : rstrip l.content = l.content := rstrip_of_lastNonspace _ hne hl
      have hnb : isBlank l.content = false := by
        cases hb : isBlank l.content with
        | false => rfl
        | true => have := (rstrip_eq_nil_iff _).mpr hb; rw [hr] at this; exact absurd this hne
      have h1 : isBlank (' ' :: l.content) = false := by rw [isBlank_cons, hnb]; simp
      have h2 : isBlank (' ' :: ' ' :: l.content) = false := by rw [isBlank_cons, h1]; simp
      have e1 : rstrip (' ' :: ' ' :: l.content) = ' ' :: ' ' :: l.content := by
        rw [rstrip_cons_of_nonblank _ _ h2, rstrip_cons_of_nonblank _ _ h1, hr]
      unfold decLine
      simp only [e1]
      simp [startsWith, decodeLine, hk2]


theorem joinNl_eq (ls : List Str) : Dep5.joinNl ls = Model.Debcon.joinNl ls := by
  induction ls with
  | nil => rfl
  | cons l ls ih =>
    cases ls with
    | nil => rfl
    | cons m r => simp only [Dep5.joinNl, Model.Debcon.joinNl, ih]

theorem dropLastEmpty_id (ls : List Str) (h : ∀ l ∈ ls.getLast?, l ≠ []) : dropLastEmpty ls = ls := by
  induction ls with
  | nil => rfl
  | cons l ls ih =>
    cases ls with
    | nil =>
      have := h l (by simp)
      have : l.isEmpty = false := by cases l <;> simp_all
      simp [dropLastEmpty, this]
    | cons m r =>
      simp only [dropLastEmpty]
      rw [ih (fun x hx => h x (by simpa [List.getLast?_cons_cons] using hx))]

/-- the lines of a value: its first line and the continuation lines as written -/
theorem splitlines_value' (first : Str) (conts : List TLine) (hf : NoB first) (hfne : first ≠ [])
    (hc : ∀ l ∈ conts, NoB (rawLine l) ∧ rawLine l ≠ []) :
    splitlines (Model.Debcon.joinNl (first :: conts.map rawLine)) = first :: conts.map rawLine := by
  rw [splitlines_joinNl _ (by
    intro l hl
    rcases List.mem_cons.mp hl with rfl | hl
    · exact hf
    · simp only [List.mem_map] at hl
      obtain ⟨t, ht, rfl⟩ := hl
      exact (hc t ht).1)]
  apply dropLastEmpty_id
  intro l hl
  have hm : l ∈ first :: conts.map rawLine := List.mem_of_getLast? hl
  rcases List.mem_cons.mp hm with rfl | hm
  · exact hfne
  · simp only [List.mem_map] at hm
    obtain ⟨t, ht, rfl⟩ := hm
    exact (hc t ht).2

theorem splitlines_value (first : Str) (conts : List TLine) (hf : NoB first) (hfne : first ≠ [])
    (hc : ∀ l ∈ conts, TFacts l) :
    splitlines (Model.Debcon.joinNl (first :: conts.map rawLine)) = first :: conts.map rawLine :=
  splitlines_value' first conts hf hfne (fun l hl => ⟨(hc l hl).rawNoB, (hc l hl).rawNe⟩)

theorem map_decLine_raw (conts : List TLine) (hc : ∀ l ∈ conts, TFacts l) :
    (conts.map rawLine).map decLine = conts.map decodeLine := by
  rw [List.map_map]
  apply List.map_congr_left
  intro l hl
  exact (hc l hl).dec

theorem strip_trimmed (s : Str) (h : trimmed s = true) : strip s = s := by
  simp only [trimmed, Bool.and_eq_true, Bool.not_eq_true'] at h
  cases hs : s with
  | nil => rfl
  | cons c cs =>
    rw [hs] at h
    have := strip_core [] (c :: cs) [] (by simp) (by simp) h.1 (by
      have hl := h.2
      clear h hs
      induction cs generalizing c with
      | nil => simpa [lastP] using hl
      | cons d ds ih => simpa [lastP] using ih d (by simpa [lastP] using hl))
    simpa using this

/-- the first line of a text block (a paragraph line) stripped is its content; the others decode -/
theorem fromFormattedLines_block (conts : List TLine) (hne : conts ≠ []) (hb : blockOk conts = true) :
    fromFormattedLines (conts.map rawLine) = Model.Debcon.joinNl (conts.map decodeLine) ∧
    headP isSpace (Model.Debcon.joinNl (conts.map decodeLine)) = false ∧
    Model.Debcon.joinNl (conts.map decodeLine) ≠ [] := by
  simp only [blockOk, Bool.and_eq_true, List.all_eq_true] at hb
  obtain ⟨⟨hall, hhead⟩, _⟩ := hb
  have hfacts : ∀ l ∈ conts, TFacts l := fun l hl => tline_facts l (hall l hl)
  cases conts with
  | nil => exact absurd rfl hne
  | cons t ts =>
    have hk : t.kind = 0 := by simpa using hhead
    have htl := hall t (by simp)
    unfold tlineOk at htl
    rw [hk] at htl
    simp only [Bool.and_eq_true, Bool.not_eq_true', List.isEmpty_eq_false_iff] at htl
    obtain ⟨⟨⟨hcne, _⟩, htrim⟩, _⟩ := htl
    have hraw : rawLine t = ' ' :: t.content := by simp [rawLine, hk]
    have hdec : decodeLine t = t.content := by simp [decodeLine, hk]
    have hstrip : strip (rawLine t) = t.content := by
      rw [hraw]
      have := strip_trimmed t.content htrim
      have hsp : isSpace ' ' = true := by decide
      simp only [strip, lstrip, hsp, if_true] at this ⊢
      exact this
    have hhd : headP isSpace t.content = false := by
      simp only [trimmed, Bool.and_eq_true, Bool.not_eq_true'] at htrim; exact htrim.1
    refine ⟨?_, ?_, ?_⟩
    · simp only [List.map_cons, fromFormattedLines, hstrip, hdec]
      rw [map_decLine_raw ts (fun l hl => hfacts l (by simp [hl]))]
    · simp only [List.map_cons, hdec]
      cases hc : t.content with
      | nil => exact absurd hc hcne
      | cons c cs =>
        rw [hc] at hhd
        cases ts <;> simpa [Model.Debcon.joinNl, headP] using hhd
    · simp only [List.map_cons, hdec]
      cases hc : t.content with
      | nil => exact absurd hc hcne
      | cons c cs => cases ts <;> simp [Model.Debcon.joinNl]


theorem joinNl_ne_nil' (l : Str) (ls : List Str) (h : l ≠ []) : Model.Debcon.joinNl (l :: ls) ≠ [] := by
  cases ls with
  | nil => simpa [Model.Debcon.joinNl] using h
  | cons m ms => cases l <;> simp_all [Model.Debcon.joinNl]

/-- **license fields**: the short name is the first line, the text the decoded continuation lines -/
theorem license_typed (f : Field) (hk : f.kind = 3) (h : fieldOk f = true) :
    fromValue "LicenseField" (some (Model.Debcon.joinNl (f.first :: f.conts.map rawLine))) = expectedFV f := by
  simp only [fieldOk, hk, Bool.and_eq_true, Bool.not_eq_true', List.isEmpty_eq_false_iff] at h
  obtain ⟨⟨⟨_, hpl⟩, htrim⟩, hfne, hblock⟩ := h
  have hbo := hblock
  simp only [blockOk, Bool.and_eq_true, List.all_eq_true] at hbo
  have hfacts : ∀ l ∈ f.conts, TFacts l := fun l hl => tline_facts l (hbo.1.1 l hl)
  have hv : (Model.Debcon.joinNl (f.first :: f.conts.map rawLine)).isEmpty = false := by
    have := joinNl_ne_nil' f.first (f.conts.map rawLine) hfne
    cases hj : Model.Debcon.joinNl (f.first :: f.conts.map rawLine) with
    | nil => exact absurd hj this
    | cons _ _ => rfl
  have hsl := splitlines_value f.first f.conts (plain_noB _ hpl) hfne hfacts
  have hname : strip f.first = f.first := strip_trimmed _ htrim
  simp only [fromValue, String.reduceEq, if_false, Option.getD_some, expectedFV, hk, licenseFromValue,
    descriptionFromValue, lineSeparated, hv, Bool.false_eq_true, hsl, hname]
  cases hc : f.conts with
  | nil => simp
  | cons t ts =>
    rw [hc] at hblock
    obtain ⟨h1, h2, h3⟩ := fromFormattedLines_block (t :: ts) (by simp) hblock
    have hie : (Model.Debcon.joinNl ((t :: ts).map decodeLine)).isEmpty = false := by
      cases hj : Model.Debcon.joinNl ((t :: ts).map decodeLine) with
      | nil => exact absurd hj h3
      | cons _ _ => rfl
    simp only [List.map_cons, List.isEmpty_cons, Bool.false_eq_true, if_false, Option.map_some] at h1 ⊢
    rw [h1]
    simp only [List.map_cons] at hie h2
    simp only [hie, Bool.false_eq_true, if_false, lstrip_of_head h2, joinNl_eq]

theorem formatted_conts_ok (f : Field) (hk : f.kind = 4) (h : fieldOk f = true) : ∀ l ∈ f.conts, tlineOk l = true := by
  simp only [fieldOk, hk, Bool.and_eq_true] at h
  have hblock := h.2.1
  by_cases hfe : f.first.isEmpty = true
  · simp only [hfe, if_true, blockOk, Bool.and_eq_true, List.all_eq_true] at hblock
    exact hblock.1.1
  · simp only [hfe, Bool.false_eq_true, if_false, bodyOk, Bool.and_eq_true, List.all_eq_true] at hblock
    exact hblock.1

/-- **formatted-text fields** (Comment, Source, Disclaimer), as `from_fields` hands them over
(left-stripped): the text is the first line, if any, and the decoded continuation lines -/
theorem formatted_typed (f : Field) (hk : f.kind = 4) (h : fieldOk f = true) :
    fromValue "FormattedTextField" (some (lstrip (Model.Debcon.joinNl (f.first :: f.conts.map rawLine)))) = expectedFV f := by
  simp only [fieldOk, hk, Bool.and_eq_true, Bool.not_eq_true', Bool.or_eq_true, List.isEmpty_eq_false_iff] at h
  obtain ⟨⟨⟨_, hpl⟩, htrim⟩, hblock, hsome⟩ := h
  have hall : ∀ l ∈ f.conts, tlineOk l = true := by
    by_cases hfe : f.first.isEmpty = true
    · simp only [hfe, if_true, blockOk, Bool.and_eq_true, List.all_eq_true] at hblock
      exact hblock.1.1
    · simp only [hfe, Bool.false_eq_true, if_false, bodyOk, Bool.and_eq_true, List.all_eq_true] at hblock
      exact hblock.1
  have hfacts : ∀ l ∈ f.conts, TFacts l := fun l hl => tline_facts l (hall l hl)
  by_cases hfe : f.first = []
  · -- the value starts on the first continuation line
    have hblock : blockOk f.conts = true := by simpa [hfe] using hblock
    have hcne : f.conts ≠ [] := by
      rcases hsome with h | h
      · exact absurd hfe h
      · exact h
    cases hc : f.conts with
    | nil => exact absurd hc hcne
    | cons t ts =>
      rw [hc] at hblock hfacts
      obtain ⟨h1, h2, h3⟩ := fromFormattedLines_block (t :: ts) (by simp) hblock
      have hk0 : t.kind = 0 := by
        simp only [blockOk, Bool.and_eq_true] at hblock
        simpa using hblock.1.2
      have hraw : rawLine t = ' ' :: t.content := by simp [rawLine, hk0]
      have htok := hall t (by rw [hc]; simp)
      unfold tlineOk at htok
      rw [hk0] at htok
      simp only [Bool.and_eq_true, Bool.not_eq_true', List.isEmpty_eq_false_iff, trimmed] at htok
      obtain ⟨⟨⟨hcne', hcpl⟩, ⟨hch, _⟩⟩, _⟩ := htok
      -- left-stripping removes the line break and the indentation of the first continuation line
      have hl : lstrip (Model.Debcon.joinNl ([] :: (t :: ts).map rawLine)) =
          Model.Debcon.joinNl (t.content :: ts.map rawLine) := by
        have hnl : isSpace '\n' = true := by decide
        have hsp : isSpace ' ' = true := by decide
        have e : Model.Debcon.joinNl ([] :: (t :: ts).map rawLine) = '\n' :: ' ' :: Model.Debcon.joinNl (t.content :: ts.map rawLine) := by
          cases ts <;> simp [Model.Debcon.joinNl, hraw]
        rw [e]
        simp only [lstrip, hnl, hsp, if_true]
        apply lstrip_of_head
        cases hcc : t.content with
        | nil => exact absurd hcc hcne'
        | cons c cs =>
          rw [hcc] at hch
          cases ts <;> simpa [Model.Debcon.joinNl, headP] using hch
      rw [hfe, hl]
      have hne2 : (Model.Debcon.joinNl (t.content :: ts.map rawLine)).isEmpty = false := by
        have := joinNl_ne_nil' t.content (ts.map rawLine) hcne'
        cases hj : Model.Debcon.joinNl (t.content :: ts.map rawLine) with
        | nil => exact absurd hj this
        | cons _ _ => rfl
      have hsl := splitlines_value t.content ts (plain_noB _ hcpl) hcne' (fun l hl => hfacts l (by simp [hl]))
      have htrimc : trimmed t.content = true := by
        have hh := hall t (by rw [hc]; simp)
        unfold tlineOk at hh
        rw [hk0] at hh
        simp only [Bool.and_eq_true] at hh
        exact hh.1.2
      have hst : strip t.content = t.content := strip_trimmed _ htrimc
      have hdec0 : decodeLine t = t.content := by simp [decodeLine, hk0]
      simp only [fromValue, String.reduceEq, if_false, if_true, Option.map_some, hne2, Bool.false_eq_true,
        fromFormattedText, lineSeparated, hsl, fromFormattedLines, hst, expectedFV, hk, hfe, List.isEmpty_nil,
        List.nil_append, hc, List.map_cons, hdec0]
      rw [map_decLine_raw ts (fun l hl => hfacts l (by simp [hl])), joinNl_eq]
  · -- the value starts on the declaration line
    have hh : headP isSpace f.first = false := by
      simp only [trimmed, Bool.and_eq_true, Bool.not_eq_true'] at htrim; exact htrim.1
    have hl : lstrip (Model.Debcon.joinNl (f.first :: f.conts.map rawLine)) =
        Model.Debcon.joinNl (f.first :: f.conts.map rawLine) := by
      apply lstrip_of_head
      cases hff : f.first with
      | nil => exact absurd hff hfe
      | cons c cs =>
        rw [hff] at hh
        cases hm : f.conts.map rawLine <;> simpa [Model.Debcon.joinNl, headP] using hh
    have hne2 : (Model.Debcon.joinNl (f.first :: f.conts.map rawLine)).isEmpty = false := by
      have := joinNl_ne_nil' f.first (f.conts.map rawLine) hfe
      cases hj : Model.Debcon.joinNl (f.first :: f.conts.map rawLine) with
      | nil => exact absurd hj this
      | cons _ _ => rfl
    have hsl := splitlines_value f.first f.conts (plain_noB _ hpl) hfe hfacts
    have hst : strip f.first = f.first := strip_trimmed _ htrim
    have hfie : f.first.isEmpty = false := by cases hff : f.first <;> simp_all
    rw [hl]
    simp only [fromValue, String.reduceEq, if_false, if_true, Option.map_some, hne2, Bool.false_eq_true,
      fromFormattedText, lineSeparated, hsl, fromFormattedLines, hst, expectedFV, hk, hfie,
      List.singleton_append]
    rw [map_decLine_raw f.conts hfacts, joinNl_eq]


/-! ### white-space lists and copyright statements -/

theorem splitWsAux_sep (a b cur : Str) (c : Char) (hc : isSpace c = true) :
    splitWsAux (a ++ c :: b) cur = splitWsAux a cur ++ splitWsAux b [] := by
  induction a generalizing cur with
  | nil =>
    simp only [List.nil_append, splitWsAux, hc, if_true]
    split <;> simp
  | cons x xs ih =>
    simp only [List.cons_append, splitWsAux]
    split
    · split
      · exact ih []
      · simp [ih []]
    · exact ih (x :: cur)

theorem splitWs_sep (a b : Str) (c : Char) (hc : isSpace c = true) : splitWs (a ++ c :: b) = splitWs a ++ splitWs b :=
  splitWsAux_sep a b [] c hc

structure SS (s : Str) : Prop where
  ne : s ≠ []
  pl : plain s = true
  tr : trimmed s = true
  pieces : ∀ p ∈ splitChar ' ' s, p ≠ []
  onlySp : ∀ c ∈ s, isSpace c = true → c = ' '

theorem ss_of (s : Str) (h : singleSpaced s = true) : SS s := by
  simp only [singleSpaced, Bool.and_eq_true, Bool.not_eq_true', List.isEmpty_eq_false_iff, List.all_eq_true,
    Bool.or_eq_true, beq_iff_eq] at h
  obtain ⟨⟨⟨⟨h1, h2⟩, h3⟩, h4⟩, h5⟩ := h
  refine ⟨h1, h2, h3, fun p hp => h4 p hp, fun c hc hs => ?_⟩
  rcases h5 c hc with h | h
  · rw [hs] at h; cases h
  · exact h

/-- single-spaced words split at white space exactly where they split at U+0020 -/
theorem splitWs_singleSpaced (s : Str) (h : SS s) : splitWs s = splitChar ' ' s := by
  have := splitWs_join (splitChar ' ' s) (by
    intro w hw
    refine ⟨h.pieces w hw, fun c hc => ?_⟩
    cases hs : isSpace c with
    | false => rfl
    | true =>
      have hcs : c ∈ s := mem_of_mem_splitChar ' ' s w hw c hc
      have := h.onlySp c hcs hs
      subst this
      exact absurd hc (splitChar_no_sep ' ' s w hw))
  rwa [join_splitChar] at this


theorem splitWs_joinNl (ls : List Str) : splitWs (Model.Debcon.joinNl ls) = ls.flatMap splitWs := by
  induction ls with
  | nil => rfl
  | cons l ls ih =>
    cases ls with
    | nil => simp [Model.Debcon.joinNl]
    | cons m r =>
      have hnl : isSpace '\n' = true := by decide
      have e : Model.Debcon.joinNl (l :: m :: r) = l ++ '\n' :: Model.Debcon.joinNl (m :: r) := by simp [Model.Debcon.joinNl]
      rw [e, splitWs_sep l _ '\n' hnl, ih]
      simp

theorem splitWs_lead_space (s : Str) : splitWs (' ' :: s) = splitWs s := by
  have := splitWs_sep [] s ' ' (by decide)
  simpa [splitWs, splitWsAux] using this

theorem content_decomp (s : Str) : s = List.replicate (s.takeWhile (· == ' ')).length ' ' ++ s.dropWhile (· == ' ') := by
  induction s with
  | nil => rfl
  | cons c cs ih =>
    by_cases h : c = ' '
    · subst h
      simp only [List.takeWhile_cons, List.dropWhile_cons, beq_self_eq_true, if_true, List.length_cons, List.replicate_succ,
        List.cons_append]
      rw [← ih]
    · have : (c == ' ') = false := by simpa using h
      simp [List.takeWhile_cons, List.dropWhile_cons, this]

theorem splitWs_lead_spaces (k : Nat) (s : Str) : splitWs (List.replicate k ' ' ++ s) = splitWs s := by
  induction k with
  | zero => rfl
  | succ k ih => rw [List.replicate_succ, List.cons_append, splitWs_lead_space, ih]

structure IFacts (l : TLine) : Prop where
  raw : rawLine l = ' ' :: l.content
  ss : SS (itemText l)
  pl : plain l.content = true

theorem item_facts (l : TLine) (h : itemOk l = true) : IFacts l := by
  simp only [itemOk, Bool.or_eq_true, Bool.and_eq_true, beq_iff_eq, Bool.not_eq_true'] at h
  rcases h with ⟨⟨hk, hss⟩, _⟩ | ⟨⟨hk, hpl⟩, hss⟩
  · have hs := ss_of _ hss
    have hit : itemText l = l.content := by
      unfold itemText
      cases hc : l.content with
      | nil => rfl
      | cons c cs =>
        have := hs.tr
        simp only [trimmed, hc, headP, Bool.and_eq_true, Bool.not_eq_true'] at this
        have hcsp : (c == ' ') = false := by
          cases hcc : c == ' ' with
          | false => rfl
          | true =>
            have : c = ' ' := by simpa using hcc
            subst this
            exact absurd this.1 (by decide)
        simp [List.dropWhile_cons, hcsp]
    exact ⟨by simp [rawLine, hk], by rw [hit]; exact hs, hs.pl⟩
  · exact ⟨by simp [rawLine, hk], ss_of _ hss, hpl⟩

theorem item_raw_facts (l : TLine) (h : itemOk l = true) : NoB (rawLine l) ∧ rawLine l ≠ [] := by
  have hf := item_facts l h
  rw [hf.raw]
  refine ⟨?_, by simp⟩
  intro c hc
  rcases List.mem_cons.mp hc with rfl | hc
  · decide
  · exact plain_noB _ hf.pl c hc

theorem item_splitWs (l : TLine) (h : itemOk l = true) : splitWs (rawLine l) = splitChar ' ' (itemText l) := by
  have hf := item_facts l h
  rw [hf.raw, splitWs_lead_space, content_decomp l.content, splitWs_lead_spaces]
  exact splitWs_singleSpaced _ hf.ss

/-- **white-space lists** (Files, Files-Excluded): the items of every line, in order -/
theorem wsSep_typed (f : Field) (hk : f.kind = 1) (h : fieldOk f = true) :
    fromValue "AnyWhiteSpaceSeparatedField" (some (Model.Debcon.joinNl (f.first :: f.conts.map rawLine))) = expectedFV f := by
  simp only [fieldOk, hk, Bool.and_eq_true, List.all_eq_true, Bool.not_eq_true', beq_iff_eq] at h
  obtain ⟨_, hfirst, hconts⟩ := h
  simp only [fromValue, String.reduceEq, if_false, if_true, expectedFV, hk, splitWs_joinNl, List.flatMap_cons]
  rw [splitWs_singleSpaced f.first (ss_of _ hfirst)]
  congr 2
  rw [List.flatMap_map]
  have hall : ∀ l ∈ f.conts, splitWs (rawLine l) = splitChar ' ' (itemText l) := fun l hl => item_splitWs l (hconts l hl)
  clear hconts
  generalize f.conts = cs at hall ⊢
  induction cs with
  | nil => rfl
  | cons l ls ih =>
    simp only [List.flatMap_cons]
    rw [hall l (by simp), ih (fun x hx => hall x (by simp [hx]))]

/-- **single-line fields** (Format, Upstream-Name) -/
theorem single_typed (f : Field) (hk : f.kind = 0) (h : fieldOk f = true) :
    fromValue "SingleLineField" (some (Model.Debcon.joinNl (f.first :: f.conts.map rawLine))) = expectedFV f := by
  simp only [fieldOk, hk, Bool.and_eq_true, Bool.not_eq_true', List.isEmpty_eq_false_iff, List.isEmpty_iff] at h
  obtain ⟨⟨⟨_, _⟩, htrim⟩, _, hc⟩ := h
  simp [fromValue, expectedFV, hk, hc, Model.Debcon.joinNl, strip_trimmed _ htrim]

/-- **unknown fields** are kept verbatim: first line and continuation lines as written -/
theorem extra_typed (f : Field) (hk : f.kind = 5) (h : fieldOk f = true) :
    lstrip (Model.Debcon.joinNl (f.first :: f.conts.map rawLine)) = expectedExtra f := by
  simp only [fieldOk, hk, Bool.and_eq_true, Bool.not_eq_true', List.isEmpty_eq_false_iff] at h
  obtain ⟨⟨⟨_, _⟩, htrim⟩, hne, _⟩ := h
  have hh : headP isSpace f.first = false := by
    simp only [trimmed, Bool.and_eq_true, Bool.not_eq_true'] at htrim; exact htrim.1
  rw [expectedExtra, joinNl_eq]
  apply lstrip_of_head
  cases hff : f.first with
  | nil => exact absurd hff hne
  | cons c cs =>
    rw [hff] at hh
    cases hm : f.conts.map rawLine <;> simpa [Model.Debcon.joinNl, headP] using hh


theorem all_congr' (l : Str) (p q : Char → Bool) (h : ∀ c ∈ l, p c = q c) : l.all p = l.all q := by
  induction l with
  | nil => rfl
  | cons c cs ih => simp only [List.all_cons, h c (by simp), ih (fun x hx => h x (by simp [hx]))]

theorem any_congr' (l : Str) (p q : Char → Bool) (h : ∀ c ∈ l, p c = q c) : l.any p = l.any q := by
  induction l with
  | nil => rfl
  | cons c cs ih => simp only [List.any_cons, h c (by simp), ih (fun x hx => h x (by simp [hx]))]

theorem ascii_table : ∀ n, n < 128 →
    isDigitU (Char.ofNat n) = (Char.ofNat n).isDigit ∧
    yearPunct.contains (Char.ofNat n) = ((Char.ofNat n).isDigit || Dep5.punct.contains (Char.ofNat n) || Char.ofNat n == ' ') := by
  decide +kernel

theorem ascii_char_facts {c : Char} (h : c.toNat < 128) :
    isDigitU c = c.isDigit ∧ yearPunct.contains c = (c.isDigit || Dep5.punct.contains c || c == ' ') := by
  have := ascii_table c.toNat h
  rwa [Char.ofNat_toNat] at this

theorem yearPunct_ascii : ∀ c ∈ yearPunct, c.toNat < 128 := by decide
theorem punct_ascii : ∀ c ∈ Dep5.punct, c.toNat < 128 := by decide

theorem asciiDigit_lt {c : Char} (h : isAsciiDigit c = true) : c.toNat < 128 := by
  have := Char.isDigit_iff_toNat.mp h
  have h9 : '9'.toNat = 57 := rfl
  omega

/-- character by character (any character but the space), the punctuation class of `is_year_range` is the specification's -/
theorem yearPunct_char (c : Char) (hsp : c ≠ ' ') :
    yearPunct.contains c = (isAsciiDigit c || Dep5.punct.contains c) := by
  by_cases h : c.toNat < 128
  · rw [(ascii_char_facts h).2]
    have : (c == ' ') = false := by simpa using hsp
    simp [this]
  · have h1 : yearPunct.contains c = false := by
      cases hc : yearPunct.contains c with
      | false => rfl
      | true => exact absurd (yearPunct_ascii c (List.contains_iff_mem.mp hc)) h
    have h2 : Dep5.punct.contains c = false := by
      cases hc : Dep5.punct.contains c with
      | false => rfl
      | true => exact absurd (punct_ascii c (List.contains_iff_mem.mp hc)) h
    have h3 : isAsciiDigit c = false := by
      cases hc : isAsciiDigit c with
      | false => rfl
      | true => exact absurd (asciiDigit_lt hc) h
    rw [h1, h2, h3]; rfl

/-- on a word without spaces, the model of `is_year_range` is the specification's year range -/
theorem isYearRange_eq_spec (t : Str) (hsp : ' ' ∉ t) :
    isYearRange t = Dep5.isYearSpec t := by
  have h2 : t.all (yearPunct.contains ·) = t.all (fun c => isAsciiDigit c || Dep5.punct.contains c) := by
    apply all_congr'
    intro c hc
    exact yearPunct_char c (fun e => hsp (e ▸ hc))
  unfold isYearRange Dep5.isYearSpec
  rw [h2]
  cases hall : t.all (fun c => isAsciiDigit c || Dep5.punct.contains c) with
  | false => rfl
  | true =>
    -- every character is ASCII, where the two notions of digit agree
    have h3 : t.any isDigitU = t.any isAsciiDigit := by
      apply any_congr'
      intro c hc
      have := List.all_eq_true.mp hall c hc
      have hascii : c.toNat < 128 := by
        simp only [Bool.or_eq_true] at this
        rcases this with hd | hp
        · exact asciiDigit_lt hd
        · exact punct_ascii c (List.contains_iff_mem.mp hp)
      exact (ascii_char_facts hascii).1
    rw [h3]

/-- **year ranges**: every token the specification calls a year range — `2001`, `2001-2003,`, `1999/2000`, `２０１８` —
is taken as one by the model of `is_year_range` -/
theorem yearSpec_isYearRange (t : Str) (hsp : ' ' ∉ t) (h : Dep5.isYearSpec t = true) : isYearRange t = true := by
  rw [isYearRange_eq_spec t hsp]; exact h

theorem joinSp_eq (ws : List Str) : Dep5.splitStatement.joinSp ws = join [' '] ws := by
  induction ws with
  | nil => rfl
  | cons w ws ih =>
    cases ws with
    | nil => rfl
    | cons v vs => simp only [Dep5.splitStatement.joinSp, ih, join1_cons2]

/-- **one copyright statement**: an optional leading year range, then the holder -/
theorem statement_eq (s : Str) (h : SS s) :
    statementFromValue s = Dep5.splitStatement s := by
  have hws := splitWs_singleSpaced s h
  have hval : join [' '] (splitWs s) = s := by rw [hws, join_splitChar]
  unfold statementFromValue Dep5.splitStatement
  simp only [hval]
  cases hsc : splitChar ' ' s with
  | nil => exact absurd hsc (splitChar_ne_nil ' ' s)
  | cons t rest =>
    have htne : t ≠ [] := h.pieces t (by rw [hsc]; simp)
    have htsp : ' ' ∉ t := splitChar_no_sep ' ' s t (by rw [hsc]; simp)
    have htns : ∀ c ∈ t, isSpace c = false := by
      intro c hc
      cases hs : isSpace c with
      | false => rfl
      | true =>
        have hcs : c ∈ s := mem_of_mem_splitChar ' ' s t (by rw [hsc]; simp) c hc
        have := h.onlySp c hcs hs
        subst this
        exact absurd hc htsp
    have hyr := isYearRange_eq_spec t htsp
    have hstript : strip t = t := Proofs.VersionPrint.strip_id htns
    have hjs : join [' '] (t :: rest) = s := by rw [← hsc, join_splitChar]
    simp only
    cases rest with
    | nil =>
      have hst : s = t := by simpa [join] using hjs.symm
      have hp : partitionChar ' ' s = (s, false, []) := by
        rw [hst]; exact partitionChar_not_mem ' ' t htsp
      rw [hp]
      simp only [hst, hstript, hyr]
      split
      · simp [strip, lstrip, rstrip, joinSp_eq, join]
      · rfl
    | cons r rs =>
      have hs2 : s = t ++ ' ' :: join [' '] (r :: rs) := by rw [← hjs, join1_cons2]
      have hp : partitionChar ' ' s = (t, true, join [' '] (r :: rs)) := by
        rw [hs2]; exact partitionChar_split ' ' t _ htsp
      rw [hp]
      simp only [hstript, hyr]
      -- the holder is already trimmed
      have hholder : strip (join [' '] (r :: rs)) = join [' '] (r :: rs) := by
        have htr := h.tr
        simp only [trimmed, Bool.and_eq_true, Bool.not_eq_true'] at htr
        have hrne : r ≠ [] := h.pieces r (by rw [hsc]; simp)
        have hhead : headP isSpace (join [' '] (r :: rs)) = false := by
          cases hr : r with
          | nil => exact absurd hr hrne
          | cons c cs =>
            have hcs : c ∈ s := mem_of_mem_splitChar ' ' s r (by rw [hsc]; simp) c (by rw [hr]; simp)
            have hcsp : ' ' ∉ r := splitChar_no_sep ' ' s r (by rw [hsc]; simp)
            have : isSpace c = false := by
              cases hs : isSpace c with
              | false => rfl
              | true =>
                have := h.onlySp c hcs hs
                subst this
                exact absurd (by rw [hr]; simp) hcsp
            cases rs <;> simp [join, headP, this]
        have hlast : lastP (fun c => !isSpace c) (join [' '] (r :: rs)) = true := by
          have hl := htr.2
          rw [hs2, lastP_append_cons] at hl
          have hne2 : join [' '] (r :: rs) ≠ [] := by
            cases hr : r with
            | nil => exact absurd hr hrne
            | cons c cs => cases rs <;> simp [join]
          rw [lastP_cons_ne_nil _ _ _ hne2] at hl
          clear hhead hp hs2
          generalize join [' '] (r :: rs) = j at hl hne2 ⊢
          induction j with
          | nil => exact absurd rfl hne2
          | cons c cs ih =>
            cases cs with
            | nil => simpa [lastP] using hl
            | cons d ds => simpa [lastP] using ih (by simpa [lastP] using hl) (by simp)
        have := strip_core [] _ [] (by simp) (by simp) hhead hlast
        simpa using this
      rw [hholder]
      split
      · simp [joinSp_eq]
      · rfl


theorem statement_lead_space (s : Str) : statementFromValue (' ' :: s) = statementFromValue s := by
  unfold statementFromValue
  rw [splitWs_lead_space]

theorem statement_lead_spaces (k : Nat) (s : Str) : statementFromValue (List.replicate k ' ' ++ s) = statementFromValue s := by
  induction k with
  | zero => rfl
  | succ k ih => rw [List.replicate_succ, List.cons_append, statement_lead_space, ih]

/-- **copyright fields**: one statement per line, each split into year range and holder -/
theorem copyright_typed (f : Field) (hk : f.kind = 2) (h : fieldOk f = true) :
    fromValue "CopyrightField" (some (Model.Debcon.joinNl (f.first :: f.conts.map rawLine))) = expectedFV f := by
  simp only [fieldOk, hk, Bool.and_eq_true, List.all_eq_true, Bool.not_eq_true', beq_iff_eq] at h
  obtain ⟨_, hfirst, hconts⟩ := h
  have hssf := ss_of _ hfirst
  have hv : (Model.Debcon.joinNl (f.first :: f.conts.map rawLine)).isEmpty = false := by
    have := joinNl_ne_nil' f.first (f.conts.map rawLine) hssf.ne
    cases hj : Model.Debcon.joinNl (f.first :: f.conts.map rawLine) with
    | nil => exact absurd hj this
    | cons _ _ => rfl
  have hsl := splitlines_value' f.first f.conts (plain_noB _ hssf.pl) hssf.ne (fun l hl => item_raw_facts l (hconts l hl))
  simp only [fromValue, String.reduceEq, if_false, if_true, expectedFV, hk, lineSeparated, hv, Bool.false_eq_true, hsl,
    List.map_cons, List.map_map]
  congr 2
  · exact statement_eq f.first hssf
  · apply List.map_congr_left
    intro l hl
    have hf := item_facts l (hconts l hl)
    simp only [Function.comp, hf.raw, statement_lead_space]
    rw [content_decomp l.content, statement_lead_spaces]
    exact statement_eq _ hf.ss


end Props.C09
