/-
C08 — theorems about the merge loop of `get_paragraph_data`.
-/
import DebInspector.Props.C08
import DebInspector.Proofs.Splitlines

namespace Props.C08
open Py Model.Email Proofs.Splitlines

theorem vset_keys_mem (d : VDict) (k : Str) (v : List Str) (h : k ∈ d.map (·.1)) : (vset d k v).map (·.1) = d.map (·.1) := by
  induction d with
  | nil => simp at h
  | cons kv rest ih =>
    obtain ⟨k', v'⟩ := kv
    unfold vset
    split
    · simp
    · rename_i hne
      simp only [List.map_cons, List.mem_cons] at h
      rcases h with h | h
      · exact absurd h.symm hne
      · simp [ih h]

theorem vset_keys_new (d : VDict) (k : Str) (v : List Str) (h : k ∉ d.map (·.1)) : (vset d k v).map (·.1) = d.map (·.1) ++ [k] := by
  induction d with
  | nil => simp [vset]
  | cons kv rest ih =>
    obtain ⟨k', v'⟩ := kv
    simp only [List.map_cons, List.mem_cons, not_or] at h
    unfold vset
    have : ¬ k' = k := fun e => h.1 e.symm
    simp [this, ih h.2]

theorem lookup_some_mem {β} (d : List (Str × β)) (k : Str) (v : β) (h : d.lookup k = some v) : k ∈ d.map (·.1) := by
  induction d with
  | nil => simp [List.lookup] at h
  | cons kv rest ih =>
    obtain ⟨k', v'⟩ := kv
    simp only [List.lookup] at h
    by_cases e : k = k'
    · subst e; simp
    · have : (k == k') = false := by simpa using e
      simp only [this] at h
      simp [ih h]

theorem lookup_none_not_mem {β} (d : List (Str × β)) (k : Str) (h : d.lookup k = none) : k ∉ d.map (·.1) := by
  induction d with
  | nil => simp
  | cons kv rest ih =>
    obtain ⟨k', v'⟩ := kv
    simp only [List.lookup] at h
    by_cases e : k = k'
    · subst e; simp at h
    · have : (k == k') = false := by simpa using e
      simp only [this] at h
      simp [e, ih h]

def firstOccurrences : List Str → List Str → List Str
  | acc, [] => acc
  | acc, n :: ns => if acc.contains n then firstOccurrences acc ns else firstOccurrences (acc ++ [n]) ns

theorem mergeStep_keys (d : VDict) (nv : Str × Str) :
    (mergeStep d nv).map (·.1) =
      if (d.map (·.1)).contains (strip (lowerAscii nv.1)) then d.map (·.1)
      else d.map (·.1) ++ [strip (lowerAscii nv.1)] := by
  unfold mergeStep
  simp only
  cases hl : d.lookup (strip (lowerAscii nv.1)) with
  | some old =>
    have hm := lookup_some_mem d _ _ hl
    simp only [List.contains_iff_mem, hm, if_true]
    exact vset_keys_mem d _ _ hm
  | none =>
    have hm := lookup_none_not_mem d _ hl
    simp only [List.contains_iff_mem, hm, if_false]
    exact vset_keys_new d _ _ hm

theorem foldl_mergeStep_keys (its : List (Str × Str)) (d : VDict) :
    (its.foldl mergeStep d).map (·.1) =
      firstOccurrences (d.map (·.1)) (its.map fun nv => strip (lowerAscii nv.1)) := by
  induction its generalizing d with
  | nil => rfl
  | cons nv rest ih =>
    simp only [List.foldl_cons, List.map_cons, firstOccurrences, ih, mergeStep_keys]
    split <;> rfl

/-- **the keys of the merged mapping are the lower-cased, trimmed names in order of first occurrence**:
a repeated name never creates a second key and never moves the first one -/
theorem mergeItems_keys (items : List (Str × Str)) :
    (mergeItems items).map (·.1) = firstOccurrences [] (items.map fun nv => strip (lowerAscii nv.1)) := by
  unfold mergeItems
  rw [List.map_map]
  have : ((fun (x : Str × Str) => x.1) ∘ fun (kv : Str × List Str) => (kv.1, joinNl kv.2)) = fun kv => kv.1 := rfl
  rw [this]
  simpa using foldl_mergeStep_keys items []

/-- non-vacuity: the two inputs of the pinned-tree defects, and a body after a blank line -/
example : getParagraphData "a: 1\na: 2\na: 1".toList = [("a".toList, "1\n2".toList)] := by decide +kernel
example : getParagraphData "From me\na: 1\nb: 3".toList =
    [("unknown".toList, "From me".toList), ("a".toList, "1".toList), ("b".toList, "3".toList)] := by decide +kernel
example : getParagraphData "a: 1\n\nbody text\n".toList = [("a".toList, "1".toList), ("unknown".toList, "body text".toList)] := by
  decide +kernel

/-! ### the values of the merged mapping -/

/-- the key of an item, the value of an item, as the merging loop sees them -/
def keyOf (nv : Str × Str) : Str := strip (lowerAscii nv.1)
def valOf (nv : Str × Str) : Str := strip nv.2

def addNew (acc : List Str) (v : Str) : List Str := if acc.contains v then acc else acc ++ [v]

/-- distinct values in order of first appearance -/
def distinct (vs : List Str) : List Str := vs.foldl addNew []

/-- the non-empty values spelled for key `k`, in order -/
def valuesFor (k : Str) (items : List (Str × Str)) : List Str :=
  ((items.filter fun nv => keyOf nv = k).map valOf).filter (!·.isEmpty)

def mentioned (k : Str) (items : List (Str × Str)) : Bool := items.any fun nv => keyOf nv = k

theorem lookup_vset (d : VDict) (k k' : Str) (v : List Str) :
    (vset d k v).lookup k' = if k' = k then some v else d.lookup k' := by
  induction d with
  | nil =>
    by_cases e : k' = k
    · subst e; simp [vset]
    · have : (k' == k) = false := by simpa using e
      simp [vset, List.lookup, this, e]
  | cons kv rest ih =>
    obtain ⟨a, b⟩ := kv
    unfold vset
    by_cases hak : a = k
    · subst hak
      simp only [if_true, List.lookup]
      by_cases e : k' = a
      · subst e; simp
      · have : (k' == a) = false := by simpa using e
        simp [this, e]
    · simp only [hak, if_false, List.lookup]
      by_cases e : k' = a
      · subst e
        have : ¬ k' = k := hak
        simp [this]
      · have : (k' == a) = false := by simpa using e
        simp only [this, ih]

theorem addNew_mem (acc : List Str) (v : Str) : ∀ x ∈ addNew acc v, x ∈ acc ∨ x = v := by
  intro x hx
  unfold addNew at hx
  split at hx
  · exact Or.inl hx
  · simpa using hx

theorem distinct_mem (vs : List Str) : ∀ x ∈ distinct vs, x ∈ vs := by
  unfold distinct
  suffices h : ∀ acc, ∀ x ∈ vs.foldl addNew acc, x ∈ acc ∨ x ∈ vs by
    intro x hx; rcases h [] x hx with h | h
    · cases h
    · exact h
  induction vs with
  | nil => intro acc x hx; exact Or.inl hx
  | cons v vs ih =>
    intro acc x hx
    rcases ih (addNew acc v) x hx with h | h
    · rcases addNew_mem acc v x h with h | h
      · exact Or.inl h
      · exact Or.inr (by simp [h])
    · exact Or.inr (by simp [h])

theorem distinct_snoc (vs : List Str) (v : Str) : distinct (vs ++ [v]) = addNew (distinct vs) v := by
  simp [distinct, List.foldl_append]

theorem distinct_ne_nil (vs : List Str) (h : vs ≠ []) : distinct vs ≠ [] := by
  unfold distinct
  suffices h' : ∀ acc : List Str, ∀ vs : List Str, (acc ≠ [] ∨ vs ≠ []) → vs.foldl addNew acc ≠ [] from h' [] vs (Or.inr h)
  intro acc vs
  induction vs generalizing acc with
  | nil => intro h; rcases h with h | h; exact h; exact absurd rfl h
  | cons v vs ih =>
    intro _
    apply ih
    left
    unfold addNew
    split
    · rename_i hc; intro e; subst e; simp at hc
    · simp

/-- what the loop holds for key `k` after the items `items` -/
def specV (k : Str) (items : List (Str × Str)) : Option (List Str) :=
  if mentioned k items then some (distinct (valuesFor k items)) else none

theorem mergeStep_spec (d : VDict) (pre : List (Str × Str)) (nv : Str × Str)
    (hinv : ∀ k, d.lookup k = specV k pre) (k : Str) :
    (mergeStep d nv).lookup k = specV k (pre ++ [nv]) := by
  have ih := hinv k
  unfold specV at ih ⊢
  unfold mergeStep
  simp only
  have hment : mentioned k (pre ++ [nv]) = (mentioned k pre || decide (keyOf nv = k)) := by
    simp [mentioned, List.any_append]
  have hvf : valuesFor k (pre ++ [nv]) =
      if keyOf nv = k ∧ (valOf nv).isEmpty = false then valuesFor k pre ++ [valOf nv] else valuesFor k pre := by
    unfold valuesFor
    rw [List.filter_append, List.map_append, List.filter_append]
    by_cases e : keyOf nv = k
    · cases hv : (valOf nv).isEmpty <;> simp [e, hv]
    · simp [e]
  by_cases e : keyOf nv = k
  · have e' : strip (lowerAscii nv.1) = k := e
    rw [e', hment]
    simp only [e, decide_true, Bool.or_true, if_true, lookup_vset]
    rw [ih, hvf]
    have hval : strip nv.2 = valOf nv := rfl
    rw [hval]
    cases hv : (valOf nv).isEmpty with
    | true =>
      simp only [e, Bool.true_eq_false, and_false, if_false, Bool.true_or, if_true]
      cases hm : mentioned k pre with
      | true => simp
      | false =>
        -- nothing spelled for k so far
        have : valuesFor k pre = [] := by
          unfold valuesFor
          have : (pre.filter fun nv => keyOf nv = k) = [] := by
            rw [List.filter_eq_nil_iff]
            intro x hx hk
            simp only [mentioned, List.any_eq_false] at hm
            exact hm x hx hk
          rw [this]; rfl
        simp [this, distinct]
    | false =>
      simp only [e, and_self, if_true, Bool.false_or, distinct_snoc]
      cases hm : mentioned k pre with
      | true => simp only [if_true, Option.getD_some]; rfl
      | false =>
        have : valuesFor k pre = [] := by
          unfold valuesFor
          have : (pre.filter fun nv => keyOf nv = k) = [] := by
            rw [List.filter_eq_nil_iff]
            intro x hx hk
            simp only [mentioned, List.any_eq_false] at hm
            exact hm x hx hk
          rw [this]; rfl
        simp only [Bool.false_eq_true, if_false, Option.getD_none, this, distinct, List.foldl_nil]
        rfl
  · have e' : ¬ k = strip (lowerAscii nv.1) := fun x => e x.symm
    rw [hment, hvf]
    simp only [e, decide_false, Bool.or_false, false_and, if_false, lookup_vset, e']
    exact ih

theorem foldl_mergeStep_spec (items pre : List (Str × Str)) (d : VDict)
    (hinv : ∀ k, d.lookup k = specV k pre) (k : Str) :
    (items.foldl mergeStep d).lookup k = specV k (pre ++ items) := by
  induction items generalizing pre d with
  | nil => simpa using hinv k
  | cons nv rest ih =>
    rw [List.foldl_cons]
    have := ih (pre ++ [nv]) (mergeStep d nv) (mergeStep_spec d pre nv hinv)
    simpa using this

theorem lookup_map_snd {β γ} (d : List (Str × β)) (f : β → γ) (k : Str) :
    (d.map fun kv => (kv.1, f kv.2)).lookup k = (d.lookup k).map f := by
  induction d with
  | nil => rfl
  | cons kv rest ih =>
    obtain ⟨a, b⟩ := kv
    simp only [List.map_cons, List.lookup]
    cases (k == a) <;> simp [ih]

/-- **duplicates merge losslessly** — after the merging loop, every key that is mentioned maps to the distinct
non-empty values spelled for it (trimmed, whole: a multi-line value is one value), in order of first appearance,
newline-separated; for any number of items, any pattern of repeated names and repeated values -/
theorem mergeItems_lookup (items : List (Str × Str)) (k : Str) :
    (mergeItems items).lookup k =
      if mentioned k items then some (Model.Email.joinNl (distinct (valuesFor k items))) else none := by
  unfold mergeItems
  rw [lookup_map_snd]
  have := foldl_mergeStep_spec items [] [] (by intro k; simp [specV, mentioned, List.lookup]) k
  simp only [List.nil_append] at this
  rw [this]
  unfold specV
  cases mentioned k items <;> rfl

/-- non-vacuity: a, b, a and a, a, b patterns interleaved with another field; a multi-line value repeated, and a
single-line value equal to one line of an earlier multi-line value (kept: it is a distinct value) -/
example : mergeItems [("A".toList, "1".toList), ("b".toList, "x".toList), ("a".toList, " 2 ".toList), ("a".toList, "1".toList), ("B".toList, "x".toList)]
    = [("a".toList, "1\n2".toList), ("b".toList, "x".toList)] := by decide +kernel
example : mergeItems [("a".toList, "x\n c".toList), ("a".toList, "x".toList), ("a".toList, "x\n c".toList)]
    = [("a".toList, "x\n c\nx".toList)] := by decide +kernel


end Props.C08
