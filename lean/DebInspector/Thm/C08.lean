/-
C08 — theorems about the merge loop of `get_paragraph_data`.
-/
import DebInspector.Props.C08
import DebInspector.Proofs.Splitlines

namespace Props.C08
open Py Model.Email Proofs.Splitlines

theorem dset_keys_mem (d : Dict) (k v : Str) (h : k ∈ d.map (·.1)) : (dset d k v).map (·.1) = d.map (·.1) := by
  induction d with
  | nil => simp at h
  | cons kv rest ih =>
    obtain ⟨k', v'⟩ := kv
    unfold dset
    split
    · simp
    · rename_i hne
      simp only [List.map_cons, List.mem_cons] at h
      rcases h with h | h
      · exact absurd h.symm hne
      · simp [ih h]

theorem dset_keys_new (d : Dict) (k v : Str) (h : k ∉ d.map (·.1)) : (dset d k v).map (·.1) = d.map (·.1) ++ [k] := by
  induction d with
  | nil => simp [dset]
  | cons kv rest ih =>
    obtain ⟨k', v'⟩ := kv
    simp only [List.map_cons, List.mem_cons, not_or] at h
    unfold dset
    have : ¬ k' = k := fun e => h.1 e.symm
    simp [this, ih h.2]

theorem lookup_some_mem (d : Dict) (k : Str) (v : Str) (h : d.lookup k = some v) : k ∈ d.map (·.1) := by
  induction d with
  | nil => simp [List.lookup] at h
  | cons kv rest ih =>
    obtain ⟨k', v'⟩ := kv
    simp only [List.lookup] at h
    by_cases e : k = k'
    · subst e; simp
    · have : (k == k') = false := by simpa using e
      simp only [this] at h
      simp [ih h]

theorem lookup_none_not_mem (d : Dict) (k : Str) (h : d.lookup k = none) : k ∉ d.map (·.1) := by
  induction d with
  | nil => simp
  | cons kv rest ih =>
    obtain ⟨k', v'⟩ := kv
    simp only [List.lookup] at h
    by_cases e : k = k'
    · subst e; simp at h
    · have : (k == k') = false := by simpa using e
      simp only [this] at h
      simp [e, ih h]

def firstOccurrences : List Str → List Str → List Str
  | acc, [] => acc
  | acc, n :: ns => if acc.contains n then firstOccurrences acc ns else firstOccurrences (acc ++ [n]) ns

theorem mergeStep_keys (d : Dict) (nv : Str × Str) :
    (mergeStep d nv).map (·.1) =
      if (d.map (·.1)).contains (strip (lowerAscii nv.1)) then d.map (·.1)
      else d.map (·.1) ++ [strip (lowerAscii nv.1)] := by
  unfold mergeStep
  simp only
  cases hl : d.lookup (strip (lowerAscii nv.1)) with
  | some old =>
    have hm := lookup_some_mem d _ _ hl
    simp only [List.contains_iff_mem, hm, if_true]
    exact dset_keys_mem d _ _ hm
  | none =>
    have hm := lookup_none_not_mem d _ hl
    simp only [List.contains_iff_mem, hm, if_false]
    exact dset_keys_new d _ _ hm

theorem foldl_mergeStep_keys (its : List (Str × Str)) (d : Dict) :
    (its.foldl mergeStep d).map (·.1) =
      firstOccurrences (d.map (·.1)) (its.map fun nv => strip (lowerAscii nv.1)) := by
  induction its generalizing d with
  | nil => rfl
  | cons nv rest ih =>
    simp only [List.foldl_cons, List.map_cons, firstOccurrences, ih, mergeStep_keys]
    split <;> rfl

/-- **the keys of the merged mapping are the lower-cased, trimmed names in order of first occurrence**:
a repeated name never creates a second key and never moves the first one -/
theorem mergeItems_keys (items : List (Str × Str)) :
    (mergeItems items).map (·.1) = firstOccurrences [] (items.map fun nv => strip (lowerAscii nv.1)) := by
  unfold mergeItems
  simpa using foldl_mergeStep_keys items []

/-- non-vacuity: the two inputs of the pinned-tree defects, and a body after a blank line -/
example : getParagraphData "a: 1\na: 2\na: 1".toList = [("a".toList, "1\n2".toList)] := by decide +kernel
example : getParagraphData "From me\na: 1\nb: 3".toList =
    [("unknown".toList, "From me".toList), ("a".toList, "1".toList), ("b".toList, "3".toList)] := by decide +kernel
example : getParagraphData "a: 1\n\nbody text\n".toList = [("a".toList, "1".toList), ("unknown".toList, "body text".toList)] := by
  decide +kernel

/-! ### the values of the merged mapping -/

theorem joinNl_eq (ls : List Str) : Model.Email.joinNl ls = Model.Debcon.joinNl ls := by
  induction ls with
  | nil => rfl
  | cons l ls ih =>
    cases ls with
    | nil => rfl
    | cons m ms => simp only [Model.Email.joinNl, Model.Debcon.joinNl, ih]

/-- the key of an item, the value of an item, as the merging loop sees them -/
def keyOf (nv : Str × Str) : Str := strip (lowerAscii nv.1)
def valOf (nv : Str × Str) : Str := strip nv.2

/-- a single-line value: not empty, no line boundary -/
def OneLine (v : Str) : Prop := v ≠ [] ∧ NoB v

def addNew (acc : List Str) (v : Str) : List Str := if acc.contains v then acc else acc ++ [v]

/-- distinct values in order of first appearance -/
def distinct (vs : List Str) : List Str := vs.foldl addNew []

/-- the values spelled for key `k`, in order -/
def valuesFor (k : Str) (items : List (Str × Str)) : List Str := (items.filter fun nv => keyOf nv = k).map valOf

theorem lookup_dset (d : Dict) (k k' v : Str) :
    (dset d k v).lookup k' = if k' = k then some v else d.lookup k' := by
  induction d with
  | nil =>
    by_cases e : k' = k
    · subst e; simp [dset]
    · have : (k' == k) = false := by simpa using e
      simp [dset, List.lookup, this, e]
  | cons kv rest ih =>
    obtain ⟨a, b⟩ := kv
    unfold dset
    by_cases hak : a = k
    · subst hak
      simp only [if_true, List.lookup]
      by_cases e : k' = a
      · subst e; simp
      · have : (k' == a) = false := by simpa using e
        simp [this, e]
    · simp only [hak, if_false, List.lookup]
      by_cases e : k' = a
      · subst e
        have : ¬ k' = k := hak
        simp [this]
      · have : (k' == a) = false := by simpa using e
        simp only [this, ih]

theorem dropLastEmpty_of_nonempty (ds : List Str) (h : ∀ d ∈ ds, d ≠ []) : dropLastEmpty ds = ds := by
  induction ds with
  | nil => rfl
  | cons l ls ih =>
    cases ls with
    | nil =>
      have : l ≠ [] := h l (by simp)
      have : l.isEmpty = false := by cases l <;> simp_all
      simp [dropLastEmpty, this]
    | cons m ms =>
      simp only [dropLastEmpty]
      rw [ih (fun d hd => h d (by simp [hd]))]

theorem splitlines_joinNl_oneLine (ds : List Str) (h : ∀ d ∈ ds, OneLine d) :
    splitlines (Model.Email.joinNl ds) = ds := by
  rw [joinNl_eq, splitlines_joinNl ds (fun d hd => (h d hd).2), dropLastEmpty_of_nonempty ds (fun d hd => (h d hd).1)]

theorem addNew_mem (acc : List Str) (v : Str) : ∀ x ∈ addNew acc v, x ∈ acc ∨ x = v := by
  intro x hx
  unfold addNew at hx
  split at hx
  · exact Or.inl hx
  · simpa using hx

theorem distinct_mem (vs : List Str) : ∀ x ∈ distinct vs, x ∈ vs := by
  unfold distinct
  suffices h : ∀ acc, ∀ x ∈ vs.foldl addNew acc, x ∈ acc ∨ x ∈ vs by
    intro x hx; rcases h [] x hx with h | h
    · cases h
    · exact h
  induction vs with
  | nil => intro acc x hx; exact Or.inl hx
  | cons v vs ih =>
    intro acc x hx
    rcases ih (addNew acc v) x hx with h | h
    · rcases addNew_mem acc v x h with h | h
      · exact Or.inl h
      · exact Or.inr (by simp [h])
    · exact Or.inr (by simp [h])

theorem distinct_snoc (vs : List Str) (v : Str) : distinct (vs ++ [v]) = addNew (distinct vs) v := by
  simp [distinct, List.foldl_append]

theorem distinct_ne_nil (vs : List Str) (h : vs ≠ []) : distinct vs ≠ [] := by
  unfold distinct
  suffices h' : ∀ acc : List Str, ∀ vs : List Str, (acc ≠ [] ∨ vs ≠ []) → vs.foldl addNew acc ≠ [] from h' [] vs (Or.inr h)
  intro acc vs
  induction vs generalizing acc with
  | nil => intro h; rcases h with h | h; exact h; exact absurd rfl h
  | cons v vs ih =>
    intro _
    apply ih
    left
    unfold addNew
    split
    · rename_i hc; intro e; subst e; simp at hc
    · simp

def spec (k : Str) (items : List (Str × Str)) : Option Str :=
  if valuesFor k items = [] then none else some (Model.Email.joinNl (distinct (valuesFor k items)))

theorem mergeStep_spec (d : Dict) (pre : List (Str × Str)) (nv : Str × Str)
    (hpre : ∀ x ∈ pre, OneLine (valOf x)) (hinv : ∀ k, d.lookup k = spec k pre) (k : Str) :
    (mergeStep d nv).lookup k = spec k (pre ++ [nv]) := by
  have ih := hinv k
  unfold spec at ih ⊢
  unfold mergeStep
  simp only
  have hvf : valuesFor k (pre ++ [nv]) =
      if keyOf nv = k then valuesFor k pre ++ [valOf nv] else valuesFor k pre := by
    unfold valuesFor
    rw [List.filter_append]
    by_cases e : keyOf nv = k <;> simp [e]
  by_cases e : keyOf nv = k
  · have e' : strip (lowerAscii nv.1) = k := e
    rw [e']
    rw [hvf, if_pos e]
    have hne : valuesFor k pre ++ [valOf nv] ≠ [] := by simp
    rw [if_neg hne, distinct_snoc, ih]
    by_cases hemp : valuesFor k pre = []
    · rw [if_pos hemp]
      simp only [lookup_dset, if_true, hemp, distinct, List.foldl_nil, addNew]
      simp [Model.Email.joinNl, valOf]
    · rw [if_neg hemp]
      simp only [lookup_dset, if_true]
      have hall : ∀ d ∈ distinct (valuesFor k pre), OneLine d := by
        intro d hd
        have := distinct_mem _ d hd
        unfold valuesFor at this
        simp only [List.mem_map, List.mem_filter] at this
        obtain ⟨x, ⟨hx, _⟩, rfl⟩ := this
        exact hpre x hx
      rw [splitlines_joinNl_oneLine _ hall]
      unfold addNew valOf
      rfl
  · have e' : ¬ k = strip (lowerAscii nv.1) := fun x => e x.symm
    rw [hvf, if_neg e]
    cases hl : List.lookup (strip (lowerAscii nv.1)) d with
    | none => simp only [lookup_dset, e', if_false]; exact ih
    | some old => simp only [lookup_dset, e', if_false]; exact ih

theorem foldl_mergeStep_spec (items pre : List (Str × Str)) (d : Dict)
    (h : ∀ x ∈ pre ++ items, OneLine (valOf x)) (hinv : ∀ k, d.lookup k = spec k pre) (k : Str) :
    (items.foldl mergeStep d).lookup k = spec k (pre ++ items) := by
  induction items generalizing pre d with
  | nil => simpa using hinv k
  | cons nv rest ih =>
    rw [List.foldl_cons]
    have := ih (pre ++ [nv]) (mergeStep d nv) (by simpa using h)
      (mergeStep_spec d pre nv (fun x hx => h x (by simp [hx])) hinv)
    simpa using this

/-- **duplicates merge losslessly** — after the merging loop, every key maps to the distinct values
spelled for it (trimmed), in order of first appearance, newline-separated; for any number of items,
any pattern of repeated names and repeated values, provided the trimmed values are single lines -/
theorem mergeItems_lookup (items : List (Str × Str)) (h : ∀ nv ∈ items, OneLine (valOf nv)) (k : Str) :
    (mergeItems items).lookup k =
      if valuesFor k items = [] then none else some (Model.Email.joinNl (distinct (valuesFor k items))) := by
  have := foldl_mergeStep_spec items [] [] (by simpa using h) (by intro k; simp [spec, valuesFor, List.lookup]) k
  simpa [mergeItems, spec] using this

/-- non-vacuity: a, b, a and a, a, b patterns interleaved with another field -/
example : mergeItems [("A".toList, "1".toList), ("b".toList, "x".toList), ("a".toList, " 2 ".toList), ("a".toList, "1".toList), ("B".toList, "x".toList)]
    = [("a".toList, "1\n2".toList), ("b".toList, "x".toList)] := by decide +kernel


end Props.C08
