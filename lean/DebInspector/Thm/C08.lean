/-
C08 — theorems about the merge loop of `get_paragraph_data`.
-/
import DebInspector.Props.C08

namespace Props.C08
open Py Model.Email

theorem dset_keys_mem (d : Dict) (k v : Str) (h : k ∈ d.map (·.1)) : (dset d k v).map (·.1) = d.map (·.1) := by
  induction d with
  | nil => simp at h
  | cons kv rest ih =>
    obtain ⟨k', v'⟩ := kv
    unfold dset
    split
    · simp
    · rename_i hne
      simp only [List.map_cons, List.mem_cons] at h
      rcases h with h | h
      · exact absurd h.symm hne
      · simp [ih h]

theorem dset_keys_new (d : Dict) (k v : Str) (h : k ∉ d.map (·.1)) : (dset d k v).map (·.1) = d.map (·.1) ++ [k] := by
  induction d with
  | nil => simp [dset]
  | cons kv rest ih =>
    obtain ⟨k', v'⟩ := kv
    simp only [List.map_cons, List.mem_cons, not_or] at h
    unfold dset
    have : ¬ k' = k := fun e => h.1 e.symm
    simp [this, ih h.2]

theorem lookup_some_mem (d : Dict) (k : Str) (v : Str) (h : d.lookup k = some v) : k ∈ d.map (·.1) := by
  induction d with
  | nil => simp [List.lookup] at h
  | cons kv rest ih =>
    obtain ⟨k', v'⟩ := kv
    simp only [List.lookup] at h
    by_cases e : k = k'
    · subst e; simp
    · have : (k == k') = false := by simpa using e
      simp only [this] at h
      simp [ih h]

theorem lookup_none_not_mem (d : Dict) (k : Str) (h : d.lookup k = none) : k ∉ d.map (·.1) := by
  induction d with
  | nil => simp
  | cons kv rest ih =>
    obtain ⟨k', v'⟩ := kv
    simp only [List.lookup] at h
    by_cases e : k = k'
    · subst e; simp at h
    · have : (k == k') = false := by simpa using e
      simp only [this] at h
      simp [e, ih h]

def firstOccurrences : List Str → List Str → List Str
  | acc, [] => acc
  | acc, n :: ns => if acc.contains n then firstOccurrences acc ns else firstOccurrences (acc ++ [n]) ns

theorem mergeStep_keys (d : Dict) (nv : Str × Str) :
    (mergeStep d nv).map (·.1) =
      if (d.map (·.1)).contains (strip (lowerAscii nv.1)) then d.map (·.1)
      else d.map (·.1) ++ [strip (lowerAscii nv.1)] := by
  unfold mergeStep
  simp only
  cases hl : d.lookup (strip (lowerAscii nv.1)) with
  | some old =>
    have hm := lookup_some_mem d _ _ hl
    simp only [List.contains_iff_mem, hm, if_true]
    exact dset_keys_mem d _ _ hm
  | none =>
    have hm := lookup_none_not_mem d _ hl
    simp only [List.contains_iff_mem, hm, if_false]
    exact dset_keys_new d _ _ hm

theorem foldl_mergeStep_keys (its : List (Str × Str)) (d : Dict) :
    (its.foldl mergeStep d).map (·.1) =
      firstOccurrences (d.map (·.1)) (its.map fun nv => strip (lowerAscii nv.1)) := by
  induction its generalizing d with
  | nil => rfl
  | cons nv rest ih =>
    simp only [List.foldl_cons, List.map_cons, firstOccurrences, ih, mergeStep_keys]
    split <;> rfl

/-- **the keys of the merged mapping are the lower-cased, trimmed names in order of first occurrence**:
a repeated name never creates a second key and never moves the first one -/
theorem mergeItems_keys (items : List (Str × Str)) :
    (mergeItems items).map (·.1) = firstOccurrences [] (items.map fun nv => strip (lowerAscii nv.1)) := by
  unfold mergeItems
  simpa using foldl_mergeStep_keys items []

/-- non-vacuity: the two inputs of the pinned-tree defects, and a body after a blank line -/
example : getParagraphData "a: 1\na: 2\na: 1".toList = [("a".toList, "1\n2".toList)] := by decide +kernel
example : getParagraphData "From me\na: 1\nb: 3".toList =
    [("unknown".toList, "From me".toList), ("a".toList, "1".toList), ("b".toList, "3".toList)] := by decide +kernel
example : getParagraphData "a: 1\n\nbody text\n".toList = [("a".toList, "1".toList), ("unknown".toList, "body text".toList)] := by
  decide +kernel

end Props.C08
