/-
C16 — theorems about the line-level model of `remove_signature`.
-/
import DebInspector.Props.C16

namespace Props.C16
open Py Model.Unsign

/-- text without a clear-sign envelope is returned unchanged -/
theorem unsigned_identity (t : Str) (h : isSigned t = false) : removeSignature t = t := by
  simp [removeSignature, h]

/-- the result is the input, or the clear text of a successful match — never anything else -/
theorem removeSignature_cases (t : Str) :
    removeSignature t = t ∨ ∃ c, search (splitChar '\n' t) = some (.clear c) ∧ removeSignature t = c := by
  unfold removeSignature
  split
  · exact Or.inl rfl
  · cases h : search (splitChar '\n' t) with
    | none => exact Or.inl rfl
    | some f =>
      cases f with
      | clear c => exact Or.inr ⟨c, rfl, rfl⟩
      | armorOnly => exact Or.inl rfl

/-! ### the clear text is a contiguous part of the input -/

theorem splitChar_ne_nil (sep : Char) (t : Str) : splitChar sep t ≠ [] := by
  cases t with
  | nil => simp [splitChar]
  | cons c cs =>
    simp only [splitChar]
    split
    · simp
    · cases splitChar sep cs <;> simp

theorem joinNl_splitChar (t : Str) : joinNl (splitChar '\n' t) = t := by
  induction t with
  | nil => rfl
  | cons c cs ih =>
    simp only [splitChar]
    cases hs : splitChar '\n' cs with
    | nil => exact absurd hs (splitChar_ne_nil _ _)
    | cons w ws =>
      rw [hs] at ih
      split
      · rename_i h; subst h
        simp [joinNl, ih]
      · cases ws with
        | nil => simp [joinNl] at ih ⊢; exact ih
        | cons v vs => simp [joinNl] at ih ⊢; exact ih

theorem joinNl_append (a b : List Str) (ha : a ≠ []) (hb : b ≠ []) :
    joinNl (a ++ b) = joinNl a ++ '\n' :: joinNl b := by
  induction a with
  | nil => exact absurd rfl ha
  | cons x xs ih =>
    cases xs with
    | nil =>
      cases b with
      | nil => exact absurd rfl hb
      | cons y ys => simp [joinNl]
    | cons z zs =>
      have := ih (by simp)
      simp only [List.cons_append, joinNl] at this ⊢
      rw [this]; simp

/-- joining a prefix of the lines gives a prefix of the joined text -/
theorem joinNl_take_prefix (ls : List Str) (k : Nat) : ∃ r, joinNl ls = joinNl (ls.take k) ++ r := by
  by_cases h1 : ls.take k = []
  · rw [h1]; exact ⟨joinNl ls, rfl⟩
  · by_cases h2 : ls.drop k = []
    · have : ls.take k = ls := by
        have := List.take_append_drop k ls
        rw [h2, List.append_nil] at this; exact this
      rw [this]; exact ⟨[], by simp⟩
    · have := joinNl_append (ls.take k) (ls.drop k) h1 h2
      rw [List.take_append_drop] at this
      exact ⟨_, this⟩

/-- joining a suffix of the lines gives a suffix of the joined text -/
theorem joinNl_drop_suffix (ls : List Str) (k : Nat) : ∃ l, joinNl ls = l ++ joinNl (ls.drop k) := by
  by_cases h2 : ls.drop k = []
  · rw [h2]; exact ⟨joinNl ls, by simp [joinNl]⟩
  · by_cases h1 : ls.take k = []
    · have : ls.drop k = ls := by
        have := List.take_append_drop k ls
        rw [h1, List.nil_append] at this; exact this
      rw [this]; exact ⟨[], rfl⟩
    · have := joinNl_append (ls.take k) (ls.drop k) h1 h2
      rw [List.take_append_drop] at this
      exact ⟨joinNl (ls.take k) ++ ['\n'], by rw [this]; simp⟩

/-- joining lines `j .. j+k` gives a contiguous part of the joined text -/
theorem joinNl_take_infix (ls : List Str) (j k : Nat) : joinNl ((ls.drop j).take k) <:+: joinNl ls := by
  obtain ⟨l, hl⟩ := joinNl_drop_suffix ls j
  obtain ⟨r, hr⟩ := joinNl_take_prefix (ls.drop j) k
  exact ⟨l, r, by rw [hl, hr]; simp⟩

theorem longestClear_infix (ls : Lines) (c : Str) (h : longestClear ls = some c) :
    ∃ k, c = joinNl (ls.take k) := by
  unfold longestClear at h
  simp only at h
  obtain ⟨e, _, he⟩ := List.exists_of_findSome?_eq_some h
  split at he
  · simp only [Option.some.injEq] at he; exact ⟨e + 1, he.symm⟩
  · cases he

theorem withHash_some (xs : Lines) (P : Str → Str → Bool) (t : Str)
    (h : (match xs with
          | hh :: (e :: (m :: more)) => if P hh e then longestClear (m :: more) else none
          | _ => none) = some t) :
    ∃ k, t = joinNl ((xs.drop 2).take k) := by
  match xs, h with
  | hh :: e :: m :: more, h =>
    simp only at h
    split at h
    · obtain ⟨k, hk⟩ := longestClear_infix _ _ h
      exact ⟨k, by simpa using hk⟩
    · cases h

theorem matchAt_clear (ls : Lines) (c : Str) (h : matchAt ls = some (.clear c)) :
    ∃ j k, c = joinNl ((ls.drop j).take k) := by
  unfold matchAt at h
  simp only at h
  split at h
  · rename_i t hs
    simp only [Option.some.injEq, Found.clear.injEq] at h
    subst h
    match ls, hs with
    | l0 :: l1 :: rest, hs =>
      simp only at hs
      split at hs
      · split at hs
        · rename_i t' hw
          simp only [Option.some.injEq] at hs; subst hs
          obtain ⟨k, hk⟩ := withHash_some (l1 :: rest) _ _ hw
          exact ⟨3, k, by simpa using hk⟩
        · obtain ⟨k, hk⟩ := longestClear_infix _ _ hs
          exact ⟨1, k, by simpa using hk⟩
      · cases hs
  · split at h <;> cases h

theorem search_clear (ls : Lines) (c : Str) (h : search ls = some (.clear c)) :
    ∃ j k, c = joinNl ((ls.drop j).take k) := by
  induction ls with
  | nil => simp [search] at h
  | cons l rest ih =>
    unfold search at h
    cases hm : matchAt (l :: rest) with
    | some f =>
      rw [hm] at h
      simp only [Option.some.injEq] at h
      subst h
      exact matchAt_clear _ _ hm
    | none =>
      rw [hm] at h
      obtain ⟨j, k, hjk⟩ := ih h
      exact ⟨j + 1, k, by simpa using hjk⟩

/-- **the result of `remove_signature` is always a contiguous part of its input** (for every text,
enveloped or not, well-formed or malformed) -/
theorem result_is_part_of_input (t : Str) : removeSignature t <:+: t := by
  rcases removeSignature_cases t with h | ⟨c, hs, hc⟩
  · rw [h]; exact List.infix_refl _
  · rw [hc]
    obtain ⟨j, k, hjk⟩ := search_clear _ _ hs
    have := joinNl_take_infix (splitChar '\n' t) j k
    rw [joinNl_splitChar] at this
    rw [hjk]; exact this

/-- non-vacuity: a well-formed LF message, a CRLF message (final carriage return remains), a bare
signature block (returned unchanged, not None) -/
example : removeSignature "-----BEGIN PGP SIGNED MESSAGE-----\nHash: SHA1\n\nFormat: 1.0\n\n- x\n-----BEGIN PGP SIGNATURE-----\nVersion: G v1\n\nabcd\n=abcd\n-----END PGP SIGNATURE-----\n".toList
    = "Format: 1.0\n\n- x".toList := by decide +kernel
example : removeSignature "-----BEGIN PGP SIGNED MESSAGE-----\r\nA: b\r\n-----BEGIN PGP SIGNATURE-----\r\n\r\nabcd\r\n=abcd\r\n-----END PGP SIGNATURE-----".toList
    = "A: b\r".toList := by decide +kernel
example : removeSignature "-----BEGIN PGP SIGNED MESSAGE-----\n-----BEGIN PGP SIGNATURE-----\n\nabcd\n=abcd\n-----END PGP SIGNATURE-----".toList
    = "-----BEGIN PGP SIGNED MESSAGE-----\n-----BEGIN PGP SIGNATURE-----\n\nabcd\n=abcd\n-----END PGP SIGNATURE-----".toList := by
  decide +kernel

end Props.C16
