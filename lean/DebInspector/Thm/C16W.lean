/-
C16 — the well-formed clause: for a well-formed clear-signed message (header block: none, or exactly one
`Hash:` line — the hypothesis of finding K6), preceded by blank lines and followed by any white space, LF or
CRLF, the model of `remove_signature` returns exactly the signed body.

Line level: the armor block matches at the signature's BEGIN line (`armor_ok`), nothing matches at any
later line (`afterSig_dead`), so the longest clear text ends right before it (`longestClear_eq`), for the
message with a `Hash:` header (`matchAt_form1`) and without (`matchAt_form0`).  Text level: the text is the
newline-join of blank lines, the message lines and white-space lines (`wellformed_body`).
-/
import DebInspector.Thm.C16
import DebInspector.Proofs.SplitJoin
namespace Props.C16W
open Py Model.Unsign Props.C16

def sigBegin : Str := "-----BEGIN PGP SIGNATURE-----".toList
def crOf (b : Bool) : Str := if b then ['\r'] else []

theorem lastP_append_ne_nil (p : Char → Bool) (a b : Str) (hb : b ≠ []) : lastP p (a ++ b) = lastP p b := by
  cases b with
  | nil => exact absurd rfl hb
  | cons c cs => exact lastP_append_cons p a c cs

theorem dropLast_append_singleton (l : Str) (c : Char) : (l ++ [c]).dropLast = l := by simp

/-- a logical line (not ending in a carriage return) with the line ending's `\r`, if any, removed again -/
theorem stripCr_line (l : Str) (b : Bool) (h : lastP (· = '\r') l = false) : stripCr (l ++ crOf b) = l := by
  cases b with
  | false => simp [crOf, stripCr, h]
  | true =>
    have : lastP (· = '\r') (l ++ ['\r']) = true := by rw [lastP_append_cons]; simp
    simp [crOf, stripCr, this]

theorem hasColonSpace_iff (l : Str) :
    hasColonSpace l = true ↔ ∃ a x y b, l = a ++ x :: ':' :: ' ' :: y :: b := by
  constructor
  · intro h
    fun_induction hasColonSpace l with
    | case1 x y b => exact ⟨[], x, y, b, rfl⟩
    | case2 c rest hne ih =>
      obtain ⟨a, x, y, b, e⟩ := ih h
      exact ⟨c :: a, x, y, b, by rw [e]; rfl⟩
    | case3 => cases h
  · rintro ⟨a, x, y, b, rfl⟩
    induction a with
    | nil => simp [hasColonSpace]
    | cons c cs ih =>
      simp only [List.cons_append]
      unfold hasColonSpace
      split
      · rfl
      · rename_i _ heq
        cases heq
        exact ih
      · rename_i heq; cases heq

theorem hasColonSpace_append (l s : Str) (h : hasColonSpace l = true) : hasColonSpace (l ++ s) = true := by
  obtain ⟨a, x, y, b, rfl⟩ := (hasColonSpace_iff l).mp h
  exact (hasColonSpace_iff _).mpr ⟨a, x, y, b ++ s, by simp⟩

theorem hasColonSpace_mem (l : Str) (h : hasColonSpace l = true) : ':' ∈ l := by
  obtain ⟨a, x, y, b, rfl⟩ := (hasColonSpace_iff l).mp h
  simp

theorem dropHeaderLines_headers (hs : List Str) (e r : Str) (rest : List Str)
    (hh : ∀ l ∈ hs, hasColonSpace l = true) (he : hasColonSpace e = false) :
    dropHeaderLines (hs ++ e :: r :: rest) = e :: r :: rest := by
  induction hs with
  | nil => simp [dropHeaderLines, he]
  | cons l ls ih =>
    have hl := hh l (by simp)
    have := ih (fun x hx => hh x (by simp [hx]))
    cases hls : ls ++ e :: r :: rest with
    | nil => simp at hls
    | cons m ms =>
      simp only [List.cons_append, hls, dropHeaderLines, hl, if_true]
      rw [← hls]; exact this

theorem dropBodyLines_bodies (bs : List Str) (c r : Str) (rest : List Str)
    (hb : ∀ l ∈ bs, isBodyLine (stripCr l) = true) (hc : isBodyLine (stripCr c) = false) :
    dropBodyLines (bs ++ c :: r :: rest) = (c :: r :: rest, bs.length) := by
  induction bs with
  | nil => simp [dropBodyLines, hc]
  | cons l ls ih =>
    have hl := hb l (by simp)
    have := ih (fun x hx => hb x (by simp [hx]))
    cases hls : ls ++ c :: r :: rest with
    | nil => simp at hls
    | cons m ms =>
      simp only [List.cons_append, hls, dropBodyLines, hl, if_true, List.length_cons]
      rw [← hls, this]


theorem startsWith_self_append (w x : Str) : startsWith (w ++ x) w = true := by
  induction w with
  | nil => cases x <;> rfl
  | cons c cs ih => simp [startsWith, ih]

theorem lastP_false_of_all (p : Char → Bool) (l : Str) (h : ∀ c ∈ l, p c = false) : lastP p l = false := by
  cases hl : lastP p l with
  | false => rfl
  | true =>
    obtain ⟨a, c, e, hc⟩ := lastP_mem hl
    have := h c (by rw [e]; simp)
    rw [this] at hc; cases hc

theorem takeWhile_all (p : Char → Bool) (l : Str) : ∀ c ∈ l.takeWhile p, p c = true := by
  induction l with
  | nil => intro c hc; cases hc
  | cons x xs ih =>
    intro c hc
    simp only [List.takeWhile] at hc
    split at hc
    · rename_i hx
      rcases List.mem_cons.mp hc with rfl | h
      · exact hx
      · exact ih c h
    · cases hc

theorem bodyLine_chars (l : Str) (h : isBodyLine l = true) : ∀ c ∈ l, isB64 c = true ∨ c = '=' := by
  intro c hc
  simp only [isBodyLine, Bool.and_eq_true, decide_eq_true_eq, List.all_eq_true] at h
  have hsplit : l = l.takeWhile isB64 ++ l.dropWhile isB64 := (List.takeWhile_append_dropWhile).symm
  rw [hsplit] at hc
  rcases List.mem_append.mp hc with h1 | h1
  · exact Or.inl (takeWhile_all isB64 l c h1)
  · exact Or.inr (h.2 c h1)

theorem bodyLine_ne_nil (l : Str) (h : isBodyLine l = true) : l ≠ [] := by
  intro e; subst e; simp [isBodyLine] at h

theorem b64_not_cr {c : Char} (h : isB64 c = true ∨ c = '=') : (c = '\r') = False := by
  apply propext
  constructor
  · intro e; subst e; rcases h with h | h
    · revert h; decide
    · revert h; decide
  · exact False.elim

theorem bodyLine_noCr (l : Str) (h : isBodyLine l = true) : lastP (· = '\r') l = false := by
  apply lastP_false_of_all
  intro c hc
  have := bodyLine_chars l h c hc
  simp only [decide_eq_false_iff_not]
  intro e; subst e
  rcases this with h | h
  · revert h; decide
  · revert h; decide

theorem crcLine_facts (crc : Str) (hl : crc.length = 4) (ha : ∀ c ∈ crc, isB64 c = true) (b : Bool) :
    stripCr ('=' :: crc ++ crOf b) = '=' :: crc ∧ isBodyLine ('=' :: crc) = false ∧ isCrcLine ('=' :: crc) = true := by
  refine ⟨?_, ?_, ?_⟩
  · have : lastP (· = '\r') ('=' :: crc) = false := by
      apply lastP_false_of_all
      intro c hc
      simp only [List.mem_cons] at hc
      simp only [decide_eq_false_iff_not]
      rcases hc with rfl | hc
      · decide
      · intro e; subst e; have := ha _ hc; revert this; decide
    exact stripCr_line ('=' :: crc) b this
  · have : isB64 '=' = false := by decide
    simp [isBodyLine, List.takeWhile, this]
  · simp [isCrcLine, hl, List.all_eq_true]
    exact ha

/-- the raw lines of an armor block, as `text.split('\n')` sees them -/
def armorR (b : Bool) (ah b64 : List Str) (crc suffix : Str) (tail : List Str) : List Str :=
  (sigBegin ++ crOf b) :: (ah.map (· ++ crOf b) ++ crOf b :: (b64.map (· ++ crOf b) ++
    ('=' :: crc ++ crOf b) :: (endSignature ++ suffix) :: tail))

theorem magic_sig (b : Bool) : magicOf (stripCr (sigBegin ++ crOf b)) = some "SIGNATURE".toList := by
  rw [stripCr_line sigBegin b (by decide)]
  decide

/-- what `armorMatches` checks after the BEGIN line -/
def armorAfter (magic : Str) (ls : Lines) : Bool :=
  let r1 := dropHeaderLines ls
  let r2 := match r1 with
    | e :: (n :: more) => if (stripCr e).isEmpty then n :: more else r1
    | _ => r1
  let (r3, nbody) := dropBodyLines r2
  nbody ≥ 1 &&
  (match r3 with
   | crc :: (endl :: _) => isCrcLine (stripCr crc) && startsWith endl (endPgp ++ magic ++ dashes)
   | _ => false)

theorem armorMatches_cons2 (l0 l1 : Str) (rest : List Str) :
    armorMatches (l0 :: l1 :: rest) =
      match magicOf (stripCr l0) with
      | none => false
      | some m => armorAfter m (l1 :: rest) := rfl

theorem armorMatches_cons (l0 : Str) (rest : List Str) (hne : rest ≠ []) :
    armorMatches (l0 :: rest) =
      match magicOf (stripCr l0) with
      | none => false
      | some m => armorAfter m rest := by
  cases rest with
  | nil => exact absurd rfl hne
  | cons l1 r => exact armorMatches_cons2 l0 l1 r

theorem armor_ok (b : Bool) (ah b64 : List Str) (crc suffix : Str) (tail : List Str)
    (hah : ∀ l ∈ ah, hasColonSpace l = true) (hb : b64 ≠ []) (hb64 : ∀ l ∈ b64, isBodyLine l = true)
    (hcl : crc.length = 4) (hca : ∀ c ∈ crc, isB64 c = true) :
    armorMatches (armorR b ah b64 crc suffix tail) = true := by
  unfold armorR
  rw [armorMatches_cons _ _ (by simp), magic_sig]
  simp only
  unfold armorAfter
  have hempty : hasColonSpace (crOf b) = false := by cases b <;> decide
  obtain ⟨c1, c2, c3⟩ := crcLine_facts crc hcl hca b
  -- the first base64 line exists
  obtain ⟨x, xs, hx⟩ : ∃ x xs, b64 = x :: xs := by
    cases b64 with
    | nil => exact absurd rfl hb
    | cons x xs => exact ⟨x, xs, rfl⟩
  have hdh : dropHeaderLines (ah.map (· ++ crOf b) ++ crOf b :: (b64.map (· ++ crOf b) ++
      ('=' :: crc ++ crOf b) :: (endSignature ++ suffix) :: tail)) =
      crOf b :: (b64.map (· ++ crOf b) ++ ('=' :: crc ++ crOf b) :: (endSignature ++ suffix) :: tail) := by
    rw [hx]
    simp only [List.map_cons, List.cons_append]
    apply dropHeaderLines_headers
    · intro l hl
      simp only [List.mem_map] at hl
      obtain ⟨l0, hl0, rfl⟩ := hl
      exact hasColonSpace_append _ _ (hah l0 hl0)
    · exact hempty
  rw [hdh]
  have hse : (stripCr (crOf b)).isEmpty = true := by cases b <;> decide
  rw [hx]
  simp only [List.map_cons, List.cons_append, hse, if_true]
  have hbody : dropBodyLines ((x ++ crOf b) :: (xs.map (· ++ crOf b) ++ ('=' :: crc ++ crOf b) :: (endSignature ++ suffix) :: tail)) =
      (('=' :: crc ++ crOf b) :: (endSignature ++ suffix) :: tail, (x :: xs).length) := by
    have := dropBodyLines_bodies ((x :: xs).map (· ++ crOf b)) ('=' :: crc ++ crOf b) (endSignature ++ suffix) tail
      (by
        intro l hl
        simp only [List.mem_map] at hl
        obtain ⟨l0, hl0, rfl⟩ := hl
        have hb0 := hb64 l0 (by rw [hx]; exact hl0)
        rw [stripCr_line l0 b (bodyLine_noCr l0 hb0)]; exact hb0)
      (by rw [c1]; exact c2)
    simpa using this
  simp only [List.cons_append] at hbody c1
  rw [hbody]
  simp only [List.length_cons, c1, c3, Bool.true_and]
  have : endPgp ++ "SIGNATURE".toList ++ dashes = endSignature := by decide
  rw [this, startsWith_self_append]
  simp


/-! ### nothing matches later -/

/-- a line at which no armor block can start -/
def Dead (x : Str) : Prop := startsWith x dashes = false ∨ magicOf (stripCr x) = none

theorem dead_no_match (x : Str) (rest : List Str) (h : Dead x) :
    (startsWith x dashes && armorMatches (x :: rest)) = false := by
  rcases h with h | h
  · simp [h]
  · cases rest with
    | nil => simp [armorMatches]
    | cons r rs => rw [armorMatches_cons2, h]; simp

theorem findSome_rev_range {α} (f : Nat → Option α) (n e0 : Nat) (v : α) (h0 : e0 < n) (hv : f e0 = some v)
    (hlater : ∀ e, e0 < e → e < n → f e = none) : (List.range n).reverse.findSome? f = some v := by
  induction n with
  | zero => omega
  | succ k ih =>
    rw [List.range_succ, List.reverse_append]
    simp only [List.reverse_cons, List.reverse_nil, List.nil_append, List.cons_append, List.findSome?_cons]
    by_cases hk : e0 = k
    · subst hk; rw [hv]
    · rw [hlater k (by omega) (by omega)]
      simp only
      exact ih (by omega) (fun e h1 h2 => hlater e h1 (by omega))

theorem longestClear_eq (bodyR : List Str) (sigR : Str) (A : List Str) (hb : bodyR ≠ [])
    (hsig : startsWith sigR dashes = true) (harm : armorMatches (sigR :: A) = true) (hdead : ∀ x ∈ A, Dead x) :
    longestClear (bodyR ++ sigR :: A) = some (joinNl bodyR) := by
  unfold longestClear
  have hblen : 0 < bodyR.length := List.length_pos_iff.mpr hb
  apply findSome_rev_range _ _ (bodyR.length - 1)
  · simp only [List.length_append, List.length_cons]; omega
  · have e1 : bodyR.length - 1 + 1 = bodyR.length := by omega
    simp only [e1]
    have hget : (bodyR ++ sigR :: A).getD bodyR.length [] = sigR := by
      simp [List.getD_eq_getElem?_getD]
    have hdrop : (bodyR ++ sigR :: A).drop bodyR.length = sigR :: A := by simp
    have htake : (bodyR ++ sigR :: A).take bodyR.length = bodyR := by simp
    rw [hget, hdrop, htake, hsig, harm]
    simp only [List.length_append, List.length_cons]
    have : bodyR.length < bodyR.length + (A.length + 1) := by omega
    simp [this]
  · intro e he hen
    obtain ⟨k, hk⟩ : ∃ k, e + 1 = (bodyR ++ [sigR]).length + k :=
      ⟨e + 1 - (bodyR.length + 1), by simp only [List.length_append, List.length_singleton]; omega⟩
    have hZ : bodyR ++ sigR :: A = (bodyR ++ [sigR]) ++ A := by simp
    have hdropZ : ((bodyR ++ [sigR]) ++ A).drop ((bodyR ++ [sigR]).length + k) = A.drop k := by
      rw [List.drop_append]
      simp
    rw [hZ, hk, hdropZ]
    have hget : ((bodyR ++ [sigR]) ++ A).getD ((bodyR ++ [sigR]).length + k) [] = A.getD k [] := by
      simp only [List.getD_eq_getElem?_getD]
      rw [List.getElem?_append_right (by omega)]
      simp
    rw [hget]
    by_cases hkA : k < A.length
    · have hdrop : A.drop k = A[k] :: A.drop (k + 1) := List.drop_eq_getElem_cons hkA
      have hgd : A.getD k [] = A[k] := by simp [List.getD_eq_getElem?_getD, List.getElem?_eq_getElem hkA]
      rw [hdrop, hgd]
      have := dead_no_match A[k] (A.drop (k + 1)) (hdead _ (List.getElem_mem hkA))
      simp only [Bool.and_eq_false_iff] at this
      rcases this with h | h
      · rw [h]; simp
      · rw [h]; simp
    · have : ¬ (bodyR ++ [sigR]).length + k < ((bodyR ++ [sigR]) ++ A).length := by
        simp only [List.length_append]; omega
      simp only [this, decide_false, Bool.false_and, Bool.false_eq_true, if_false]


theorem not_magic_colon : isMagicChar ':' = false := by decide

/-- a line with a colon is not a `-----BEGIN PGP <magic>-----` line -/
theorem magicOf_colon (y : Str) (h : ':' ∈ y) : magicOf y = none := by
  unfold magicOf
  by_cases hc : (startsWith y beginPgp && endsWith y dashes && decide (y.length ≥ beginPgp.length + dashes.length + 1)) = true
  · rw [if_pos hc]
    simp only [Bool.and_eq_true, decide_eq_true_eq] at hc
    obtain ⟨⟨h1, h2⟩, h3⟩ := hc
    have e1 := startsWith_decomp y beginPgp h1
    have e2 := endsWith_decomp y dashes h2
    -- y = beginPgp ++ middle ++ dashes
    have hmid : ':' ∈ (y.drop beginPgp.length).take (y.length - beginPgp.length - dashes.length) := by
      have hy : y = beginPgp ++ ((y.drop beginPgp.length).take (y.length - beginPgp.length - dashes.length) ++
          (y.drop beginPgp.length).drop (y.length - beginPgp.length - dashes.length)) := by
        rw [List.take_append_drop]; exact e1
      have htail : (y.drop beginPgp.length).drop (y.length - beginPgp.length - dashes.length) = dashes := by
        rw [List.drop_drop]
        have hidx : beginPgp.length + (y.length - beginPgp.length - dashes.length) = y.length - dashes.length := by
          have hb : beginPgp.length = 15 := rfl
          have hd : dashes.length = 5 := rfl
          omega
        rw [hidx]
        have hlen : (y.take (y.length - dashes.length)).length = y.length - dashes.length := by
          simp
        have := List.drop_left' (l₁ := y.take (y.length - dashes.length)) (l₂ := dashes) hlen
        rw [← e2] at this
        exact this
      rw [htail] at hy
      rw [hy] at h
      simp only [List.mem_append] at h
      rcases h with h | h | h
      · exact absurd h (by decide)
      · exact h
      · exact absurd h (by decide)
    have : ((y.drop beginPgp.length).take (y.length - beginPgp.length - dashes.length)).all isMagicChar = false := by
      rw [List.all_eq_false]
      exact ⟨':', hmid, by simp [not_magic_colon]⟩
    simp [this]
  · rw [if_neg hc]

theorem mem_stripCr (c : Char) (x : Str) (h : c ∈ x) (hc : c ≠ '\r') : c ∈ stripCr x := by
  unfold stripCr
  split
  · rename_i hl
    obtain ⟨a, d, e, hd⟩ := lastP_mem hl
    have hd' : d = '\r' := by simpa using hd
    rw [e] at h ⊢
    simp only [List.dropLast_concat]
    simp only [List.mem_append, List.mem_singleton] at h
    rcases h with h | h
    · exact h
    · exact absurd (h.trans hd') hc
  · exact h

theorem dead_header (l : Str) (b : Bool) (h : hasColonSpace l = true) : Dead (l ++ crOf b) := by
  right
  apply magicOf_colon
  apply mem_stripCr
  · exact List.mem_append_left _ (hasColonSpace_mem l h)
  · decide

theorem dead_cr (b : Bool) : Dead (crOf b) := by
  left; cases b <;> decide

theorem dead_body (l : Str) (b : Bool) (h : isBodyLine l = true) : Dead (l ++ crOf b) := by
  left
  cases hl : l with
  | nil => exact absurd hl (bodyLine_ne_nil l h)
  | cons c cs =>
    have hc : c ≠ '-' := by
      have hfirst : isB64 c = true := by
        -- the run of base64 characters at the start is not empty
        simp only [isBodyLine, Bool.and_eq_true, decide_eq_true_eq] at h
        have h1 := h.1.1.1
        rw [hl] at h1
        simp only [List.takeWhile] at h1
        split at h1
        · assumption
        · simp at h1
      intro e; subst e; revert hfirst; decide
    have : ('-' == c) = false := by simpa using (Ne.symm hc)
    have hc2 : (c == '-') = false := by simpa using hc
    simp [dashes, startsWith, hc2]

theorem dead_crc (crc : Str) (b : Bool) : Dead ('=' :: crc ++ crOf b) := by
  left; simp [dashes, startsWith]

theorem dead_blank (t : Str) (h : ∀ c ∈ t, isSpace c = true) : Dead t := by
  left
  cases t with
  | nil => rfl
  | cons c cs =>
    have hc : c ≠ '-' := by
      intro e; subst e; have := h '-' (by simp); revert this; decide
    have hc2 : (c == '-') = false := by simpa using hc
    simp [dashes, startsWith, hc2]

theorem take_dropLast (n : Nat) (x : Str) (h : n < x.length) : x.dropLast.take n = x.take n := by
  rw [List.dropLast_eq_take, List.take_take]
  congr 1
  omega

theorem magicOf_of_take6 (y : Str) (h : y.take 6 = "-----E".toList) : magicOf y = none := by
  unfold magicOf
  have : startsWith y beginPgp = false := by
    cases hs : startsWith y beginPgp with
    | false => rfl
    | true =>
      have := startsWith_decomp y beginPgp hs
      have h6 : (beginPgp ++ y.drop beginPgp.length).take 6 = "-----B".toList := rfl
      rw [this, h6] at h
      exact absurd h (by decide)
  simp [this]

theorem dead_end (suffix : Str) : Dead (endSignature ++ suffix) := by
  right
  apply magicOf_of_take6
  have hlen : endSignature.length = 27 := rfl
  have h6 : (endSignature ++ suffix).take 6 = "-----E".toList := by
    rw [List.take_append_of_le_length (by rw [hlen]; omega)]
    rfl
  unfold stripCr
  split
  · rw [take_dropLast 6 _ (by rw [List.length_append, hlen]; omega)]
    exact h6
  · exact h6


/-! ### the signed-message group -/

def hashCond (h e : Str) : Bool :=
  startsWith (stripCr h) "Hash: ".toList && !((stripCr h).drop 6).isEmpty && ((stripCr h).drop 6).all isHashChar &&
    (stripCr e).isEmpty

def withHashOf : Lines → Option Str
  | h :: (e :: (m :: more)) => if hashCond h e then longestClear (m :: more) else none
  | _ => none

theorem matchAt_begin (l0 l1 : Str) (rest : List Str) (h0 : stripCr l0 = beginSigned) :
    matchAt (l0 :: l1 :: rest) =
      match withHashOf (l1 :: rest) with
      | some t => some (.clear t)
      | none =>
        match longestClear (l1 :: rest) with
        | some t => some (.clear t)
        | none => if armorMatches (l0 :: l1 :: rest) then some .armorOnly else none := by
  unfold matchAt
  simp only [h0, if_true]
  cases rest with
  | nil =>
    simp only [withHashOf]
    cases longestClear [l1] <;> rfl
  | cons e r2 =>
    cases r2 with
    | nil =>
      simp only [withHashOf]
      cases longestClear [l1, e] <;> rfl
    | cons m more =>
      simp only [withHashOf, hashCond]
      by_cases hc : (startsWith (stripCr l1) "Hash: ".toList && !((stripCr l1).drop 6).isEmpty && ((stripCr l1).drop 6).all isHashChar &&
            (stripCr e).isEmpty) = true
      · simp only [hc, if_true]
        cases longestClear (m :: more) with
        | some t => rfl
        | none => simp only; cases longestClear (l1 :: e :: m :: more) <;> rfl
      · simp only [hc, if_false]
        cases longestClear (l1 :: e :: m :: more) <;> rfl


theorem longestClear_dead (sigR : Str) (A : List Str) (hdead : ∀ x ∈ A, Dead x) : longestClear (sigR :: A) = none := by
  unfold longestClear
  rw [List.findSome?_eq_none_iff]
  intro e _
  by_cases hkA : e < A.length
  · have hdrop : (sigR :: A).drop (e + 1) = A[e] :: A.drop (e + 1) := by
      simp only [List.drop_succ_cons]; exact List.drop_eq_getElem_cons hkA
    have hgd : (sigR :: A).getD (e + 1) [] = A[e] := by
      simp [List.getD_eq_getElem?_getD, List.getElem?_eq_getElem hkA]
    rw [hdrop, hgd]
    have := dead_no_match A[e] (A.drop (e + 1)) (hdead _ (List.getElem_mem hkA))
    simp only [Bool.and_eq_false_iff] at this
    rcases this with h | h
    · rw [h]; simp
    · rw [h]; simp
  · have : ¬ e + 1 < (sigR :: A).length := by simp only [List.length_cons]; omega
    simp only [this, decide_false, Bool.false_and, Bool.false_eq_true, if_false]

theorem plain_noCr (l : Str) (h : plainLine l = true) : lastP (· = '\r') l = false := by
  apply lastP_false_of_all
  intro c hc
  simp only [plainLine, Bool.and_eq_true, Bool.not_eq_true'] at h
  simp only [decide_eq_false_iff_not]
  intro e; subst e
  have := h.2
  have hm : l.contains '\r' = true := List.contains_iff_mem.mpr hc
  rw [this] at hm; cases hm


/-- the lines after the signature's BEGIN line -/
def afterSig (b : Bool) (ah b64 : List Str) (crc suffix : Str) (tail : List Str) : List Str :=
  ah.map (· ++ crOf b) ++ crOf b :: (b64.map (· ++ crOf b) ++ ('=' :: crc ++ crOf b) :: (endSignature ++ suffix) :: tail)

theorem armorR_eq (b : Bool) (ah b64 : List Str) (crc suffix : Str) (tail : List Str) :
    armorR b ah b64 crc suffix tail = (sigBegin ++ crOf b) :: afterSig b ah b64 crc suffix tail := rfl

theorem afterSig_dead (b : Bool) (ah b64 : List Str) (crc suffix : Str) (tail : List Str)
    (hah : ∀ l ∈ ah, hasColonSpace l = true) (hb64 : ∀ l ∈ b64, isBodyLine l = true)
    (htail : ∀ t ∈ tail, ∀ c ∈ t, isSpace c = true) :
    ∀ x ∈ afterSig b ah b64 crc suffix tail, Dead x := by
  intro x hx
  simp only [afterSig, List.mem_append, List.mem_cons, List.mem_map] at hx
  rcases hx with ⟨l, hl, rfl⟩ | rfl | ⟨l, hl, rfl⟩ | rfl | rfl | hx
  · exact dead_header l b (hah l hl)
  · exact dead_cr b
  · exact dead_body l b (hb64 l hl)
  · exact dead_crc crc b
  · exact dead_end suffix
  · exact dead_blank x (htail x hx)

theorem sigR_dashes (b : Bool) : startsWith (sigBegin ++ crOf b) dashes = true := by cases b <;> decide

structure ArmorOK (ah b64 : List Str) (crc : Str) (tail : List Str) : Prop where
  hah : ∀ l ∈ ah, hasColonSpace l = true
  hb : b64 ≠ []
  hb64 : ∀ l ∈ b64, isBodyLine l = true
  hcl : crc.length = 4
  hca : ∀ c ∈ crc, isB64 c = true
  htail : ∀ t ∈ tail, ∀ c ∈ t, isSpace c = true

theorem clear_body (b : Bool) (body ah b64 : List Str) (crc suffix : Str) (tail : List Str) (hbody : body ≠ [])
    (ok : ArmorOK ah b64 crc tail) :
    longestClear (body.map (· ++ crOf b) ++ armorR b ah b64 crc suffix tail) = some (joinNl (body.map (· ++ crOf b))) := by
  rw [armorR_eq]
  apply longestClear_eq
  · simpa using hbody
  · exact sigR_dashes b
  · rw [← armorR_eq]; exact armor_ok b ah b64 crc suffix tail ok.hah ok.hb ok.hb64 ok.hcl ok.hca
  · exact afterSig_dead b ah b64 crc suffix tail ok.hah ok.hb64 ok.htail

theorem beginR_strip (b : Bool) : stripCr (beginSigned ++ crOf b) = beginSigned := stripCr_line beginSigned b (by decide)

/-- **form 1**: BEGIN, one `Hash:` line, the empty line, the body, the armor block -/
theorem matchAt_form1 (b : Bool) (hs : Str) (body ah b64 : List Str) (crc suffix : Str) (tail : List Str)
    (hne : hs ≠ []) (hhash : ∀ c ∈ hs, isHashChar c = true) (hbody : body ≠ []) (ok : ArmorOK ah b64 crc tail) :
    matchAt ((beginSigned ++ crOf b) :: ("Hash: ".toList ++ hs ++ crOf b) :: crOf b ::
      (body.map (· ++ crOf b) ++ armorR b ah b64 crc suffix tail)) =
      some (.clear (joinNl (body.map (· ++ crOf b)))) := by
  rw [matchAt_begin _ _ _ (beginR_strip b)]
  obtain ⟨x, xs, hx⟩ : ∃ x xs, body = x :: xs := by
    cases body with
    | nil => exact absurd rfl hbody
    | cons x xs => exact ⟨x, xs, rfl⟩
  have hcl := clear_body b body ah b64 crc suffix tail hbody ok
  have hlast : lastP (· = '\r') ("Hash: ".toList ++ hs) = false := by
    rw [lastP_append_ne_nil _ _ _ hne]
    apply lastP_false_of_all
    intro c hc
    simp only [decide_eq_false_iff_not]
    intro e; subst e
    have := hhash _ hc; revert this; decide
  have hcond : hashCond ("Hash: ".toList ++ hs ++ crOf b) (crOf b) = true := by
    unfold hashCond
    rw [stripCr_line _ b hlast]
    have h1 : startsWith ("Hash: ".toList ++ hs) "Hash: ".toList = true := startsWith_self_append _ _
    have h2 : ("Hash: ".toList ++ hs).drop 6 = hs := by
      have : "Hash: ".toList.length = 6 := rfl
      rw [← this, List.drop_left]
    have h3 : (stripCr (crOf b)).isEmpty = true := by cases b <;> decide
    have h4 : hs.isEmpty = false := by cases hs <;> simp_all
    have h5 : hs.all isHashChar = true := List.all_eq_true.mpr hhash
    rw [h1, h2, h3, h4, h5]; rfl
  rw [hx] at hcl ⊢
  simp only [List.map_cons, List.cons_append] at hcl ⊢
  simp only [withHashOf, hcond, if_true, hcl]


theorem hashCond_lines (x y : Str) (b : Bool) (hx : plainLine x = true) (hy : plainLine y = true) :
    hashCond (x ++ crOf b) (y ++ crOf b) =
      (startsWith x "Hash: ".toList && !(x.drop 6).isEmpty && (x.drop 6).all isHashChar && y.isEmpty) := by
  unfold hashCond
  rw [stripCr_line x b (plain_noCr x hx), stripCr_line y b (plain_noCr y hy)]

/-- the body itself begins like a `Hash:` header block (first line `Hash: x`, second line empty, more lines follow) -/
def form0Cond : List Str → Bool
  | h :: e :: _ :: _ => startsWith h "Hash: ".toList && !(h.drop 6).isEmpty && (h.drop 6).all isHashChar && e.isEmpty
  | _ => false

/-- **form 0**: BEGIN, the body right away, the armor block -/
theorem matchAt_form0 (b : Bool) (body ah b64 : List Str) (crc suffix : Str) (tail : List Str)
    (hbody : body ≠ []) (hplain : ∀ l ∈ body, plainLine l = true)
    (hno : form0Cond body = false)
    (ok : ArmorOK ah b64 crc tail) :
    matchAt ((beginSigned ++ crOf b) :: (body.map (· ++ crOf b) ++ armorR b ah b64 crc suffix tail)) =
      some (.clear (joinNl (body.map (· ++ crOf b)))) := by
  have hcl := clear_body b body ah b64 crc suffix tail hbody ok
  have hdead := afterSig_dead b ah b64 crc suffix tail ok.hah ok.hb64 ok.htail
  cases body with
  | nil => exact absurd rfl hbody
  | cons x xs =>
    simp only [List.map_cons, List.cons_append] at hcl ⊢
    rw [matchAt_begin _ _ _ (beginR_strip b)]
    have hwh : withHashOf ((x ++ crOf b) :: (xs.map (· ++ crOf b) ++ armorR b ah b64 crc suffix tail)) = none := by
      cases xs with
      | nil =>
        simp only [List.map_nil, List.nil_append, armorR_eq]
        cases hA : afterSig b ah b64 crc suffix tail with
        | nil => rfl
        | cons m more =>
          simp only [withHashOf]
          have : hashCond (x ++ crOf b) (sigBegin ++ crOf b) = false := by
            unfold hashCond
            rw [stripCr_line sigBegin b (by decide)]
            have : sigBegin.isEmpty = false := by decide
            simp [this]
          simp [this]
      | cons y ys =>
        cases ys with
        | nil =>
          simp only [List.map_cons, List.map_nil, List.cons_append, List.nil_append, armorR_eq, withHashOf]
          rw [longestClear_dead _ _ hdead]
          split <;> rfl
        | cons z zs =>
          simp only [List.map_cons, List.cons_append, withHashOf]
          have : hashCond (x ++ crOf b) (y ++ crOf b) = false := by
            rw [hashCond_lines x y b (hplain x (by simp)) (hplain y (by simp))]
            simpa [form0Cond] using hno
          simp [this]
    rw [hwh]
    simp only [hcl]


/-! ### blank lines before the message -/

theorem stripCr_subset (x : Str) : ∀ c ∈ stripCr x, c ∈ x := by
  intro c hc
  unfold stripCr at hc
  split at hc
  · exact (List.dropLast_subset _) hc
  · exact hc

theorem matchAt_blank (l : Str) (rest : List Str) (h : ∀ c ∈ l, isSpace c = true) : matchAt (l :: rest) = none := by
  have hne : stripCr l ≠ beginSigned := by
    intro e
    have : '-' ∈ stripCr l := by rw [e]; decide
    have := h '-' (stripCr_subset l '-' this)
    revert this; decide
  have hmagic : magicOf (stripCr l) = none := by
    unfold magicOf
    have : startsWith (stripCr l) beginPgp = false := by
      cases hs : startsWith (stripCr l) beginPgp with
      | false => rfl
      | true =>
        have hd := startsWith_decomp _ _ hs
        have hb : '-' ∈ beginPgp := by decide
        have : '-' ∈ stripCr l := by rw [hd]; exact List.mem_append_left _ hb
        have := h '-' (stripCr_subset l '-' this)
        revert this; decide
    simp [this]
  have harm : armorMatches (l :: rest) = false := by
    cases rest with
    | nil => rfl
    | cons r rs => rw [armorMatches_cons2, hmagic]
  unfold matchAt
  cases rest with
  | nil => simp [harm]
  | cons r rs => simp [hne, harm]

theorem search_blank_prefix (P rest : List Str) (h : ∀ l ∈ P, ∀ c ∈ l, isSpace c = true) :
    search (P ++ rest) = search rest := by
  induction P with
  | nil => rfl
  | cons l ls ih =>
    simp only [List.cons_append, search, matchAt_blank l _ (h l (by simp))]
    exact ih (fun x hx => h x (by simp [hx]))

theorem search_here (ls : List Str) (f : Found) (h : matchAt ls = some f) (hne : ls ≠ []) : search ls = some f := by
  cases ls with
  | nil => exact absurd rfl hne
  | cons l rest => simp only [search, h]


/-! ### from the text to its lines -/

/-- logical lines with the line ending's carriage return: every line but the last -/
def rawOf (b : Bool) : List Str → List Str
  | [] => []
  | [l] => [l]
  | l :: ls => (l ++ crOf b) :: rawOf b ls

theorem rawOf_snoc (b : Bool) (A : List Str) (x : Str) : rawOf b (A ++ [x]) = A.map (· ++ crOf b) ++ [x] := by
  induction A with
  | nil => rfl
  | cons a as ih =>
    cases as with
    | nil => rfl
    | cons a2 as2 =>
      simp only [List.cons_append, rawOf, List.map_cons] at ih ⊢
      rw [ih]

theorem joinWith_raw (b : Bool) (L : List Str) :
    joinWith (crOf b ++ ['\n']) L = join ['\n'] (rawOf b L) := by
  induction L with
  | nil => rfl
  | cons l ls ih =>
    cases ls with
    | nil => rfl
    | cons m ms =>
      have hne : rawOf b (m :: ms) ≠ [] := by cases ms <;> simp [rawOf]
      obtain ⟨r, rs, hr⟩ : ∃ r rs, rawOf b (m :: ms) = r :: rs := by
        cases h : rawOf b (m :: ms) with
        | nil => exact absurd h hne
        | cons r rs => exact ⟨r, rs, rfl⟩
      simp only [joinWith, rawOf, ih, hr, join1_cons2]
      simp [List.append_assoc]

theorem join_append2 (X Y : List Str) (hx : X ≠ []) (hy : Y ≠ []) :
    join ['\n'] (X ++ Y) = join ['\n'] X ++ '\n' :: join ['\n'] Y := by
  induction X with
  | nil => exact absurd rfl hx
  | cons x xs ih =>
    cases xs with
    | nil =>
      cases Y with
      | nil => exact absurd rfl hy
      | cons y ys => simp [join1_cons2, join]
    | cons x2 xs2 =>
      have := ih (by simp)
      simp only [List.cons_append] at this ⊢
      rw [join1_cons2, this, join1_cons2]
      simp [List.append_assoc]

theorem join_snoc_glue (X : List Str) (x s0 : Str) (T : List Str) :
    join ['\n'] (X ++ [x]) ++ join ['\n'] (s0 :: T) = join ['\n'] (X ++ (x ++ s0) :: T) := by
  induction X with
  | nil =>
    cases T with
    | nil => simp [join]
    | cons t ts => simp [join, join1_cons2, List.append_assoc]
  | cons a as ih =>
    have h1 : ∃ r rs, as ++ [x] = r :: rs := by cases as <;> simp
    have h2 : ∃ r rs, as ++ (x ++ s0) :: T = r :: rs := by cases as <;> simp
    obtain ⟨r1, rs1, e1⟩ := h1
    obtain ⟨r2, rs2, e2⟩ := h2
    simp only [List.cons_append, e1, e2, join1_cons2]
    rw [← e1, ← e2, List.append_assoc, List.cons_append, ih]

/-- white space that is empty or ends in a line feed: some blank lines, each terminated -/
theorem pre_lines (pre : Str) (hw : ∀ c ∈ pre, isSpace c = true) (hl : pre = [] ∨ pre.getLast? = some '\n') :
    ∃ P : List Str, (∀ l ∈ P, (∀ c ∈ l, isSpace c = true) ∧ '\n' ∉ l) ∧
      ∀ Y : List Str, Y ≠ [] → pre ++ join ['\n'] Y = join ['\n'] (P ++ Y) := by
  rcases hl with rfl | hl
  · exact ⟨[], by simp, fun Y _ => by simp⟩
  · -- pre = q ++ ['\n']
    obtain ⟨q, hq⟩ : ∃ q, pre = q ++ ['\n'] := by
      have hne : pre ≠ [] := by intro e; rw [e] at hl; cases hl
      refine ⟨pre.dropLast, ?_⟩
      have := dropLast_append_lastD pre '\n' hne
      rw [hl] at this
      simpa using this.symm
    refine ⟨splitChar '\n' q, ?_, ?_⟩
    · intro l hl'
      refine ⟨fun c hc => hw c ?_, splitChar_no_sep '\n' q l hl'⟩
      rw [hq]
      exact List.mem_append_left _ (mem_of_mem_splitChar '\n' q l hl' c hc)
    · intro Y hY
      rw [join_append2 _ _ (Py.splitChar_ne_nil '\n' q) hY, join_splitChar, hq]
      simp


theorem takeWhile_space_prefix (w rest : Str) (hw : ∀ c ∈ w, isSpace c = true) (hr : headP isSpace rest = false) :
    (w ++ rest).takeWhile isSpace = w := by
  induction w with
  | nil =>
    cases rest with
    | nil => rfl
    | cons c cs => simp only [headP] at hr; simp [List.takeWhile, hr]
  | cons c cs ih =>
    simp only [List.cons_append, List.takeWhile, hw c (by simp)]
    rw [ih (fun x hx => hw x (by simp [hx]))]

theorem joinNl_bodyR (b : Bool) (body : List Str) (hb : body ≠ []) :
    Model.Unsign.joinNl (body.map (· ++ crOf b)) = joinWith (crOf b ++ ['\n']) body ++ crOf b := by
  induction body with
  | nil => exact absurd rfl hb
  | cons l ls ih =>
    cases ls with
    | nil => rfl
    | cons m ms =>
      have := ih (by simp)
      simp only [List.map_cons] at this ⊢
      simp only [Model.Unsign.joinNl, joinWith, this]
      simp [List.append_assoc]

theorem nl_eq (m : Msg) : nl m = crOf m.crlf ++ ['\n'] := by
  unfold nl crOf; cases m.crlf <;> rfl

theorem noNl_of_all (p : Char → Bool) (l : Str) (h : ∀ c ∈ l, p c = true) (hp : p '\n' = false) : '\n' ∉ l := by
  intro hm; have := h _ hm; rw [hp] at this; cases this

theorem plain_noNl (l : Str) (h : plainLine l = true) : '\n' ∉ l := by
  simp only [plainLine, Bool.and_eq_true, Bool.not_eq_true'] at h
  intro hm
  have : l.contains '\n' = true := List.contains_iff_mem.mpr hm
  rw [h.1] at this; cases this

theorem append_cr_noNl (l : Str) (b : Bool) (h : '\n' ∉ l) : '\n' ∉ l ++ crOf b := by
  intro hm
  rcases List.mem_append.mp hm with h1 | h1
  · exact h h1
  · cases b <;> simp [crOf] at h1


/-- the header block of the message forms the theorem covers -/
def hdrOf (m : Msg) : List Str :=
  match m.form, m.hashes with
  | 1, some h => ["Hash: ".toList ++ h, []]
  | _, _ => []

/-- every logical line but the END line -/
def allButEnd (m : Msg) : List Str :=
  [beginSigned] ++ hdrOf m ++ m.body ++ [sigBegin] ++ m.armorHeaders ++ [[]] ++ m.b64 ++ ['=' :: m.crc]

structure WF01 (m : Msg) : Prop where
  form : m.form = 0 ∨ (m.form = 1 ∧ ∃ h, m.hashes = some h ∧ h ≠ [] ∧ ∀ c ∈ h, isHashChar c = true)
  bodyNe : m.body ≠ []
  bodyPlain : ∀ l ∈ m.body, plainLine l = true
  form0 : m.form = 0 → form0Cond m.body = false
  ahOk : ∀ l ∈ m.armorHeaders, plainLine l = true ∧ hasColonSpace l = true
  b64Ne : m.b64 ≠ []
  b64Ok : ∀ l ∈ m.b64, isBodyLine l = true
  crcLen : m.crc.length = 4
  crcOk : ∀ c ∈ m.crc, isB64 c = true
  pre : m.text.takeWhile isSpace = [] ∨ (m.text.takeWhile isSpace).getLast? = some '\n'
  text : strip m.text = strip (render m)

theorem wf01_of (m : Msg) (h : wfWith [0, 1] m = true) : WF01 m := by
  simp only [wfWith, Bool.and_eq_true, Bool.or_eq_true, beq_iff_eq, Bool.not_eq_true', List.all_eq_true,
    decide_eq_true_eq, List.isEmpty_eq_false_iff, bne_iff_ne, ne_eq, List.isEmpty_iff] at h
  obtain ⟨⟨⟨⟨⟨⟨⟨⟨⟨⟨⟨⟨hcont, hhs⟩, hhash⟩, hbne⟩, hbody⟩, hf0⟩, hah⟩, hb64ne⟩, hb64⟩, hcrcl⟩, hcrc⟩, hpre⟩, htext⟩ := h
  have hform' : m.form = 0 ∨ m.form = 1 := by simpa using hcont
  refine ⟨?_, hbne, fun l hl => (hbody l hl).1, ?_, hah, hb64ne, hb64, hcrcl, hcrc, ?_, htext⟩
  · rcases hform' with h0 | h1
    · exact Or.inl h0
    · right
      refine ⟨h1, ?_⟩
      have hsome : m.hashes.isSome = true := by
        rcases hhs with (h | h) | h
        · omega
        · omega
        · exact h
      cases hm : m.hashes with
      | none => rw [hm] at hsome; cases hsome
      | some hv =>
        rw [hm] at hhash
        simp only [Bool.and_eq_true, Bool.not_eq_true', List.isEmpty_eq_false_iff, List.all_eq_true] at hhash
        exact ⟨hv, rfl, hhash.1, hhash.2⟩
  · intro h0
    rcases hf0 with hf | hf
    · exact absurd h0 hf
    · cases hb : m.body with
      | nil => rfl
      | cons x xs =>
        cases xs with
        | nil => rfl
        | cons y ys =>
          cases ys with
          | nil => rfl
          | cons z zs =>
            rw [hb] at hf
            simpa [form0Cond] using hf
  · rcases hpre with hp | hp
    · exact Or.inl hp
    · exact Or.inr hp


theorem renderLines_eq (m : Msg) (w : WF01 m) : renderLines m = allButEnd m ++ [endSignature] := by
  unfold renderLines allButEnd hdrOf
  rcases w.form with h0 | ⟨h1, hv, hh, _, _⟩
  · rw [h0]; cases m.hashes <;> simp only [List.append_assoc] <;> rfl
  · rw [h1, hh]; simp only [List.append_assoc]; rfl

theorem allButEnd_cons (m : Msg) : allButEnd m = beginSigned :: (hdrOf m ++ (m.body ++ sigBegin :: (m.armorHeaders ++
    [] :: (m.b64 ++ ['=' :: m.crc])))) := by
  simp only [allButEnd, List.append_assoc, List.cons_append, List.nil_append]

theorem hdrOf_form0 (m : Msg) (h0 : m.form = 0) : hdrOf m = [] := by
  unfold hdrOf; rw [h0]; cases m.hashes <;> rfl

theorem allButEnd_noNl (m : Msg) (w : WF01 m) : ∀ l ∈ allButEnd m, '\n' ∉ l := by
  intro l hl
  simp only [allButEnd, List.mem_append, List.mem_singleton, List.mem_cons, List.not_mem_nil, or_false] at hl
  rcases hl with (((((((rfl | hl) | hl) | rfl) | hl) | rfl) | hl) | rfl)
  · decide
  · unfold hdrOf at hl
    rcases w.form with h0 | ⟨h1, hv, hh, _, hhc⟩
    · rw [h0] at hl; cases hl
    · rw [h1, hh] at hl
      simp only [List.mem_cons, List.not_mem_nil, or_false] at hl
      rcases hl with rfl | rfl
      · intro hm
        rcases List.mem_append.mp hm with h | h
        · revert h; decide
        · have := hhc _ h; revert this; decide
      · simp
  · exact plain_noNl l (w.bodyPlain l hl)
  · decide
  · exact plain_noNl l (w.ahOk l hl).1
  · simp
  · intro hm
    rcases bodyLine_chars l (w.b64Ok l hl) _ hm with h | h
    · revert h; decide
    · revert h; decide
  · intro hm
    simp only [List.mem_cons] at hm
    rcases hm with h | h
    · revert h; decide
    · have := w.crcOk _ h; revert this; decide

/-- **C16, the well-formed clause** (hypothesis of K6: no header block, or exactly one `Hash:` line): for every
well-formed clear-signed message — any body lines, any armor headers, any base64 lines, LF or CRLF, with or
without a final line ending, preceded by blank lines and followed by any white space — the model of
`remove_signature` returns exactly the signed body (with the final carriage return for CRLF input) -/
theorem wellformed_body (m : Msg) (hw : wfWith [0, 1] m = true) : removeSignature m.text = expected m := by
  have w := wf01_of m hw
  have hL := renderLines_eq m w
  -- the core of the text
  have hcore : joinWith (nl m) (renderLines m) =
      join ['\n'] ((allButEnd m).map (· ++ crOf m.crlf) ++ [endSignature]) := by
    rw [nl_eq, joinWith_raw, hL, rawOf_snoc]
  have hAne : (allButEnd m).map (· ++ crOf m.crlf) ≠ [] := by simp [allButEnd]
  have hcoreEnd : joinWith (nl m) (renderLines m) =
      join ['\n'] ((allButEnd m).map (· ++ crOf m.crlf)) ++ '\n' :: endSignature := by
    rw [hcore, join_append2 _ _ hAne (by simp)]; rfl
  have hcoreBegin : ∃ r, joinWith (nl m) (renderLines m) = beginSigned ++ r := by
    rw [hcore]
    obtain ⟨x, xs, hx⟩ : ∃ x xs, (allButEnd m).map (· ++ crOf m.crlf) ++ [endSignature] =
        (beginSigned ++ crOf m.crlf) :: x :: xs := by
      rw [allButEnd_cons]
      simp only [List.map_cons, List.cons_append]
      cases hR : (hdrOf m ++ (m.body ++ sigBegin :: (m.armorHeaders ++ [] :: (m.b64 ++ ['=' :: m.crc])))).map
          (· ++ crOf m.crlf) ++ [endSignature] with
      | nil => simp at hR
      | cons x xs => exact ⟨x, xs, rfl⟩
    rw [hx, join1_cons2]
    exact ⟨_, by rw [List.append_assoc]⟩
  have hhead : headP isSpace (joinWith (nl m) (renderLines m)) = false := by
    obtain ⟨r, hr⟩ := hcoreBegin
    rw [hr]; rfl
  have hlast : lastP (fun c => !isSpace c) (joinWith (nl m) (renderLines m)) = true := by
    rw [hcoreEnd, lastP_append_cons]
    decide
  have hstripR : strip (render m) = joinWith (nl m) (renderLines m) := by
    unfold render
    have := strip_core [] (joinWith (nl m) (renderLines m)) (if m.finalNl then nl m else []) (by simp)
      (by
        intro c hc
        have hc' : c ∈ nl m := by
          by_cases hf : m.finalNl = true
          · simpa [hf] using hc
          · simp [hf] at hc
        rw [nl_eq] at hc'
        simp only [List.mem_append, List.mem_singleton] at hc'
        rcases hc' with h | rfl
        · cases hcr : m.crlf with
          | false => rw [hcr] at h; simp [crOf] at h
          | true =>
            rw [hcr] at h
            have : c = '\r' := by simpa [crOf] using h
            subst this; decide
        · decide) hhead hlast
    simpa using this
  -- the text: white space, the core, white space
  obtain ⟨pre, hpre, htext1⟩ := lstrip_decomp m.text
  obtain ⟨post, hpost, htext2⟩ := rstrip_decomp (lstrip m.text)
  have hstripT : rstrip (lstrip m.text) = joinWith (nl m) (renderLines m) := by
    have := w.text; unfold strip at this; rw [this]; exact hstripR
  rw [hstripT] at htext2
  have htext : m.text = pre ++ (joinWith (nl m) (renderLines m) ++ post) := by rw [← htext2]; exact htext1
  have hpreTW : m.text.takeWhile isSpace = pre := by
    rw [htext]
    apply takeWhile_space_prefix _ _ hpre
    cases hc : joinWith (nl m) (renderLines m) with
    | nil => rw [hc] at hlast; simp at hlast
    | cons c cs => rw [hc] at hhead; simpa [headP] using hhead
  obtain ⟨P, hP, hPjoin⟩ := pre_lines pre hpre (by rw [← hpreTW]; exact w.pre)
  -- the lines of the white space after the message
  obtain ⟨s0, T, hsT⟩ : ∃ s0 T, splitChar '\n' post = s0 :: T := by
    cases h : splitChar '\n' post with
    | nil => exact absurd h (Py.splitChar_ne_nil '\n' post)
    | cons s0 T => exact ⟨s0, T, rfl⟩
  have hpostJoin : post = join ['\n'] (s0 :: T) := by rw [← hsT, join_splitChar]
  have hTmem : ∀ t ∈ s0 :: T, (∀ c ∈ t, isSpace c = true) ∧ '\n' ∉ t := by
    intro t ht
    rw [← hsT] at ht
    exact ⟨fun c hc => hpost c (mem_of_mem_splitChar '\n' post t ht c hc), splitChar_no_sep '\n' post t ht⟩
  -- all the lines
  have hlines : splitChar '\n' m.text =
      P ++ ((allButEnd m).map (· ++ crOf m.crlf) ++ (endSignature ++ s0) :: T) := by
    have hjoin : m.text = join ['\n'] (P ++ ((allButEnd m).map (· ++ crOf m.crlf) ++ (endSignature ++ s0) :: T)) := by
      rw [htext, hcore]
      conv => lhs; rw [hpostJoin, join_snoc_glue]
      exact hPjoin _ (by simp)
    conv => lhs; rw [hjoin]
    apply splitChar_join
    · simp
    · intro p hp
      simp only [List.mem_append, List.mem_map, List.mem_cons] at hp
      rcases hp with hp | ⟨l, hl, rfl⟩ | rfl | hp
      · exact (hP p hp).2
      · exact append_cr_noNl l _ (allButEnd_noNl m w l hl)
      · intro hm
        rcases List.mem_append.mp hm with h | h
        · revert h; decide
        · exact (hTmem s0 (by simp)).2 h
      · exact (hTmem p (by simp [hp])).2
  -- the message lines in the shape of the line-level theorems
  have ok : ArmorOK m.armorHeaders m.b64 m.crc T :=
    ⟨fun l hl => (w.ahOk l hl).2, w.b64Ne, w.b64Ok, w.crcLen, w.crcOk, fun t ht => (hTmem t (by simp [ht])).1⟩
  have hmsg : (allButEnd m).map (· ++ crOf m.crlf) ++ (endSignature ++ s0) :: T =
      (beginSigned ++ crOf m.crlf) :: ((hdrOf m).map (· ++ crOf m.crlf) ++
        (m.body.map (· ++ crOf m.crlf) ++ armorR m.crlf m.armorHeaders m.b64 m.crc s0 T)) := by
    rw [allButEnd_cons]
    simp only [armorR, List.map_append, List.map_cons, List.map_nil, List.append_assoc, List.cons_append, List.nil_append]
  have hmatch : matchAt ((allButEnd m).map (· ++ crOf m.crlf) ++ (endSignature ++ s0) :: T) =
      some (.clear (Model.Unsign.joinNl (m.body.map (· ++ crOf m.crlf)))) := by
    rw [hmsg]
    rcases w.form with h0 | ⟨h1, hv, hh, hne, hhc⟩
    · have : hdrOf m = [] := hdrOf_form0 m h0
      rw [this]
      simp only [List.map_nil, List.nil_append]
      exact matchAt_form0 m.crlf m.body m.armorHeaders m.b64 m.crc s0 T w.bodyNe w.bodyPlain (w.form0 h0) ok
    · have : hdrOf m = ["Hash: ".toList ++ hv, []] := by unfold hdrOf; rw [h1, hh]; rfl
      rw [this]
      simp only [List.map_cons, List.map_nil, List.nil_append, List.cons_append]
      exact matchAt_form1 m.crlf hv m.body m.armorHeaders m.b64 m.crc s0 T hne hhc w.bodyNe ok
  have hsearch : search (splitChar '\n' m.text) = some (.clear (Model.Unsign.joinNl (m.body.map (· ++ crOf m.crlf)))) := by
    rw [hlines, search_blank_prefix P _ (fun l hl => (hP l hl).1)]
    exact search_here _ _ hmatch (by simp [allButEnd])
  -- the envelope test
  have hsigned : isSigned m.text = true := by
    unfold isSigned
    have hst : strip m.text = joinWith (nl m) (renderLines m) := by unfold strip; exact hstripT
    rw [hst]
    have hne1 : m.text.isEmpty = false := by
      rw [htext]
      cases hc : joinWith (nl m) (renderLines m) with
      | nil => rw [hc] at hlast; simp at hlast
      | cons c cs => cases pre <;> simp
    have hne2 : (joinWith (nl m) (renderLines m)).isEmpty = false := by
      cases hc : joinWith (nl m) (renderLines m) with
      | nil => rw [hc] at hlast; simp at hlast
      | cons c cs => rfl
    obtain ⟨r, hr⟩ := hcoreBegin
    have h3 : startsWith (joinWith (nl m) (renderLines m)) beginSigned = true := by
      rw [hr]; exact startsWith_self_append _ _
    have h4 : endsWith (joinWith (nl m) (renderLines m)) endSignature = true := by
      rw [hcoreEnd]
      unfold endsWith
      rw [List.reverse_append, List.reverse_cons]
      simp only [List.append_assoc]
      exact startsWith_self_append _ _
    simp [hne1, hne2, h3, h4]
  unfold removeSignature
  rw [hsigned, hsearch]
  simp only [Bool.not_true, Bool.false_eq_true, if_false]
  rw [joinNl_bodyR _ _ w.bodyNe]
  unfold expected
  rw [nl_eq]
  cases m.crlf <;> rfl


/-- **C16, well-formed messages, as the check evaluates it** (`holdsOnWK6`: the property with the hypothesis
of finding K6 added) -/
theorem soundWK6 (m : Msg) : holdsOnWK6 m (Props.C16.model m.text) = true := by
  unfold holdsOnWK6
  cases hw : wfWith [0, 1] m with
  | false => rfl
  | true =>
    simp only [Bool.not_true, Bool.false_or, Props.C16.model, wellformed_body m hw, beq_self_eq_true]

end Props.C16W
