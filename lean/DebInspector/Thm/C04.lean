/-
C04 — property theorems (the lemmas live in `Proofs/VersionPrint.lean`).
-/
import DebInspector.Props.C04
import DebInspector.Proofs.VersionPrint

namespace Props.C04
open Py Spec Model.Version Proofs.VersionParse Proofs.VersionPrint

theorem epochPrefix_eq (e : Nat) : Props.C04.epochPrefix e = Proofs.VersionPrint.epochPrefix e := rfl

/-- round trip: the printed form of an accepted version is accepted and parses to an equal version -/
theorem roundtrip (s : Str) (v : Ver) (h : fromString s = .ok v) : fromString (toStr v) = .ok v :=
  fromString_toStr s v h

/-- printing is idempotent: printing the re-parsed version gives the same text -/
theorem idempotent (s : Str) (v v2 : Ver) (h : fromString s = .ok v) (h2 : fromString (toStr v) = .ok v2) :
    toStr v2 = toStr v := by
  rw [fromString_toStr s v h] at h2; cases h2; rfl

/-- the printed form is the normalised epoch, the upstream, and the revision unless it is "0" -/
theorem printed_shape (v : Ver) : shape (tup v) (toStr v) = true := by
  unfold shape toStr tup
  simp only [verPrefix_eq, epochPrefix_eq]
  split
  · simp
  · rename_i hc
    simp only [Bool.or_eq_true, Bool.not_eq_true', not_or, Bool.not_eq_false, decide_eq_true_eq,
      ne_eq, Decidable.not_not] at hc
    simp [hc.1.1]

/-- **C04**: for every string, if it is accepted then printing and re-parsing gives the same
version, printing again gives the same text, and the printed text has the allowed shape -/
theorem sound (s : Str) : holdsOn s (model s) = true := by
  unfold holdsOn model
  cases h : fromString s with
  | error e => rfl
  | ok v =>
    simp only [fromString_toStr s v h]
    have hsplit := (fromString_ok s v h).2
    simp only [Bool.and_eq_true]
    refine ⟨⟨?_, printed_shape v⟩, ?_⟩
    · simp [tup, hsplit]
    · simp

/-- what the model prints for an accepted string, when the printed form is accepted again -/
def printed (s : Str) : Option Str :=
  match model s with
  | .ok (_, p, .ok _) => some p
  | _ => none

/-- non-vacuity: the two families the pinned tree got wrong, and epoch normalisation -/
example : printed "1-2-0".toList = some "1-2-0".toList := by decide +kernel
example : printed "0:2+-0".toList = some "2+-0".toList := by decide +kernel
example : printed "01:1.0-0".toList = some "1:1.0".toList := by decide +kernel
example : printed " 0:1.0-1 ".toList = some "1.0-1".toList := by decide +kernel

end Props.C04
