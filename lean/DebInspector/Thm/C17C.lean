/-
C17 — latest-version selection on lists of binary package file names: the single-name and the per-name variant.
-/
import DebInspector.Thm.C17

namespace Props.C17C
open Py Spec Model.Package Model.Version Proofs.VersionParse Proofs.VersionPrint Proofs.VersionOrder Props.C17

/-! ### the order of strings -/

theorem strLt_irrefl (a : Str) : strLt a a = false := by
  induction a with
  | nil => rfl
  | cons c cs ih => simp [strLt, ih]

theorem strLt_trans (a b c : Str) (h1 : strLt a b = true) (h2 : strLt b c = true) : strLt a c = true := by
  induction a generalizing b c with
  | nil =>
    cases b with
    | nil => simp [strLt] at h1
    | cons y ys =>
      cases c with
      | nil => simp [strLt] at h2
      | cons z zs => rfl
  | cons x xs ih =>
    cases b with
    | nil => simp [strLt] at h1
    | cons y ys =>
      cases c with
      | nil => simp [strLt] at h2
      | cons z zs =>
        simp only [strLt] at h1 h2 ⊢
        by_cases hxy : x.toNat < y.toNat
        · by_cases hyz : y.toNat < z.toNat
          · have : x.toNat < z.toNat := by omega
            simp [this]
          · simp only [hyz, if_false] at h2
            by_cases hzy : y.toNat > z.toNat
            · simp [hzy] at h2
            · have : x.toNat < z.toNat := by omega
              simp [this]
        · simp only [hxy, if_false] at h1
          by_cases hyx : x.toNat > y.toNat
          · simp [hyx] at h1
          · simp only [hyx, if_false] at h1
            have exy : x.toNat = y.toNat := by omega
            by_cases hyz : y.toNat < z.toNat
            · have : x.toNat < z.toNat := by omega
              simp [this]
            · simp only [hyz, if_false] at h2
              by_cases hzy : y.toNat > z.toNat
              · simp [hzy] at h2
              · simp only [hzy, if_false] at h2
                have h3 : ¬ x.toNat < z.toNat := by omega
                have h4 : ¬ x.toNat > z.toNat := by omega
                simp only [h3, h4, if_false]
                exact ih ys zs h1 h2

theorem strLt_total (a b : Str) (hne : a ≠ b) (h : strLt a b = false) : strLt b a = true := by
  induction a generalizing b with
  | nil =>
    cases b with
    | nil => exact absurd rfl hne
    | cons y ys => simp [strLt] at h
  | cons x xs ih =>
    cases b with
    | nil => rfl
    | cons y ys =>
      simp only [strLt] at h ⊢
      by_cases hxy : x.toNat < y.toNat
      · simp [hxy] at h
      · simp only [hxy, if_false] at h
        by_cases hyx : x.toNat > y.toNat
        · have : y.toNat < x.toNat := hyx
          simp [this]
        · simp only [hyx, if_false] at h
          have exy : x.toNat = y.toNat := by omega
          have hc : x = y := Char.toNat_inj.mp exy
          subst hc
          have h1 : ¬ x.toNat < x.toNat := by omega
          simp only [h1, if_false, gt_iff_lt]
          exact ih ys (fun e => hne (by rw [e])) h

theorem strLt_asymm (a b : Str) (h : strLt a b = true) : strLt b a = false := by
  cases hb : strLt b a with
  | false => rfl
  | true =>
    have := strLt_trans a b a h hb
    rw [strLt_irrefl] at this; cases this

/-! ### sorting archives of several names: by name, then by version -/

def AllGood (l : List Archive) : Prop := ∀ a ∈ l, GoodVer a.version

/-- `a` does not come after `b`: an earlier name, or the same name and a version that is not later -/
def le2 (a b : Archive) : Prop := strLt a.name b.name = true ∨ (a.name = b.name ∧ vle a b)

theorem le2_of_true (x y : Archive) (hx : GoodVer x.version) (hy : GoodVer y.version) (h : archiveLt x y = some true) :
    le2 x y := by
  by_cases hn : x.name = y.name
  · exact Or.inr ⟨hn, archiveLt_true x y hn hx hy h⟩
  · left
    unfold archiveLt at h
    simpa [hn] using h

theorem le2_of_false (x y : Archive) (hx : GoodVer x.version) (hy : GoodVer y.version) (h : archiveLt x y = some false) :
    le2 y x := by
  by_cases hn : x.name = y.name
  · exact Or.inr ⟨hn.symm, archiveLt_false x y hn hx hy h⟩
  · left
    unfold archiveLt at h
    have : strLt x.name y.name = false := by simpa [hn] using h
    exact strLt_total _ _ hn this

theorem le2_trans (a b c : Archive) (ha : GoodVer a.version) (hb : GoodVer b.version) (hc : GoodVer c.version)
    (h1 : le2 a b) (h2 : le2 b c) : le2 a c := by
  rcases h1 with h1 | ⟨e1, v1⟩
  · rcases h2 with h2 | ⟨e2, _⟩
    · exact Or.inl (strLt_trans _ _ _ h1 h2)
    · left; rw [← e2]; exact h1
  · rcases h2 with h2 | ⟨e2, v2⟩
    · left; rw [e1]; exact h2
    · exact Or.inr ⟨e1.trans e2, vle_trans a b c ha hb hc v1 v2⟩

def Sorted2 (l : List Archive) : Prop := l.Pairwise le2

theorem insertA_sorted2 (x : Archive) (hx : GoodVer x.version) :
    ∀ (l s : List Archive), AllGood l → Sorted2 l → insertA x l = some s → Sorted2 s
  | [], s, _, _, h => by simp [insertA] at h; subst h; simp [Sorted2]
  | y :: ys, s, hg, hs, h => by
    have hy := hg y (by simp)
    have hgys : AllGood ys := fun a ha => hg a (by simp [ha])
    unfold Sorted2 at hs ⊢
    rw [List.pairwise_cons] at hs
    unfold insertA at h
    cases hc : archiveLt x y with
    | none => rw [hc] at h; cases h
    | some b =>
      rw [hc] at h
      cases b with
      | true =>
        simp at h; subst h
        have hxy := le2_of_true x y hx hy hc
        rw [List.pairwise_cons]
        refine ⟨?_, List.pairwise_cons.mpr hs⟩
        intro z hz
        rcases List.mem_cons.mp hz with rfl | hz
        · exact hxy
        · exact le2_trans x y z hx hy (hgys z hz) hxy (hs.1 z hz)
      | false =>
        simp only [Option.map_eq_some_iff] at h
        obtain ⟨s', hs', rfl⟩ := h
        have hyx := le2_of_false x y hx hy hc
        rw [List.pairwise_cons]
        refine ⟨?_, insertA_sorted2 x hx ys s' hgys hs.2 hs'⟩
        intro z hz
        have hm := (insertA_perm x ys s' hs').mem_iff.mp hz
        rcases List.mem_cons.mp hm with rfl | hz'
        · exact hyx
        · exact hs.1 z hz'

theorem foldl_insertA_sorted2 : ∀ (xs acc s : List Archive), AllGood xs → AllGood acc → Sorted2 acc →
    xs.foldl (fun acc x => acc.bind (insertA x)) (some acc) = some s → Sorted2 s
  | [], acc, s, _, _, hs, h => by simp at h; subst h; exact hs
  | x :: xs, acc, s, hgx, hga, hs, h => by
    simp only [List.foldl_cons, Option.bind_some] at h
    cases hi : insertA x acc with
    | none =>
      rw [hi] at h
      have : ∀ ys : List Archive, ys.foldl (fun acc x => acc.bind (insertA x)) none = none := by
        intro ys; induction ys with
        | nil => rfl
        | cons y ys ih => simpa using ih
      rw [this] at h; cases h
    | some acc' =>
      rw [hi] at h
      have hx := hgx x (by simp)
      have hacc' : AllGood acc' := by
        intro a ha
        have := (insertA_perm x acc acc' hi).mem_iff.mp ha
        rcases List.mem_cons.mp this with rfl | h'
        · exact hx
        · exact hga a h'
      exact foldl_insertA_sorted2 xs acc' s (fun a ha => hgx a (by simp [ha])) hacc'
        (insertA_sorted2 x hx acc acc' hga hs hi) h

theorem sortA_sorted2 (l s : List Archive) (hg : AllGood l) (h : sortA l = some s) : Sorted2 s :=
  foldl_insertA_sorted2 l [] s hg (by intro a ha; cases ha) (by simp [Sorted2]) h

/-! ### a binary package file name parses to the archive it spells -/

theorem findSome_mem {α β} (l : List α) (f : α → Option β) (v : β) (h : l.findSome? f = some v) : ∃ x ∈ l, f x = some v := by
  induction l with
  | nil => simp at h
  | cons a as ih =>
    simp only [List.findSome?_cons] at h
    cases hfa : f a with
    | some w => rw [hfa] at h; cases h; exact ⟨a, by simp, hfa⟩
    | none =>
      rw [hfa] at h
      obtain ⟨x, hx, hfx⟩ := ih h
      exact ⟨x, by simp [hx], hfx⟩

theorem lastP_append_ne' (p : Char → Bool) (a b : Str) (hb : b ≠ []) : lastP p (a ++ b) = lastP p b := by
  induction a with
  | nil => rfl
  | cons c cs ih =>
    rw [List.cons_append, lastP_cons_ne_nil _ _ _ (by simp [hb])]
    exact ih

/-- the archive a binary package file name spells -/
theorem parseBinary_archive (fn n v a : Str) (h : parseBinary fn = some (n, v, a)) :
    ∃ w, debFromFilename fn = .ok ⟨n, w, some a, fn⟩ ∧ tupleOf w = Policy.split v ∧ GoodVer w := by
  unfold parseBinary at h
  simp only at h
  obtain ⟨e, he, hfe⟩ := findSome_mem _ _ _ h
  by_cases hend : endsWith (rpartitionChar '/' fn).2.2 e.toList = true
  · simp only [hend, if_true] at hfe
    obtain ⟨stem, hstem⟩ := (endsWith_iff _ _).mp hend
    have hlen : ((rpartitionChar '/' fn).2.2).take ((rpartitionChar '/' fn).2.2.length - e.length) = stem := by
      rw [hstem]
      have : e.length = e.toList.length := String.length_toList.symm
      simp [this]
    rw [hlen] at hfe
    -- three parts
    cases hsp : splitChar '_' stem with
    | nil => rw [hsp] at hfe; cases hfe
    | cons p1 r1 =>
      rw [hsp] at hfe
      cases r1 with
      | nil => cases hfe
      | cons p2 r2 =>
        cases r2 with
        | nil => cases hfe
        | cons p3 r3 =>
          cases r3 with
          | cons _ _ => cases hfe
          | nil =>
            simp only at hfe
            by_cases hc : (!p1.isEmpty && accepted p2 && !p3.isEmpty && !p3.contains '.') = true
            · simp only [hc, if_true, Option.some.injEq, Prod.mk.injEq] at hfe
              obtain ⟨rfl, rfl, rfl⟩ := hfe
              simp only [Bool.and_eq_true, Bool.not_eq_true', List.isEmpty_eq_false_iff] at hc
              obtain ⟨⟨⟨hn, hacc⟩, han⟩, hadot⟩ := hc
              -- the pieces have no underscore; the base name has no slash
              have hnous := splitChar_no_sep '_' stem
              rw [hsp] at hnous
              have hjoin : stem = p1 ++ '_' :: (p2 ++ '_' :: p3) := by
                have := join_splitChar '_' stem
                rw [hsp] at this
                simpa [join] using this.symm
              have hsl := rpartitionChar_spec '/' fn
              simp only at hsl
              have hbnosl : '/' ∉ (rpartitionChar '/' fn).2.2 := by
                by_cases hf : (rpartitionChar '/' fn).2.1 = true
                · exact (hsl.1 hf).2
                · have hf' : (rpartitionChar '/' fn).2.1 = false := by simpa using hf
                  rw [(hsl.2 hf').2.2]; exact (hsl.2 hf').1
              have hmem : ∀ c, c ∈ p1 ∨ c ∈ p3 → c ∈ (rpartitionChar '/' fn).2.2 := by
                intro c hc
                rw [hstem, hjoin]
                rcases hc with hc | hc <;> simp [hc]
              let dir : Str := if (rpartitionChar '/' fn).2.1 then (rpartitionChar '/' fn).1 ++ ['/'] else []
              have hfn : fn = dir ++ (rpartitionChar '/' fn).2.2 := by
                by_cases hf : (rpartitionChar '/' fn).2.1 = true
                · have := (hsl.1 hf).1
                  simp only [dir, hf, if_true, List.append_assoc, List.singleton_append]
                  exact this
                · have hf' : (rpartitionChar '/' fn).2.1 = false := by simpa using hf
                  simp only [dir, hf', Bool.false_eq_true, if_false, List.nil_append]
                  exact (hsl.2 hf').2.2.symm
              have hdir : dir.isEmpty = true ∨ lastP (· = '/') dir = true := by
                by_cases hf : (rpartitionChar '/' fn).2.1 = true
                · right
                  simp only [dir, hf, if_true]
                  rw [lastP_append_ne' _ _ _ (by simp)]
                  simp [lastP]
                · have hf' : (rpartitionChar '/' fn).2.1 = false := by simpa using hf
                  left; simp [dir, hf']
              let i : InputA := ⟨dir, p1, p2, some p3, e.toList, fn⟩
              have hwf : wfA i = true := by
                simp only [wfA, i, Bool.and_eq_true, Bool.or_eq_true, Bool.not_eq_true', beq_iff_eq, decide_eq_true_eq]
                refine ⟨⟨⟨⟨⟨⟨?_, ?_⟩, ?_⟩, ?_⟩, hacc⟩, ⟨⟨⟨⟨?_, ?_⟩, hadot⟩, ?_⟩, ?_⟩⟩, ?_⟩
                · rcases hdir with h | h
                  · left; exact h
                  · right; simpa using h
                · cases hp : p1 with
                  | nil => exact absurd hp hn
                  | cons _ _ => rfl
                · cases hc : p1.contains '_' with
                  | false => rfl
                  | true => exact absurd (List.contains_iff_mem.mp hc) (hnous p1 (by simp))
                · cases hc : p1.contains '/' with
                  | false => rfl
                  | true => exact absurd (hmem _ (Or.inl (List.contains_iff_mem.mp hc))) hbnosl
                · cases hp : p3 with
                  | nil => exact absurd hp han
                  | cons _ _ => rfl
                · cases hc : p3.contains '_' with
                  | false => rfl
                  | true => exact absurd (List.contains_iff_mem.mp hc) (hnous p3 (by simp))
                · cases hc : p3.contains '/' with
                  | false => rfl
                  | true => exact absurd (hmem _ (Or.inr (List.contains_iff_mem.mp hc))) hbnosl
                · simp only [String.ofList_toList]
                  exact List.contains_iff_mem.mpr he
                · simp only [render]
                  rw [hfn] at *
                  rw [hstem, hjoin]
                  simp [List.append_assoc]
              have hrt := roundtrip i
              unfold holdsOnA at hrt
              simp only [hwf, Bool.not_true, Bool.false_or, decide_eq_true_eq, i] at hrt
              unfold modelA at hrt
              cases hd : debFromFilename fn with
              | error err => rw [hd] at hrt; cases hrt
              | ok arch =>
                rw [hd] at hrt
                simp only [Except.map, aTup, Except.ok.injEq, Prod.mk.injEq] at hrt
                obtain ⟨h1, h2, h3, h4⟩ := hrt
                have hvalid : Policy.valid p2 = true := by
                  simp only [accepted, Policy.mustAccept, Bool.and_eq_true] at hacc
                  exact hacc.1.1.1
                have hvc := valid_components p2 hvalid
                refine ⟨arch.version, ?_, ?_, ?_⟩
                · cases arch
                  simp only at h1 h3 h4
                  subst h1 h3 h4
                  rfl
                · exact h2
                · have e1 : arch.version.upstream = (Policy.split p2).2.1 := by rw [← h2]
                  have e2 : arch.version.revision = (Policy.split p2).2.2 := by rw [← h2]
                  exact ⟨by rw [e1]; exact hvc.1, by rw [e2]; exact hvc.2⟩
            · simp only [hc, Bool.false_eq_true, if_false] at hfe
              cases hfe
  · simp only [hend, Bool.false_eq_true, if_false] at hfe
    cases hfe

/-! ### the whole list -/

theorem inputs_archives (fns : List Str) (inputs : List ATup) (h : fns.mapM toTup = some inputs) :
    ∃ ps, fns.mapM debFromFilename = .ok ps ∧ ps.map aTup = inputs ∧ AllGood ps ∧ ∀ a ∈ ps, a.arch.isSome = true := by
  induction fns generalizing inputs with
  | nil =>
    rw [List.mapM_nil] at h
    cases h
    refine ⟨[], rfl, rfl, ?_, ?_⟩
    · intro a ha; cases ha
    · intro a ha; cases ha
  | cons fn rest ih =>
    rw [List.mapM_cons] at h
    cases hp : toTup fn with
    | none => rw [hp] at h; cases h
    | some tup =>
      rw [hp] at h
      cases hm : rest.mapM toTup with
      | none => rw [hm] at h; cases h
      | some tups =>
        rw [hm] at h
        have hin : inputs = tup :: tups := by cases h; rfl
        subst hin
        obtain ⟨ps, hps, hmap, hgood, harch⟩ := ih tups hm
        unfold toTup at hp
        cases hb : parseBinary fn with
        | none => rw [hb] at hp; cases hp
        | some nva =>
          obtain ⟨n, v, a⟩ := nva
          rw [hb] at hp
          simp only [Option.map_some, Option.some.injEq] at hp
          obtain ⟨w, hd, htup, hg⟩ := parseBinary_archive fn n v a hb
          refine ⟨⟨n, w, some a, fn⟩ :: ps, ?_, ?_, ?_, ?_⟩
          · rw [List.mapM_cons, hd, hps]; rfl
          · rw [List.map_cons, hmap, ← hp]
            simp only [aTup, List.cons.injEq, and_true, Prod.mk.injEq, true_and]
            exact htup
          · intro x hx
            rcases List.mem_cons.mp hx with rfl | hx
            · exact hg
            · exact hgood x hx
          · intro x hx
            rcases List.mem_cons.mp hx with rfl | hx
            · rfl
            · exact harch x hx

/-! ### names -/

theorem dedup_mem (l : List Str) : ∀ x, x ∈ dedupNames l ↔ x ∈ l := by
  induction l with
  | nil => intro x; simp [dedupNames]
  | cons a as ih =>
    intro x
    unfold dedupNames
    by_cases hc : as.contains a = true
    · simp only [hc, if_true, ih, List.mem_cons]
      constructor
      · exact Or.inr
      · rintro (rfl | h)
        · exact List.contains_iff_mem.mp hc
        · exact h
    · simp only [hc, Bool.false_eq_true, if_false, List.mem_cons, ih]

theorem dedup_nodup (l : List Str) : (dedupNames l).Nodup := by
  induction l with
  | nil => exact List.nodup_nil
  | cons a as ih =>
    unfold dedupNames
    by_cases hc : as.contains a = true
    · simp only [hc, if_true]; exact ih
    · simp only [hc, Bool.false_eq_true, if_false]
      refine List.nodup_cons.mpr ⟨?_, ih⟩
      intro hm
      exact hc (List.contains_iff_mem.mpr ((dedup_mem as a).mp hm))

theorem dedup_length_congr (l1 l2 : List Str) (h : ∀ x, x ∈ l1 ↔ x ∈ l2) : (dedupNames l1).length = (dedupNames l2).length := by
  apply List.Perm.length_eq
  rw [List.perm_ext_iff_of_nodup (dedup_nodup l1) (dedup_nodup l2)]
  intro x
  rw [dedup_mem, dedup_mem, h]

theorem dedup_one (l : List Str) (h : (dedupNames l).length = 1) : ∃ n, ∀ x ∈ l, x = n := by
  cases hd : dedupNames l with
  | nil => rw [hd] at h; cases h
  | cons n rest =>
    rw [hd] at h
    have : rest = [] := by cases rest <;> simp_all
    subst this
    refine ⟨n, fun x hx => ?_⟩
    have := (dedup_mem l x).mpr hx
    rw [hd] at this
    simpa using this

/-! ### runs of equal names in a sorted list -/

structure Runs (s : List Archive) (G : List (Str × List Archive)) : Prop where
  flat : G.flatMap (·.2) = s
  grp : ∀ ng ∈ G, ng.2 ≠ [] ∧ (∀ a ∈ ng.2, a.name = ng.1) ∧ ng.2.Pairwise vle
  keys : (G.map (·.1)).Pairwise (fun n m => strLt n m = true)
  head : ∀ a ∈ s.head?, ∀ ng ∈ G.head?, ng.1 = a.name

theorem le2_same (a b : Archive) (hn : a.name = b.name) (h : le2 a b) : vle a b := by
  rcases h with h | ⟨_, h⟩
  · rw [hn, strLt_irrefl] at h; cases h
  · exact h

theorem le2_diff (a b : Archive) (hn : a.name ≠ b.name) (h : le2 a b) : strLt a.name b.name = true := by
  rcases h with h | ⟨e, _⟩
  · exact h
  · exact absurd e hn

theorem groupRuns_runs (s : List Archive) (hs : Sorted2 s) : Runs s (groupRuns s) := by
  induction s with
  | nil =>
    refine ⟨rfl, ?_, ?_, ?_⟩
    · intro ng h; simp [groupRuns] at h
    · simp [groupRuns]
    · intro a ha; simp at ha
  | cons a as ih =>
    unfold Sorted2 at hs
    rw [List.pairwise_cons] at hs
    have R := ih hs.2
    unfold groupRuns
    cases hG : groupRuns as with
    | nil =>
      have has : as = [] := by
        have := R.flat
        rw [hG] at this
        simpa using this.symm
      subst has
      refine ⟨by simp, ?_, by simp, ?_⟩
      · intro ng hng
        simp only [List.mem_singleton] at hng
        subst hng
        exact ⟨by simp, by simp, by simp⟩
      · intro b hb ng hng
        simp only [List.head?_cons, Option.mem_def, Option.some.injEq] at hb hng
        subst hb hng; rfl
    | cons ng rest =>
      obtain ⟨n, g⟩ := ng
      rw [hG] at R
      -- the first archive of the tail starts the first run
      have hgne := (R.grp (n, g) (by simp)).1
      obtain ⟨b, g', hgb⟩ : ∃ b g', g = b :: g' := by
        cases g with
        | nil => exact absurd rfl hgne
        | cons b g' => exact ⟨b, g', rfl⟩
      have hbas : b ∈ as := by
        rw [← R.flat]; simp [hgb]
      have hbn : b.name = n := (R.grp (n, g) (by simp)).2.1 b (by rw [hgb]; simp)
      simp only
      by_cases hn : n = a.name
      · simp only [hn, if_true]
        refine ⟨?_, ?_, ?_, ?_⟩
        · have := R.flat
          simp only [List.flatMap_cons] at this ⊢
          rw [List.cons_append, this]
        · intro ng hng
          rcases List.mem_cons.mp hng with rfl | hng
          · obtain ⟨_, h2, h3⟩ := R.grp (n, g) (by simp)
            refine ⟨by simp, ?_, ?_⟩
            · intro x hx
              rcases List.mem_cons.mp hx with rfl | hx
              · rfl
              · rw [← hn]; exact h2 x hx
            · rw [List.pairwise_cons]
              refine ⟨?_, h3⟩
              intro x hx
              have hxas : x ∈ as := by rw [← R.flat]; simp [hx]
              exact le2_same a x (by rw [h2 x hx, hn]) (hs.1 x hxas)
          · exact R.grp ng (by simp [hng])
        · have := R.keys
          simp only [List.map_cons] at this ⊢
          rw [← hn]; exact this
        · intro x hx ng hng
          simp only [List.head?_cons, Option.mem_def, Option.some.injEq] at hx hng
          subst hx hng; rfl
      · simp only [hn, if_false]
        have hab : strLt a.name n = true := by
          rw [← hbn]
          exact le2_diff a b (by rw [hbn]; exact fun e => hn e.symm) (hs.1 b hbas)
        refine ⟨?_, ?_, ?_, ?_⟩
        · have := R.flat
          simp only [List.flatMap_cons] at this ⊢
          simp [this]
        · intro ng hng
          rcases List.mem_cons.mp hng with rfl | hng
          · exact ⟨by simp, by simp, by simp⟩
          · exact R.grp ng hng
        · have hk := R.keys
          simp only [List.map_cons] at hk ⊢
          rw [List.pairwise_cons] at hk ⊢
          refine ⟨?_, List.pairwise_cons.mpr hk⟩
          intro m hm
          rcases List.mem_cons.mp hm with rfl | hm
          · exact hab
          · exact strLt_trans _ _ _ hab (hk.1 m hm)
        · intro x hx ng hng
          simp only [List.head?_cons, Option.mem_def, Option.some.injEq] at hx hng
          subst hx hng; rfl

/-! ### sorting never raises on binary packages -/

theorem archiveLt_some (x y : Archive) (hx : x.arch.isSome = true) (hy : y.arch.isSome = true) : ∃ b, archiveLt x y = some b := by
  unfold archiveLt
  by_cases h1 : x.name ≠ y.name
  · rw [if_pos h1]; exact ⟨_, rfl⟩
  · rw [if_neg h1]
    by_cases h2 : x.version ≠ y.version
    · rw [if_pos h2]; exact ⟨_, rfl⟩
    · rw [if_neg h2]
      by_cases h3 : x.arch ≠ y.arch
      · rw [if_pos h3]
        cases hxa : x.arch with
        | none => rw [hxa] at hx; cases hx
        | some xa =>
          cases hya : y.arch with
          | none => rw [hya] at hy; cases hy
          | some ya => exact ⟨_, rfl⟩
      · rw [if_neg h3]; exact ⟨_, rfl⟩

theorem insertA_some (x : Archive) (hx : x.arch.isSome = true) :
    ∀ l : List Archive, (∀ a ∈ l, a.arch.isSome = true) → ∃ s, insertA x l = some s
  | [], _ => ⟨[x], rfl⟩
  | y :: ys, h => by
    obtain ⟨b, hb⟩ := archiveLt_some x y hx (h y (by simp))
    unfold insertA
    rw [hb]
    cases b with
    | true => exact ⟨_, rfl⟩
    | false =>
      obtain ⟨s', hs'⟩ := insertA_some x hx ys (fun a ha => h a (by simp [ha]))
      exact ⟨y :: s', by simp [hs']⟩

theorem sortA_some (l : List Archive) (h : ∀ a ∈ l, a.arch.isSome = true) : ∃ s, sortA l = some s := by
  have : ∀ (xs acc : List Archive), (∀ a ∈ xs, a.arch.isSome = true) → (∀ a ∈ acc, a.arch.isSome = true) →
      ∃ s, xs.foldl (fun acc x => acc.bind (insertA x)) (some acc) = some s := by
    intro xs
    induction xs with
    | nil => intro acc _ _; exact ⟨acc, rfl⟩
    | cons x xs ih =>
      intro acc hx ha
      obtain ⟨acc', hacc'⟩ := insertA_some x (hx x (by simp)) acc ha
      simp only [List.foldl_cons, Option.bind_some, hacc']
      apply ih acc' (fun a h => hx a (by simp [h]))
      intro a h'
      have := (insertA_perm x acc acc' hacc').mem_iff.mp h'
      rcases List.mem_cons.mp this with rfl | h''
      · exact hx a (by simp)
      · exact ha a h''
  exact this l [] h (by intro a ha; cases ha)

/-! ### the exact sort of short lists: `count_run`, then binary insertion

Nothing here asks tuple `<` to be a strict weak order: `le2_of_true` / `le2_of_false` (what one comparison says about the
order by name and version class) and the transitivity of `le2` are enough, so the lemmas hold for lists with order-equal
versions spelled differently too. -/

def AllArch (l : List Archive) : Prop := ∀ a ∈ l, a.arch.isSome = true

theorem ascRun_facts : ∀ (prev : Archive) (l run rest : List Archive), GoodVer prev.version → AllGood l →
    ascRun prev l = some (run, rest) → run ++ rest = l ∧ Sorted2 (prev :: run)
  | prev, [], run, rest, _, _, h => by
    simp only [ascRun, Option.some.injEq, Prod.mk.injEq] at h
    obtain ⟨rfl, rfl⟩ := h
    exact ⟨rfl, by simp [Sorted2]⟩
  | prev, x :: xs, run, rest, hp, hg, h => by
    have hx := hg x (by simp)
    unfold ascRun at h
    cases hc : archiveLt x prev with
    | none => rw [hc] at h; cases h
    | some b =>
      rw [hc] at h
      cases b with
      | true =>
        simp only [Option.some.injEq, Prod.mk.injEq] at h
        obtain ⟨rfl, rfl⟩ := h
        exact ⟨rfl, by simp [Sorted2]⟩
      | false =>
        simp only [Option.map_eq_some_iff] at h
        obtain ⟨r, hr, hrr⟩ := h
        obtain ⟨r1, r2⟩ := r
        simp only [Prod.mk.injEq] at hrr
        obtain ⟨rfl, rfl⟩ := hrr
        obtain ⟨e, hs⟩ := ascRun_facts x xs r1 r2 hx (fun a ha => hg a (by simp [ha])) hr
        refine ⟨by simp [e], ?_⟩
        have hpx := le2_of_false x prev hx hp hc
        unfold Sorted2 at hs ⊢
        rw [List.pairwise_cons]
        refine ⟨?_, hs⟩
        intro z hz
        rcases List.mem_cons.mp hz with rfl | hz
        · exact hpx
        · have hzl : z ∈ xs := by rw [← e]; exact List.mem_append_left _ hz
          exact le2_trans prev x z hp hx (hg z (by simp [hzl])) hpx ((List.pairwise_cons.mp hs).1 z hz)

/-- a strictly descending run, read backwards, is sorted -/
theorem descRun_facts : ∀ (prev : Archive) (l run rest : List Archive), GoodVer prev.version → AllGood l →
    descRun prev l = some (run, rest) → run ++ rest = l ∧ (prev :: run).Pairwise (fun a b => le2 b a)
  | prev, [], run, rest, _, _, h => by
    simp only [descRun, Option.some.injEq, Prod.mk.injEq] at h
    obtain ⟨rfl, rfl⟩ := h
    exact ⟨rfl, by simp⟩
  | prev, x :: xs, run, rest, hp, hg, h => by
    have hx := hg x (by simp)
    unfold descRun at h
    cases hc : archiveLt x prev with
    | none => rw [hc] at h; cases h
    | some b =>
      rw [hc] at h
      cases b with
      | false =>
        simp only [Option.some.injEq, Prod.mk.injEq] at h
        obtain ⟨rfl, rfl⟩ := h
        exact ⟨rfl, by simp⟩
      | true =>
        simp only [Option.map_eq_some_iff] at h
        obtain ⟨r, hr, hrr⟩ := h
        obtain ⟨r1, r2⟩ := r
        simp only [Prod.mk.injEq] at hrr
        obtain ⟨rfl, rfl⟩ := hrr
        obtain ⟨e, hs⟩ := descRun_facts x xs r1 r2 hx (fun a ha => hg a (by simp [ha])) hr
        refine ⟨by simp [e], ?_⟩
        have hxp := le2_of_true x prev hx hp hc
        rw [List.pairwise_cons]
        refine ⟨?_, hs⟩
        intro z hz
        rcases List.mem_cons.mp hz with rfl | hz
        · exact hxp
        · have hzl : z ∈ xs := by rw [← e]; exact List.mem_append_left _ hz
          exact le2_trans z x prev (hg z (by simp [hzl])) hx hp ((List.pairwise_cons.mp hs).1 z hz) hxp

theorem countRun_facts (l run rest : List Archive) (hg : AllGood l) (h : countRun l = some (run, rest)) :
    (run ++ rest).Perm l ∧ Sorted2 run := by
  match l, h with
  | [], h =>
    simp only [countRun, Option.some.injEq, Prod.mk.injEq] at h
    obtain ⟨rfl, rfl⟩ := h
    exact ⟨List.Perm.refl _, by simp [Sorted2]⟩
  | [a], h =>
    simp only [countRun, Option.some.injEq, Prod.mk.injEq] at h
    obtain ⟨rfl, rfl⟩ := h
    exact ⟨List.Perm.refl _, by simp [Sorted2]⟩
  | a :: b :: tl, h =>
    have ha := hg a (by simp)
    have hb := hg b (by simp)
    have hgt : AllGood tl := fun x hx => hg x (by simp [hx])
    simp only [countRun] at h
    cases hc : archiveLt b a with
    | none => rw [hc] at h; cases h
    | some c =>
      rw [hc] at h
      cases c with
      | false =>
        simp only [Option.map_eq_some_iff] at h
        obtain ⟨r, hr, hrr⟩ := h
        obtain ⟨r1, r2⟩ := r
        simp only [Prod.mk.injEq] at hrr
        obtain ⟨rfl, rfl⟩ := hrr
        obtain ⟨e, hs⟩ := ascRun_facts b tl r1 r2 hb hgt hr
        refine ⟨by simp [e], ?_⟩
        have hab := le2_of_false b a hb ha hc
        unfold Sorted2 at hs ⊢
        rw [List.pairwise_cons]
        refine ⟨?_, hs⟩
        intro z hz
        rcases List.mem_cons.mp hz with rfl | hz
        · exact hab
        · have hzl : z ∈ tl := by rw [← e]; exact List.mem_append_left _ hz
          exact le2_trans a b z ha hb (hgt z hzl) hab ((List.pairwise_cons.mp hs).1 z hz)
      | true =>
        simp only [Option.map_eq_some_iff] at h
        obtain ⟨r, hr, hrr⟩ := h
        obtain ⟨r1, r2⟩ := r
        simp only [Prod.mk.injEq] at hrr
        obtain ⟨rfl, rfl⟩ := hrr
        obtain ⟨e, hs⟩ := descRun_facts b tl r1 r2 hb hgt hr
        constructor
        · have h1 : ((a :: b :: r1).reverse ++ r2).Perm ((a :: b :: r1) ++ r2) :=
            List.Perm.append_right _ (List.reverse_perm _)
          refine h1.trans ?_
          simp [e]
        · have hba := le2_of_true b a hb ha hc
          have hdesc : (a :: b :: r1).Pairwise (fun x y => le2 y x) := by
            rw [List.pairwise_cons]
            refine ⟨?_, hs⟩
            intro z hz
            rcases List.mem_cons.mp hz with rfl | hz
            · exact hba
            · have hzl : z ∈ tl := by rw [← e]; exact List.mem_append_left _ hz
              exact le2_trans z b a (hgt z hzl) hb ha ((List.pairwise_cons.mp hs).1 z hz) hba
          unfold Sorted2
          rw [List.pairwise_reverse]
          exact hdesc

/-- the binary search returns a position that splits the sorted prefix around the pivot -/
theorem bsearch_facts (pivot : Archive) (pre : List Archive) (hp : GoodVer pivot.version) (hg : AllGood pre)
    (hs : Sorted2 pre) : ∀ (fuel l r pos : Nat), l ≤ r → r ≤ pre.length →
    (∀ a ∈ pre.take l, le2 a pivot) → (∀ b ∈ pre.drop r, le2 pivot b) →
    bsearch pivot pre fuel l r = some pos → r - l < fuel →
    pos ≤ pre.length ∧ (∀ a ∈ pre.take pos, le2 a pivot) ∧ (∀ b ∈ pre.drop pos, le2 pivot b)
  | 0, l, r, pos, _, _, _, _, _, hf => by omega
  | fuel + 1, l, r, pos, hlr, hrn, hL, hR, h, hf => by
    unfold bsearch at h
    by_cases hlt : l < r
    · simp only [hlt, if_true] at h
      obtain ⟨p, hpdef⟩ : ∃ p, l + (r - l) / 2 = p := ⟨_, rfl⟩
      rw [hpdef] at h
      have hpl : p < pre.length := by omega
      have hge : pre[p]? = some (pre[p]'hpl) := List.getElem?_eq_getElem hpl
      rw [hge] at h
      simp only at h
      have hpl' : l ≤ p := by omega
      have hpr : p < r := by omega
      have he : GoodVer (pre[p]'hpl).version := hg _ (List.getElem_mem hpl)
      -- the prefix around the probed element
      have hsplit : pre = pre.take p ++ pre[p]'hpl :: pre.drop (p + 1) := by
        rw [← List.drop_eq_getElem_cons hpl, List.take_append_drop]
      have hpw : (pre.take p ++ pre[p]'hpl :: pre.drop (p + 1)).Pairwise le2 := by rw [← hsplit]; exact hs
      rw [List.pairwise_append] at hpw
      obtain ⟨_, hright, hcross⟩ := hpw
      cases hc : archiveLt pivot (pre[p]'hpl) with
      | none => rw [hc] at h; cases h
      | some b =>
        rw [hc] at h
        cases b with
        | true =>
          simp only at h
          have hpe := le2_of_true pivot _ hp he hc
          refine bsearch_facts pivot pre hp hg hs fuel l p pos hpl' (by omega) hL ?_ h (by omega)
          intro b hb
          rw [List.drop_eq_getElem_cons hpl] at hb
          rcases List.mem_cons.mp hb with rfl | hb
          · exact hpe
          · exact le2_trans pivot _ b hp he (hg b (List.mem_of_mem_drop hb)) hpe ((List.pairwise_cons.mp hright).1 b hb)
        | false =>
          simp only at h
          have hep := le2_of_false pivot _ hp he hc
          refine bsearch_facts pivot pre hp hg hs fuel (p + 1) r pos (by omega) hrn ?_ hR h (by omega)
          intro a ha
          rw [List.take_succ_eq_append_getElem hpl] at ha
          rcases List.mem_append.mp ha with ha | ha
          · exact le2_trans a _ pivot (hg a (List.mem_of_mem_take ha)) he hp (hcross a ha (pre[p]'hpl) List.mem_cons_self) hep
          · simp only [List.mem_singleton] at ha
            subst ha; exact hep
    · simp only [hlt, if_false, Option.some.injEq] at h
      subst h
      have : l = r := by omega
      subst this
      exact ⟨hrn, hL, hR⟩

theorem binInsert_facts (pre : List Archive) (pivot : Archive) (s : List Archive) (hp : GoodVer pivot.version)
    (hg : AllGood pre) (hs : Sorted2 pre) (h : binInsert pre pivot = some s) : s.Perm (pivot :: pre) ∧ Sorted2 s := by
  unfold binInsert at h
  simp only [Option.map_eq_some_iff] at h
  obtain ⟨pos, hpos, rfl⟩ := h
  obtain ⟨hle, hL, hR⟩ := bsearch_facts pivot pre hp hg hs (pre.length + 1) 0 pre.length pos (by omega) (by omega)
    (by intro a ha; simp at ha) (by intro b hb; simp at hb) hpos (by omega)
  constructor
  · have : (pre.take pos ++ pivot :: pre.drop pos).Perm (pivot :: (pre.take pos ++ pre.drop pos)) := List.perm_middle
    rw [List.take_append_drop] at this
    exact this
  · unfold Sorted2 at hs ⊢
    rw [List.pairwise_append]
    have hpw : (pre.take pos ++ pre.drop pos).Pairwise le2 := by rw [List.take_append_drop]; exact hs
    rw [List.pairwise_append] at hpw
    obtain ⟨h1, h2, h3⟩ := hpw
    refine ⟨h1, List.pairwise_cons.mpr ⟨hR, h2⟩, ?_⟩
    intro a ha b hb
    rcases List.mem_cons.mp hb with rfl | hb
    · exact hL a ha
    · exact h3 a ha b hb

theorem foldl_none {α} (f : List Archive → α → Option (List Archive)) :
    ∀ ys : List α, ys.foldl (fun acc x => acc.bind (f · x)) none = none := by
  intro ys; induction ys with
  | nil => rfl
  | cons y ys ih => simpa using ih

theorem foldl_binInsert_facts : ∀ (xs acc s : List Archive), AllGood xs → AllGood acc → Sorted2 acc →
    xs.foldl (fun acc x => acc.bind (binInsert · x)) (some acc) = some s → s.Perm (acc ++ xs) ∧ Sorted2 s
  | [], acc, s, _, _, hs, h => by simp at h; subst h; exact ⟨by simp, hs⟩
  | x :: xs, acc, s, hgx, hga, hs, h => by
    simp only [List.foldl_cons, Option.bind_some] at h
    cases hi : binInsert acc x with
    | none => rw [hi, foldl_none] at h; cases h
    | some acc' =>
      rw [hi] at h
      have hx := hgx x (by simp)
      obtain ⟨p1, s1⟩ := binInsert_facts acc x acc' hx hga hs hi
      have hacc' : AllGood acc' := by
        intro a ha
        rcases List.mem_cons.mp (p1.mem_iff.mp ha) with rfl | h'
        · exact hx
        · exact hga a h'
      obtain ⟨p2, s2⟩ := foldl_binInsert_facts xs acc' s (fun a ha => hgx a (by simp [ha])) hacc' s1 h
      refine ⟨?_, s2⟩
      refine p2.trans ?_
      have : (acc' ++ xs).Perm ((x :: acc) ++ xs) := List.Perm.append_right _ p1
      refine this.trans ?_
      simp only [List.cons_append]
      exact (List.perm_middle).symm

theorem binSort_facts (l s : List Archive) (hg : AllGood l) (h : binSort l = some s) : s.Perm l ∧ Sorted2 s := by
  unfold binSort at h
  cases hc : countRun l with
  | none => rw [hc] at h; cases h
  | some rr =>
    obtain ⟨run, rest⟩ := rr
    rw [hc] at h
    simp only at h
    obtain ⟨hperm, hsorted⟩ := countRun_facts l run rest hg hc
    have hgrun : AllGood run := fun a ha => hg a (hperm.mem_iff.mp (List.mem_append_left _ ha))
    have hgrest : AllGood rest := fun a ha => hg a (hperm.mem_iff.mp (List.mem_append_right _ ha))
    obtain ⟨p, s2⟩ := foldl_binInsert_facts rest run s hgrest hgrun hsorted h
    exact ⟨p.trans hperm, s2⟩

theorem bsearch_some (pivot : Archive) (pre : List Archive) (hp : pivot.arch.isSome = true) (hg : AllArch pre) :
    ∀ (fuel l r : Nat), ∃ pos, bsearch pivot pre fuel l r = some pos
  | 0, l, _ => ⟨l, rfl⟩
  | fuel + 1, l, r => by
    unfold bsearch
    by_cases hlt : l < r
    · simp only [hlt, if_true]
      cases hge : pre[l + (r - l) / 2]? with
      | none => exact ⟨l, rfl⟩
      | some e =>
        have hem : e ∈ pre := List.mem_of_getElem? hge
        obtain ⟨b, hb⟩ := archiveLt_some pivot e hp (hg e hem)
        simp only [hb]
        cases b with
        | true => exact bsearch_some pivot pre hp hg fuel l _
        | false => exact bsearch_some pivot pre hp hg fuel _ r
    · simp only [hlt, if_false]; exact ⟨l, rfl⟩

theorem ascRun_some : ∀ (prev : Archive) (l : List Archive), prev.arch.isSome = true → AllArch l → ∃ r, ascRun prev l = some r
  | _, [], _, _ => ⟨_, rfl⟩
  | prev, x :: xs, hp, hg => by
    obtain ⟨b, hb⟩ := archiveLt_some x prev (hg x (by simp)) hp
    unfold ascRun
    rw [hb]
    cases b with
    | true => exact ⟨_, rfl⟩
    | false =>
      obtain ⟨r, hr⟩ := ascRun_some x xs (hg x (by simp)) (fun a ha => hg a (by simp [ha]))
      simp only [hr, Option.map_some]
      exact ⟨_, rfl⟩

theorem descRun_some : ∀ (prev : Archive) (l : List Archive), prev.arch.isSome = true → AllArch l → ∃ r, descRun prev l = some r
  | _, [], _, _ => ⟨_, rfl⟩
  | prev, x :: xs, hp, hg => by
    obtain ⟨b, hb⟩ := archiveLt_some x prev (hg x (by simp)) hp
    unfold descRun
    rw [hb]
    cases b with
    | false => exact ⟨_, rfl⟩
    | true =>
      obtain ⟨r, hr⟩ := descRun_some x xs (hg x (by simp)) (fun a ha => hg a (by simp [ha]))
      simp only [hr, Option.map_some]
      exact ⟨_, rfl⟩

theorem countRun_some (l : List Archive) (hg : AllArch l) : ∃ r, countRun l = some r := by
  match l with
  | [] => exact ⟨_, rfl⟩
  | [a] => exact ⟨_, rfl⟩
  | a :: b :: tl =>
    obtain ⟨c, hc⟩ := archiveLt_some b a (hg b (by simp)) (hg a (by simp))
    simp only [countRun, hc]
    cases c with
    | true =>
      obtain ⟨r, hr⟩ := descRun_some b tl (hg b (by simp)) (fun x hx => hg x (by simp [hx]))
      simp only [hr, Option.map_some]
      exact ⟨_, rfl⟩
    | false =>
      obtain ⟨r, hr⟩ := ascRun_some b tl (hg b (by simp)) (fun x hx => hg x (by simp [hx]))
      simp only [hr, Option.map_some]
      exact ⟨_, rfl⟩

theorem binSort_some (l : List Archive) (ha : AllArch l) (hg : AllGood l) : ∃ s, binSort l = some s := by
  obtain ⟨rr, hc⟩ := countRun_some l ha
  obtain ⟨run, rest⟩ := rr
  obtain ⟨hperm, _⟩ := countRun_facts l run rest hg hc
  unfold binSort
  rw [hc]
  simp only
  have key : ∀ (xs acc : List Archive), AllArch xs → AllArch acc →
      ∃ s, xs.foldl (fun acc x => acc.bind (binInsert · x)) (some acc) = some s ∧ AllArch s := by
    intro xs
    induction xs with
    | nil => intro acc _ h; exact ⟨acc, rfl, h⟩
    | cons x xs ih =>
      intro acc hx hacc
      obtain ⟨pos, hpos⟩ := bsearch_some x acc (hx x (by simp)) hacc (acc.length + 1) 0 acc.length
      have hi : binInsert acc x = some (acc.take pos ++ x :: acc.drop pos) := by
        unfold binInsert; rw [hpos]; rfl
      simp only [List.foldl_cons, Option.bind_some, hi]
      apply ih _ (fun a h => hx a (by simp [h]))
      intro a h1
      rcases List.mem_append.mp h1 with h2 | h2
      · exact hacc a (List.mem_of_mem_take h2)
      · rcases List.mem_cons.mp h2 with rfl | h3
        · exact hx a (by simp)
        · exact hacc a (List.mem_of_mem_drop h3)
  obtain ⟨s, hs, _⟩ := key rest run
    (fun a h => ha a (hperm.mem_iff.mp (List.mem_append_right _ h)))
    (fun a h => ha a (hperm.mem_iff.mp (List.mem_append_left _ h)))
  exact ⟨s, hs⟩

/-- `sorted()` of the model answers with a permutation sorted by name and version class: always below 64 archives,
and from 64 on when tuple `<` is a strict weak order on the list -/
theorem sortPy_ok (ps : List Archive) (h : ps.length < 64 ∨ inModel ps = true) (ha : AllArch ps) (hg : AllGood ps) :
    ∃ s, sortPy ps = .ok s ∧ s.Perm ps ∧ Sorted2 s := by
  unfold sortPy
  by_cases hlen : ps.length < 64
  · obtain ⟨s, hs⟩ := binSort_some ps ha hg
    obtain ⟨p, s2⟩ := binSort_facts ps s hg hs
    exact ⟨s, by simp [hlen, hs], p, s2⟩
  · rcases h with h | h
    · exact absurd h hlen
    · obtain ⟨s, hs⟩ := sortA_some ps ha
      exact ⟨s, by simp [hlen, h, hs], sortA_perm ps s hs, sortA_sorted2 ps s hg hs⟩

/-! ### a latest archive is a maximum of the inputs of its name -/

theorem isMax_of (ps : List Archive) (hg : AllGood ps) (m : Archive) (hm : m ∈ ps)
    (hmax : ∀ a ∈ ps, a.name = m.name → vle a m) : isMaxOf (ps.map aTup) (aTup m) = true := by
  unfold isMaxOf
  simp only [Bool.and_eq_true, List.all_eq_true, Bool.or_eq_true, bne_iff_ne, ne_eq]
  refine ⟨List.contains_iff_mem.mpr (List.mem_map.mpr ⟨m, hm, rfl⟩), ?_⟩
  intro i hi
  obtain ⟨a, ha, rfl⟩ := List.mem_map.mp hi
  by_cases hn : a.name = m.name
  · right
    have := (vle_iff a m (hg a ha) (hg m hm)).mp (hmax a ha hn)
    simp only [verLe, aTup, bne_iff_ne, ne_eq]
    exact this
  · left; simpa [aTup] using hn

/-! ### the property -/

theorem filterMap_keys {α β} (l : List α) (f : α → Option β) (k : α → Str) (k' : β → Str)
    (h : ∀ x ∈ l, ∃ y, f x = some y ∧ k' y = k x) : (l.filterMap f).map k' = l.map k := by
  induction l with
  | nil => rfl
  | cons a as ih =>
    obtain ⟨y, hy, hk⟩ := h a (by simp)
    simp only [List.filterMap_cons, hy, List.map_cons, hk, ih (fun x hx => h x (by simp [hx]))]

theorem pairwise_lt_nodup (l : List Str) (h : l.Pairwise (fun n m => strLt n m = true)) : l.Nodup := by
  unfold List.Nodup
  exact h.imp (fun hlt e => by subst e; rw [strLt_irrefl] at hlt; cases hlt)

/-- the entries of the per-name result -/
def latestOf (ng : Str × List Archive) : Option (Str × Archive) := ng.2.getLast?.map fun a => (ng.1, a)

/-- **C17, selection**: for every list of binary package file names (in the model: no two versions of one name
that are different but order-equal), the single-name variant returns an input no input of that name exceeds, or raises
ValueError when several names are mixed, and the per-name variant maps exactly the names present, each once, each to
such a maximum of its name -/
theorem soundC (fns : List Str)
    (hin : ∀ ps, fns.mapM debFromFilename = .ok ps → ps.length < 64 ∨ inModel ps = true) :
    holdsOnC fns (modelC fns) = true := by
  unfold holdsOnC
  cases hm : fns.mapM toTup with
  | none => rfl
  | some inputs =>
    simp only
    by_cases hie : inputs.isEmpty = true
    · simp [hie]
    · have hie' : inputs.isEmpty = false := by simpa using hie
      simp only [hie', Bool.false_eq_true, if_false]
      obtain ⟨ps, hps, hmap, hgood, harch⟩ := inputs_archives fns inputs hm
      have hfne : fns.isEmpty = false := by
        cases hf : fns with
        | nil => rw [hf, List.mapM_nil] at hm; cases hm; simp at hie'
        | cons _ _ => rfl
      obtain ⟨s, hs, hperm, hsorted⟩ := sortPy_ok ps (hin ps hps) harch hgood
      have hgs : AllGood s := fun a ha => hgood a (hperm.mem_iff.mp ha)
      have R := groupRuns_runs s hsorted
      have hnames : inputs.map (·.1) = ps.map (·.name) := by
        rw [← hmap, List.map_map]; rfl
      have hmemn : ∀ x, x ∈ s.map (·.name) ↔ x ∈ inputs.map (·.1) := by
        intro x
        rw [hnames]
        constructor
        · intro h; obtain ⟨a, ha, rfl⟩ := List.mem_map.mp h; exact List.mem_map.mpr ⟨a, hperm.mem_iff.mp ha, rfl⟩
        · intro h; obtain ⟨a, ha, rfl⟩ := List.mem_map.mp h; exact List.mem_map.mpr ⟨a, hperm.mem_iff.mpr ha, rfl⟩
      have hlen := dedup_length_congr _ _ hmemn
      have hsne : s ≠ [] := by
        intro e
        have : ps = [] := by rw [e] at hperm; exact hperm.symm.eq_nil
        rw [this] at hmap
        rw [← hmap] at hie'
        simp at hie'
      -- the two results of the model
      have hL1 : findLatestVersion fns = if (dedupNames (s.map (·.name))).length > 1 then .error .valueError else .ok s.getLast? := by
        unfold findLatestVersion
        simp only [hfne, Bool.false_eq_true, if_false, hps, hs]
      have hL2 : findLatestVersions fns = .ok (some ((groupRuns s).filterMap latestOf)) := by
        unfold findLatestVersions
        simp only [hfne, Bool.false_eq_true, if_false, hps, hs]
        rfl
      -- a latest archive of a run is a maximum of the inputs of its name
      have hrun : ∀ ng ∈ groupRuns s, ∃ m, ng.2.getLast? = some m ∧ m.name = ng.1 ∧ m ∈ ps ∧
          ∀ a ∈ ps, a.name = m.name → vle a m := by
        intro ng hng
        obtain ⟨hne, hnm, hpw⟩ := R.grp ng hng
        obtain ⟨m, hm⟩ : ∃ m, ng.2.getLast? = some m := by
          cases hg : ng.2.getLast? with
          | none => exact absurd (List.getLast?_eq_none_iff.mp hg) hne
          | some m => exact ⟨m, rfl⟩
        have hmg : m ∈ ng.2 := List.mem_of_getLast? hm
        have hms : m ∈ s := by
          rw [← R.flat]; exact List.mem_flatMap.mpr ⟨ng, hng, hmg⟩
        refine ⟨m, hm, hnm m hmg, hperm.mem_iff.mp hms, ?_⟩
        intro a ha hn
        -- `a` lies in the run of its name, which is this run
        have has : a ∈ s := hperm.mem_iff.mpr ha
        rw [← R.flat] at has
        obtain ⟨ng', hng', hag'⟩ := List.mem_flatMap.mp has
        have hk' : ng'.1 = ng.1 := by
          rw [← (R.grp ng' hng').2.1 a hag', hn, hnm m hmg]
        have hsame : ng' = ng := by
          -- keys of the runs are distinct
          have hnd := pairwise_lt_nodup _ R.keys
          have : ∀ (G : List (Str × List Archive)), (G.map (·.1)).Nodup → ng' ∈ G → ng ∈ G → ng' = ng := by
            intro G
            induction G with
            | nil => intro _ h; cases h
            | cons x xs ih =>
              intro hnd h1 h2
              rw [List.map_cons] at hnd
              have hn' := List.nodup_cons.mp hnd
              rcases List.mem_cons.mp h1 with rfl | h1' <;> rcases List.mem_cons.mp h2 with rfl | h2'
              · rfl
              · exact absurd (List.mem_map.mpr ⟨ng, h2', hk'.symm⟩) hn'.1
              · exact absurd (List.mem_map.mpr ⟨ng', h1', hk'⟩) hn'.1
              · exact ih hn'.2 h1' h2'
          exact this _ hnd hng' hng
        rw [hsame] at hag'
        -- in a run sorted by version the last element is not exceeded
        obtain ⟨init, hinit⟩ := List.getLast?_eq_some_iff.mp hm
        rw [hinit] at hpw hag'
        rw [List.pairwise_append] at hpw
        rcases List.mem_append.mp hag' with h1 | h1
        · exact hpw.2.2 a h1 m (by simp)
        · have : a = m := by simpa using h1
          subst this
          exact vle_refl a a (hgood a ha) rfl
      unfold modelC
      simp only [hL1, hL2, Bool.and_eq_true]
      constructor
      · -- the single-name variant
        by_cases h1 : (dedupNames (inputs.map (·.1))).length = 1
        · simp only [h1, if_true]
          have : ¬ (dedupNames (s.map (·.name))).length > 1 := by omega
          simp only [this, if_false]
          obtain ⟨m, hm⟩ : ∃ m, s.getLast? = some m := by
            cases hg : s.getLast? with
            | none => exact absurd (List.getLast?_eq_none_iff.mp hg) hsne
            | some m => exact ⟨m, rfl⟩
          obtain ⟨n, hn⟩ := dedup_one _ h1
          have hgn : Good n ps := by
            intro a ha
            refine ⟨?_, hgood a ha⟩
            apply hn
            rw [hnames]
            exact List.mem_map.mpr ⟨a, ha, rfl⟩
          obtain ⟨hmp, hmax⟩ : m ∈ ps ∧ ∀ a ∈ ps, vle a m := by
            have hmem : m ∈ s := List.mem_of_getLast? hm
            refine ⟨hperm.mem_iff.mp hmem, ?_⟩
            intro a ha
            have has : a ∈ s := hperm.mem_iff.mpr ha
            obtain ⟨init, hinit⟩ : ∃ init, s = init ++ [m] := List.getLast?_eq_some_iff.mp hm
            have hso := hsorted
            unfold Sorted2 at hso
            rw [hinit, List.pairwise_append] at hso
            rw [hinit] at has
            rcases List.mem_append.mp has with h2 | h2
            · have hnm : a.name = m.name := by rw [(hgn a ha).1, (hgn m (hperm.mem_iff.mp hmem)).1]
              exact le2_same a m hnm (hso.2.2 a h2 m (by simp))
            · have : a = m := by simpa using h2
              subst this
              exact vle_refl a a (hgood a ha) rfl
          simp only [hm, Except.map, Option.map_some]
          rw [← hmap]
          exact isMax_of ps hgood m hmp (fun a ha _ => hmax a ha)
        · simp only [h1, if_false]
          have hpos : (dedupNames (inputs.map (·.1))).length ≥ 1 := by
            obtain ⟨i, hi⟩ : ∃ i, i ∈ inputs := by
              cases hin' : inputs with
              | nil => rw [hin'] at hie'; simp at hie'
              | cons i is => exact ⟨i, by simp⟩
            have : i.1 ∈ dedupNames (inputs.map (·.1)) := (dedup_mem _ _).mpr (List.mem_map.mpr ⟨i, hi, rfl⟩)
            exact List.length_pos_of_mem this
          have : (dedupNames (s.map (·.name))).length > 1 := by omega
          simp only [this, if_true, Except.map]
          rfl
      · -- the per-name variant
        simp only [Except.map, Option.map_some, List.map_map]
        have hkeys : ((groupRuns s).filterMap latestOf).map ((fun x : Str × ATup => x.1) ∘ fun na : Str × Archive => (na.1, aTup na.2)) =
            (groupRuns s).map (·.1) := by
          apply filterMap_keys
          intro ng hng
          obtain ⟨m, hm, _⟩ := hrun ng hng
          exact ⟨(ng.1, m), by simp [latestOf, hm], rfl⟩
        have hkmem : ∀ x, x ∈ (groupRuns s).map (·.1) ↔ x ∈ inputs.map (·.1) := by
          intro x
          rw [← hmemn]
          constructor
          · intro h
            obtain ⟨ng, hng, rfl⟩ := List.mem_map.mp h
            obtain ⟨m, hm, hmn, _⟩ := hrun ng hng
            have hms : m ∈ s := by
              rw [← R.flat]; exact List.mem_flatMap.mpr ⟨ng, hng, List.mem_of_getLast? hm⟩
            exact List.mem_map.mpr ⟨m, hms, hmn⟩
          · intro h
            obtain ⟨a, ha, rfl⟩ := List.mem_map.mp h
            rw [← R.flat] at ha
            obtain ⟨ng, hng, hag⟩ := List.mem_flatMap.mp ha
            exact List.mem_map.mpr ⟨ng, hng, ((R.grp ng hng).2.1 a hag).symm⟩
        have hknd := pairwise_lt_nodup _ R.keys
        simp only [Bool.and_eq_true, List.all_eq_true, beq_iff_eq, hkeys, List.length_map]
        refine ⟨⟨⟨?_, ?_⟩, ?_⟩, ?_⟩
        · intro x hx
          exact List.contains_iff_mem.mpr ((dedup_mem _ _).mpr ((hkmem x).mp hx))
        · intro x hx
          exact List.contains_iff_mem.mpr ((hkmem x).mpr ((dedup_mem _ _).mp hx))
        · have h1 : ((groupRuns s).filterMap latestOf).length = ((groupRuns s).map (·.1)).length := by
            rw [← hkeys, List.length_map]
          rw [h1]
          apply List.Perm.length_eq
          rw [List.perm_ext_iff_of_nodup hknd (dedup_nodup _)]
          intro x
          rw [hkmem, dedup_mem]
        · intro nt hnt
          obtain ⟨na, hna, rfl⟩ := List.mem_map.mp hnt
          obtain ⟨ng, hng, hlat⟩ := List.mem_filterMap.mp hna
          obtain ⟨m, hm, hmn, hmp, hmax⟩ := hrun ng hng
          simp only [latestOf, hm, Option.map_some, Option.some.injEq] at hlat
          subst hlat
          refine ⟨by simpa [aTup] using hmn, ?_⟩
          rw [← hmap]
          exact isMax_of ps hgood m hmp hmax

end Props.C17C

namespace Props.C17C
open Py Model.Package Props.C17

theorem mapM_ok_length {α β ε} (f : α → Except ε β) : ∀ (l : List α) (r : List β), l.mapM f = .ok r → r.length = l.length
  | [], r, h => by
    rw [List.mapM_nil] at h
    cases h; rfl
  | a :: l, r, h => by
    rw [List.mapM_cons] at h
    cases hf : f a with
    | error e => rw [hf] at h; cases h
    | ok b =>
      cases hl : l.mapM f with
      | error e => rw [hf, hl] at h; cases h
      | ok bs =>
        rw [hf, hl] at h
        cases h
        simp [mapM_ok_length f l bs hl]

/-- **C17, selection, for every list of fewer than 64 binary package file names** — order-equal versions spelled
differently included: the model runs `sorted()` exactly as CPython does below 64 elements -/
theorem soundC_short (fns : List Str) (h : fns.length < 64) : holdsOnC fns (modelC fns) = true :=
  soundC fns (fun ps hps => Or.inl (by rw [mapM_ok_length _ fns ps hps]; exact h))

/-- **C17, selection, for lists of any length** without two order-equal versions of one name spelled differently -/
theorem soundC_weak (fns : List Str) (hin : ∀ ps, fns.mapM debFromFilename = .ok ps → inModel ps = true) :
    holdsOnC fns (modelC fns) = true :=
  soundC fns (fun ps hps => Or.inr (hin ps hps))

/-- non-vacuity: three names, several versions each, in scrambled order: the file names parse, the parsed archives are in
the model (so the hypothesis of `soundC` holds: `mapM` is a function) -/
def sampleNames : List Str :=
  ["pool/b_1.0-1_amd64.deb".toList, "a_2:0.9_all.deb".toList, "b_1.0~rc1-1_i386.udeb".toList, "a_1.10_all.deb".toList,
   "c_3_arm64.deb".toList]

example :
    (match sampleNames.mapM debFromFilename with | .ok ps => inModel ps | .error _ => false) = true ∧
    (sampleNames.mapM toTup).isSome = true := by
  decide +kernel

/-- a short list on which tuple `<` is NOT a strict weak order (three order-equal spellings of one version): outside
`soundC_weak`, inside `soundC_short` -/
def tieNames : List Str :=
  ["a_1.0_amd64.deb".toList, "a_1.00_all.deb".toList, "a_0:1.0_i386.deb".toList, "a_1.0_all.deb".toList]

example :
    (match tieNames.mapM debFromFilename with | .ok ps => inModel ps | .error _ => true) = false ∧
    (tieNames.mapM toTup).isSome = true ∧ tieNames.length < 64 := by
  decide +kernel

end Props.C17C
