/-
C03 — property theorems (statements; the lemmas live in `Proofs/VersionParse.lean`).
-/
import DebInspector.Props.C03
import DebInspector.Proofs.VersionParse

namespace Props.C03
open Py Spec Model.Version Proofs.VersionParse

/-- accepted ⇒ the trimmed string is policy-valid and the result is dpkg's decomposition -/
theorem accept_imp_valid (s : Str) (e : Nat) (u r : Str) (h : model s = .ok (e, u, r)) :
    Policy.valid (strip s) = true ∧ (e, u, r) = Policy.split (strip s) := by
  unfold model at h
  cases hf : fromString s with
  | error x => rw [hf] at h; cases h
  | ok v =>
    rw [hf] at h
    have := fromString_ok s v hf
    simp only [Except.map] at h
    cases h
    exact this

/-- rejected ⇒ `ValueError` and nothing else, for every Unicode string -/
theorem only_valueError (s : Str) (x : PyExc) (h : model s = .error x) : x = .valueError := by
  unfold model at h
  cases hf : fromString s with
  | error y =>
    rw [hf] at h
    simp only [Except.map] at h
    cases h
    exact fromString_error s _ hf
  | ok v => rw [hf] at h; cases h

/-- every policy-valid string whose upstream and revision end in an alphanumeric (and whose epoch
the interpreter can convert, K2) is accepted -/
theorem mustAccept_imp_ok (s : Str)
    (h : Policy.mustAccept Generated.intMaxStrDigits (strip s) = true) : Props.isOk (model s) = true := by
  obtain ⟨v, hv⟩ := mustAccept_fromString s h
  simp [model, hv, Except.map, Props.isOk]

theorem mustAccept_limit (t : Str) (h0 : Policy.mustAccept 0 t = true)
    (hl : (Generated.intMaxStrDigits = 0 || Policy.epochLen t ≤ Generated.intMaxStrDigits) = true) :
    Policy.mustAccept Generated.intMaxStrDigits t = true := by
  simp only [Policy.mustAccept, Bool.and_eq_true] at h0 ⊢
  refine ⟨h0.1, ?_⟩
  have hl' : (Generated.intMaxStrDigits = 0 ∨ Policy.epochLen t ≤ Generated.intMaxStrDigits) := by
    simpa using hl
  unfold Policy.epochLen at hl'
  cases he : (Policy.splitEpoch t).1 with
  | none => rfl
  | some e => simp only [he] at hl'; simpa using hl'

/-- **C03** (partial: K2) — for every Unicode string whose epoch, if any, the interpreter can
convert (at most `sys.get_int_max_str_digits()` digits) the property holds of the model.
The full statement is `∀ s, holdsOn s (model s) = true`; it is false, see `K2_witness`. -/
theorem sound_partial (s : Str) (hK2 : epochConvertible s = true) : holdsOn s (model s) = true := by
  unfold holdsOn
  simp only [Bool.and_eq_true, Bool.or_eq_true, Bool.not_eq_true']
  refine ⟨?_, ?_⟩
  · cases hm : model s with
    | error x => simp [only_valueError s x hm]
    | ok t =>
      obtain ⟨e, u, r⟩ := t
      have := accept_imp_valid s e u r hm
      simp [this.1, this.2]
  · cases hA : Policy.mustAccept 0 (strip s) with
    | false => exact Or.inl rfl
    | true => exact Or.inr (mustAccept_imp_ok s (mustAccept_limit _ hA hK2))

/-- clauses (1) and (2) hold for every Unicode string, without the K2 hypothesis -/
theorem sound_accept_reject (s : Str) :
    (match model s with
     | .ok r => Policy.valid (strip s) && r == Policy.split (strip s)
     | .error k => k == .valueError) = true := by
  cases hm : model s with
  | error x => simp [only_valueError s x hm]
  | ok t =>
    obtain ⟨e, u, r⟩ := t
    have := accept_imp_valid s e u r hm
    simp [this.1, this.2]

/-- non-vacuity: a three-part version with an epoch is accepted and split at the first colon and
the last hyphen -/
example : model "1:2-3-4".toList = .ok (1, "2-3".toList, "4".toList) := by decide +kernel
example : Policy.mustAccept Generated.intMaxStrDigits (strip " 1:2-3-4 ".toList) = true := by decide +kernel
example : model "1:a".toList = .error .valueError := by decide +kernel

end Props.C03
