/-
C14 — theorems about the version-clause tokeniser of the dependency parser.
-/
import DebInspector.Props.C14
import DebInspector.Proofs.VersionPrint

namespace Props.C14
open Py Model.Deps Model.DepsParse

theorem opRuns_head (d : Char) (ys : Str) : ∃ r rs, opRuns (d :: ys) = (d :: r) :: rs := by
  simp only [opRuns]
  cases h : opRuns ys with
  | nil => exact ⟨[], [], rfl⟩
  | cons r rs =>
    cases r with
    | nil => exact ⟨[], rs, rfl⟩
    | cons e es =>
      simp only
      split
      · exact ⟨e :: es, rs, rfl⟩
      · exact ⟨[], (e :: es) :: rs, rfl⟩

/-- a homogeneous non-empty prefix followed by a character of the other class is one run -/
theorem opRuns_prefix (x y : Str) (k : Bool) (hx : x ≠ []) (hk : ∀ c ∈ x, isOpChar c = k)
    (hy : ∀ d ∈ y.head?, isOpChar d ≠ k) : opRuns (x ++ y) = x :: opRuns y := by
  induction x with
  | nil => exact absurd rfl hx
  | cons c cs ih =>
    have hc : isOpChar c = k := hk c (by simp)
    by_cases hcs : cs = []
    · subst hcs
      simp only [List.cons_append, List.nil_append, opRuns]
      cases y with
      | nil => simp [opRuns]
      | cons d ys =>
        obtain ⟨r, rs, hr⟩ := opRuns_head d ys
        rw [hr]
        have hd : isOpChar d ≠ k := hy d (by simp)
        simp only
        have : ¬ (isOpChar c = isOpChar d) := by rw [hc]; exact fun e => hd e.symm
        simp [this]
    · have ih' := ih hcs (fun d hd => hk d (by simp [hd]))
      simp only [List.cons_append, opRuns]
      rw [ih']
      cases cs with
      | nil => exact absurd rfl hcs
      | cons e es =>
        have he : isOpChar e = k := hk e (by simp)
        simp [hc, he]

theorem lstrip_spaces_append (sp v : Str) (hs : ∀ c ∈ sp, isSpace c = true) (hv : ∀ c ∈ v.head?, isSpace c = false) :
    lstrip (sp ++ v) = v := by
  induction sp with
  | nil =>
    cases v with
    | nil => rfl
    | cons c cs => simp [lstrip, hv c (by simp)]
  | cons c cs ih =>
    simp only [List.cons_append, lstrip, hs c (by simp), if_true]
    exact ih (fun d hd => hs d (by simp [hd]))

theorem rstrip_all_space (sp : Str) (hs : ∀ c ∈ sp, isSpace c = true) : rstrip sp = [] := by
  induction sp with
  | nil => rfl
  | cons c cs ih =>
    simp [rstrip, ih (fun d hd => hs d (by simp [hd])), hs c (by simp)]

theorem rstrip_append_spaces (v sp : Str) (hs : ∀ c ∈ sp, isSpace c = true) :
    rstrip (v ++ sp) = rstrip v := by
  induction v with
  | nil => simp [rstrip_all_space sp hs, rstrip]
  | cons c cs ih => simp only [List.cons_append, rstrip, ih]

theorem strip_padded (a v b : Str) (ha : ∀ c ∈ a, isSpace c = true) (hb : ∀ c ∈ b, isSpace c = true)
    (hv : ∀ c ∈ v, isSpace c = false) : strip (a ++ v ++ b) = v := by
  unfold strip
  cases v with
  | nil =>
    simp only [List.append_nil]
    have : ∀ c ∈ a ++ b, isSpace c = true := by
      intro c hc; rcases List.mem_append.mp hc with h | h
      · exact ha c h
      · exact hb c h
    have h1 : lstrip (a ++ b) = [] := by
      have := lstrip_spaces_append (a ++ b) [] this (by simp)
      simpa using this
    rw [h1]; rfl
  | cons c cs =>
    rw [List.append_assoc, lstrip_spaces_append a _ ha (by simp [hv c (by simp)])]
    rw [rstrip_append_spaces _ _ hb]
    exact Proofs.VersionPrint.rstrip_id hv

theorem space_is_space : isSpace ' ' = true := by decide
theorem opChars_not_space : ∀ c, isOpChar c = true → isSpace c = false := by
  intro c h
  simp only [isOpChar, Bool.or_eq_true, decide_eq_true_eq] at h
  rcases h with (h | h) | h <;> subst h <;> decide

/-- **the tokeniser on a well-formed clause**: spaces, an operator, spaces (possibly none: glued),
a version, spaces — for any amounts of U+0020 — gives exactly `[operator, version]` -/
theorem opTokens_good (b op c v d : Str)
    (hb : spaces b = true) (hc : spaces c = true) (hd : spaces d = true)
    (hop : op ≠ [] ∧ ∀ x ∈ op, isOpChar x = true)
    (hv : versionOk v = true) :
    opTokens (b ++ op ++ c ++ v ++ d) = [op, v] := by
  have sp : ∀ s : Str, spaces s = true → ∀ x ∈ s, x = ' ' := by
    intro s hs x hx
    have := List.all_eq_true.mp hs x hx
    simpa using this
  simp only [versionOk, Bool.and_eq_true, Bool.not_eq_true', List.isEmpty_eq_false_iff, List.all_eq_true,
    bne_iff_ne, ne_eq] at hv
  obtain ⟨hvne, hvc⟩ := hv
  have hvns : ∀ x ∈ v, isSpace x = false := fun x hx => by
    have := (hvc x hx).1.1.1.1.1.1; simpa using this
  have hvnop : ∀ x ∈ v, isOpChar x = false := fun x hx => by
    have h := hvc x hx
    simp [isOpChar, h.1.1.2, h.1.2, h.2]
  have hspNop : ∀ s : Str, spaces s = true → ∀ x ∈ s, isOpChar x = false := by
    intro s hs x hx; rw [sp s hs x hx]; decide
  have hspSp : ∀ s : Str, spaces s = true → ∀ x ∈ s, isSpace x = true := by
    intro s hs x hx; rw [sp s hs x hx]; exact space_is_space
  -- the tail `c ++ v ++ d` is one non-operator run
  have htail_ne : c ++ v ++ d ≠ [] := by
    cases v with
    | nil => exact absurd rfl hvne
    | cons _ _ => simp
  have htail_nop : ∀ x ∈ c ++ v ++ d, isOpChar x = false := by
    intro x hx
    simp only [List.mem_append] at hx
    rcases hx with (h | h) | h
    · exact hspNop c hc x h
    · exact hvnop x h
    · exact hspNop d hd x h
  have hrun_tail : opRuns (c ++ v ++ d) = [c ++ v ++ d] := by
    have := opRuns_prefix (c ++ v ++ d) [] false htail_ne htail_nop (by simp)
    simpa [opRuns] using this
  have hhead_tail : ∀ x ∈ (c ++ v ++ d).head?, isOpChar x ≠ true := by
    intro x hx
    have : x ∈ c ++ v ++ d := List.mem_of_mem_head? hx
    rw [htail_nop x this]; simp
  have hrun_op : opRuns (op ++ (c ++ v ++ d)) = [op, c ++ v ++ d] := by
    rw [opRuns_prefix op _ true hop.1 hop.2 hhead_tail, hrun_tail]
  have e : b ++ op ++ c ++ v ++ d = b ++ (op ++ (c ++ v ++ d)) := by simp
  have hopns : ∀ x ∈ op, isSpace x = false := fun x hx => opChars_not_space x (hop.2 x hx)
  have hstrip_op : strip op = op := Proofs.VersionPrint.strip_id hopns
  have hstrip_tail : strip (c ++ v ++ d) = v := strip_padded c v d (hspSp c hc) (hspSp d hd) hvns
  rw [e]
  unfold opTokens
  by_cases hbe : b = []
  · subst hbe
    simp only [List.nil_append, hrun_op, List.map_cons, List.map_nil, hstrip_op, hstrip_tail]
    simp [hop.1, hvne]
  · have hhead_op : ∀ x ∈ (op ++ (c ++ v ++ d)).head?, isOpChar x ≠ false := by
      intro x hx
      cases op with
      | nil => exact absurd rfl hop.1
      | cons o os =>
        simp only [List.cons_append, List.head?_cons, Option.mem_def, Option.some.injEq] at hx
        rw [← hx, hop.2 o (by simp)]; simp
    rw [opRuns_prefix b _ false hbe (hspNop b hb) hhead_op, hrun_op]
    have hstrip_b : strip b = [] := by
      have := strip_padded b [] [] (hspSp b hb) (by simp) (by simp)
      simpa using this
    simp only [List.map_cons, List.map_nil, hstrip_b, hstrip_op, hstrip_tail]
    simp [hop.1, hvne]

/-- non-vacuity and the malformed shapes of the property -/
example : opTokens ">=1.0".toList = [">=".toList, "1.0".toList] := by decide +kernel
example : modelE ⟨"a".toList, "1.0".toList⟩ = .error .valueError := by decide +kernel
example : modelE ⟨"a".toList, ">=".toList⟩ = .error .valueError := by decide +kernel
example : modelE ⟨"a".toList, ">= 1 <= 2".toList⟩ = .error .valueError := by decide +kernel
example : modelE ⟨"a".toList, ">= <=".toList⟩ = .error .valueError := by decide +kernel

end Props.C14
