/-
C14 — theorems about the version-clause tokeniser of the dependency parser.
-/
import DebInspector.Props.C14
import DebInspector.Proofs.SplitJoin
import DebInspector.Proofs.VersionPrint

namespace Props.C14
open Py Model.Deps Model.DepsParse

theorem opRuns_head (d : Char) (ys : Str) : ∃ r rs, opRuns (d :: ys) = (d :: r) :: rs := by
  simp only [opRuns]
  cases h : opRuns ys with
  | nil => exact ⟨[], [], rfl⟩
  | cons r rs =>
    cases r with
    | nil => exact ⟨[], rs, rfl⟩
    | cons e es =>
      simp only
      split
      · exact ⟨e :: es, rs, rfl⟩
      · exact ⟨[], (e :: es) :: rs, rfl⟩

/-- a homogeneous non-empty prefix followed by a character of the other class is one run -/
theorem opRuns_prefix (x y : Str) (k : Bool) (hx : x ≠ []) (hk : ∀ c ∈ x, isOpChar c = k)
    (hy : ∀ d ∈ y.head?, isOpChar d ≠ k) : opRuns (x ++ y) = x :: opRuns y := by
  induction x with
  | nil => exact absurd rfl hx
  | cons c cs ih =>
    have hc : isOpChar c = k := hk c (by simp)
    by_cases hcs : cs = []
    · subst hcs
      simp only [List.cons_append, List.nil_append, opRuns]
      cases y with
      | nil => simp [opRuns]
      | cons d ys =>
        obtain ⟨r, rs, hr⟩ := opRuns_head d ys
        rw [hr]
        have hd : isOpChar d ≠ k := hy d (by simp)
        simp only
        have : ¬ (isOpChar c = isOpChar d) := by rw [hc]; exact fun e => hd e.symm
        simp [this]
    · have ih' := ih hcs (fun d hd => hk d (by simp [hd]))
      simp only [List.cons_append, opRuns]
      rw [ih']
      cases cs with
      | nil => exact absurd rfl hcs
      | cons e es =>
        have he : isOpChar e = k := hk e (by simp)
        simp [hc, he]

theorem lstrip_spaces_append (sp v : Str) (hs : ∀ c ∈ sp, isSpace c = true) (hv : ∀ c ∈ v.head?, isSpace c = false) :
    lstrip (sp ++ v) = v := by
  induction sp with
  | nil =>
    cases v with
    | nil => rfl
    | cons c cs => simp [lstrip, hv c (by simp)]
  | cons c cs ih =>
    simp only [List.cons_append, lstrip, hs c (by simp), if_true]
    exact ih (fun d hd => hs d (by simp [hd]))

theorem rstrip_all_space (sp : Str) (hs : ∀ c ∈ sp, isSpace c = true) : rstrip sp = [] := by
  induction sp with
  | nil => rfl
  | cons c cs ih =>
    simp [rstrip, ih (fun d hd => hs d (by simp [hd])), hs c (by simp)]

theorem rstrip_append_spaces (v sp : Str) (hs : ∀ c ∈ sp, isSpace c = true) :
    rstrip (v ++ sp) = rstrip v := by
  induction v with
  | nil => simp [rstrip_all_space sp hs, rstrip]
  | cons c cs ih => simp only [List.cons_append, rstrip, ih]

theorem strip_padded (a v b : Str) (ha : ∀ c ∈ a, isSpace c = true) (hb : ∀ c ∈ b, isSpace c = true)
    (hv : ∀ c ∈ v, isSpace c = false) : strip (a ++ v ++ b) = v := by
  unfold strip
  cases v with
  | nil =>
    simp only [List.append_nil]
    have : ∀ c ∈ a ++ b, isSpace c = true := by
      intro c hc; rcases List.mem_append.mp hc with h | h
      · exact ha c h
      · exact hb c h
    have h1 : lstrip (a ++ b) = [] := by
      have := lstrip_spaces_append (a ++ b) [] this (by simp)
      simpa using this
    rw [h1]; rfl
  | cons c cs =>
    rw [List.append_assoc, lstrip_spaces_append a _ ha (by simp [hv c (by simp)])]
    rw [rstrip_append_spaces _ _ hb]
    exact Proofs.VersionPrint.rstrip_id hv

theorem space_is_space : isSpace ' ' = true := by decide
theorem opChars_not_space : ∀ c, isOpChar c = true → isSpace c = false := by
  intro c h
  simp only [isOpChar, Bool.or_eq_true, decide_eq_true_eq] at h
  rcases h with (h | h) | h <;> subst h <;> decide

/-- **the tokeniser on a well-formed clause**: spaces, an operator, spaces (possibly none: glued),
a version, spaces — for any amounts of U+0020 — gives exactly `[operator, version]` -/
theorem opTokens_good (b op c v d : Str)
    (hb : spaces b = true) (hc : spaces c = true) (hd : spaces d = true)
    (hop : op ≠ [] ∧ ∀ x ∈ op, isOpChar x = true)
    (hv : versionOk v = true) :
    opTokens (b ++ op ++ c ++ v ++ d) = [op, v] := by
  have sp : ∀ s : Str, spaces s = true → ∀ x ∈ s, x = ' ' := by
    intro s hs x hx
    have := List.all_eq_true.mp hs x hx
    simpa using this
  simp only [versionOk, Bool.and_eq_true, Bool.not_eq_true', List.isEmpty_eq_false_iff, List.all_eq_true,
    bne_iff_ne, ne_eq] at hv
  obtain ⟨hvne, hvc⟩ := hv
  have hvns : ∀ x ∈ v, isSpace x = false := fun x hx => by
    have := (hvc x hx).1.1.1.1.1.1; simpa using this
  have hvnop : ∀ x ∈ v, isOpChar x = false := fun x hx => by
    have h := hvc x hx
    simp [isOpChar, h.1.1.2, h.1.2, h.2]
  have hspNop : ∀ s : Str, spaces s = true → ∀ x ∈ s, isOpChar x = false := by
    intro s hs x hx; rw [sp s hs x hx]; decide
  have hspSp : ∀ s : Str, spaces s = true → ∀ x ∈ s, isSpace x = true := by
    intro s hs x hx; rw [sp s hs x hx]; exact space_is_space
  -- the tail `c ++ v ++ d` is one non-operator run
  have htail_ne : c ++ v ++ d ≠ [] := by
    cases v with
    | nil => exact absurd rfl hvne
    | cons _ _ => simp
  have htail_nop : ∀ x ∈ c ++ v ++ d, isOpChar x = false := by
    intro x hx
    simp only [List.mem_append] at hx
    rcases hx with (h | h) | h
    · exact hspNop c hc x h
    · exact hvnop x h
    · exact hspNop d hd x h
  have hrun_tail : opRuns (c ++ v ++ d) = [c ++ v ++ d] := by
    have := opRuns_prefix (c ++ v ++ d) [] false htail_ne htail_nop (by simp)
    simpa [opRuns] using this
  have hhead_tail : ∀ x ∈ (c ++ v ++ d).head?, isOpChar x ≠ true := by
    intro x hx
    have : x ∈ c ++ v ++ d := List.mem_of_mem_head? hx
    rw [htail_nop x this]; simp
  have hrun_op : opRuns (op ++ (c ++ v ++ d)) = [op, c ++ v ++ d] := by
    rw [opRuns_prefix op _ true hop.1 hop.2 hhead_tail, hrun_tail]
  have e : b ++ op ++ c ++ v ++ d = b ++ (op ++ (c ++ v ++ d)) := by simp
  have hopns : ∀ x ∈ op, isSpace x = false := fun x hx => opChars_not_space x (hop.2 x hx)
  have hstrip_op : strip op = op := Proofs.VersionPrint.strip_id hopns
  have hstrip_tail : strip (c ++ v ++ d) = v := strip_padded c v d (hspSp c hc) (hspSp d hd) hvns
  rw [e]
  unfold opTokens
  by_cases hbe : b = []
  · subst hbe
    simp only [List.nil_append, hrun_op, List.map_cons, List.map_nil, hstrip_op, hstrip_tail]
    simp [hop.1, hvne]
  · have hhead_op : ∀ x ∈ (op ++ (c ++ v ++ d)).head?, isOpChar x ≠ false := by
      intro x hx
      cases op with
      | nil => exact absurd rfl hop.1
      | cons o os =>
        simp only [List.cons_append, List.head?_cons, Option.mem_def, Option.some.injEq] at hx
        rw [← hx, hop.2 o (by simp)]; simp
    rw [opRuns_prefix b _ false hbe (hspNop b hb) hhead_op, hrun_op]
    have hstrip_b : strip b = [] := by
      have := strip_padded b [] [] (hspSp b hb) (by simp) (by simp)
      simpa using this
    simp only [List.map_cons, List.map_nil, hstrip_b, hstrip_op, hstrip_tail]
    simp [hop.1, hvne]

/-- non-vacuity and the malformed shapes of the property -/
example : opTokens ">=1.0".toList = [">=".toList, "1.0".toList] := by decide +kernel
example : modelE ⟨"a".toList, "1.0".toList⟩ = .error .valueError := by decide +kernel
example : modelE ⟨"a".toList, ">=".toList⟩ = .error .valueError := by decide +kernel
example : modelE ⟨"a".toList, ">= 1 <= 2".toList⟩ = .error .valueError := by decide +kernel
example : modelE ⟨"a".toList, ">= <=".toList⟩ = .error .valueError := by decide +kernel

/-! ## the whole field: `parse_depends (render groups) = expected groups` -/

theorem takeDrop_append (p : Char → Bool) (n rest : Str) (hn : ∀ c ∈ n, p c = true)
    (hr : headP p rest = false) :
    takeWhileC p (n ++ rest) = n ∧ dropWhileC p (n ++ rest) = rest := by
  induction n with
  | nil =>
    cases rest with
    | nil => exact ⟨rfl, rfl⟩
    | cons c cs =>
      have : p c = false := by simpa [headP] using hr
      simp [takeWhileC, dropWhileC, this]
  | cons c cs ih =>
    obtain ⟨h1, h2⟩ := ih (fun d hd => hn d (by simp [hd]))
    simp [takeWhileC, dropWhileC, hn c (by simp), h1, h2]

theorem dropWhile_spaces (sp rest : Str) (hs : ∀ c ∈ sp, isSpace c = true) (hr : headP isSpace rest = false) :
    dropWhileC isSpace (sp ++ rest) = rest := (takeDrop_append isSpace sp rest hs hr).2

/-- an opening bracket, a non-empty inner text without the closing bracket, the closing bracket -/
theorem bracketed_ok (o c : Char) (inner rest : Str) (hne : inner ≠ []) (hc : c ∉ inner) :
    bracketed o c (o :: (inner ++ c :: rest)) = some (inner, rest) := by
  have hp : ∀ x ∈ inner, (fun y => decide (y ≠ c)) x = true := by
    intro x hx
    have : x ≠ c := fun e => hc (e ▸ hx)
    simp [this]
  have hr : headP (fun y => decide (y ≠ c)) (c :: rest) = false := by simp [headP]
  obtain ⟨h1, h2⟩ := takeDrop_append (fun y => decide (y ≠ c)) inner (c :: rest) hp hr
  have hie : inner.isEmpty = false := by cases inner <;> simp_all
  simp only [bracketed, if_true]
  rw [h1, h2]
  simp [hie, headP]

theorem bracketed_none (o c : Char) (s : Str) (h : headP (· = o) s = false) : bracketed o c s = none := by
  cases s with
  | nil => rfl
  | cons d ds =>
    have : d ≠ o := by simpa [headP] using h
    simp [bracketed, this]


/-! ### one alternative -/

def clausePart (x : Alt) : Str :=
  match x.clause with
  | some (op, v) => x.a ++ '(' :: x.b ++ op ++ x.c ++ v ++ x.d ++ [')']
  | none => []

def archPart (x : Alt) : Str :=
  if x.archs.isEmpty then [] else x.e ++ '[' :: join [' '] x.archs ++ [']']

def content (x : Alt) : Str := x.name ++ clausePart x ++ archPart x

theorem renderAlt_eq (x : Alt) : renderAlt x = x.lead ++ content x ++ x.trail := by
  simp only [renderAlt, content, clausePart, archPart]
  cases x.clause with
  | none => simp
  | some ov => obtain ⟨op, v⟩ := ov; simp

theorem spaces_all (s : Str) (h : spaces s = true) : ∀ c ∈ s, c = ' ' := by
  intro c hc
  have := List.all_eq_true.mp h c hc
  simpa using this

theorem white_all (s : Str) (h : white s = true) : ∀ c ∈ s, isSpace c = true :=
  fun c hc => List.all_eq_true.mp h c hc

theorem ops7_props (op : Str) (h : ops7.contains op = true) : op ≠ [] ∧ (∀ c ∈ op, isOpChar c = true) := by
  have hm : op ∈ ops7 := by simpa using h
  simp only [ops7, List.map_cons, List.map_nil, List.mem_cons, List.not_mem_nil, or_false] at hm
  rcases hm with rfl | rfl | rfl | rfl | rfl | rfl | rfl <;> exact ⟨by decide, by decide⟩

structure AltFacts (x : Alt) : Prop where
  nameNe : x.name ≠ []
  nameCh : ∀ c ∈ x.name, isSpace c = false ∧ c ≠ '(' ∧ c ≠ '[' ∧ c ≠ ',' ∧ c ≠ '|'
  clause : ∀ op v, x.clause = some (op, v) → ops7.contains op = true ∧ versionOk v = true
  archs : ∀ a ∈ x.archs, a ≠ [] ∧ ∀ c ∈ a, isSpace c = false ∧ c ≠ ']' ∧ c ≠ ',' ∧ c ≠ '|'
  lead : ∀ c ∈ x.lead, isSpace c = true
  trail : ∀ c ∈ x.trail, isSpace c = true
  sa : spaces x.a = true
  sb : spaces x.b = true
  sc : spaces x.c = true
  sd : spaces x.d = true
  se : spaces x.e = true

theorem altFacts (x : Alt) (h : wfAlt x = true) : AltFacts x := by
  simp only [wfAlt, Bool.and_eq_true] at h
  obtain ⟨⟨⟨⟨⟨⟨⟨⟨⟨hn, hc⟩, ha⟩, hl⟩, ht⟩, sa⟩, sb⟩, sc⟩, sd⟩, se⟩ := h
  simp only [nameOk, Bool.and_eq_true, Bool.not_eq_true', List.isEmpty_eq_false_iff, List.all_eq_true,
    bne_iff_ne, ne_eq] at hn
  refine ⟨hn.1, ?_, ?_, ?_, white_all _ hl, white_all _ ht, sa, sb, sc, sd, se⟩
  · intro c hc'
    have := hn.2 c hc'
    exact ⟨this.1.1.1.1, this.1.1.1.2, this.1.1.2, this.1.2, this.2⟩
  · intro op v hcl
    rw [hcl] at hc
    simpa using hc
  · intro a ha'
    have := List.all_eq_true.mp ha a ha'
    simp only [archOk, Bool.and_eq_true, Bool.not_eq_true', List.isEmpty_eq_false_iff, List.all_eq_true,
      bne_iff_ne, ne_eq] at this
    refine ⟨this.1, fun c hc' => ?_⟩
    have := this.2 c hc'
    exact ⟨this.1.1.1, this.1.1.2, this.1.2, this.2⟩


theorem mem_join1 (sep : Char) (ps : List Str) (c : Char) (h : c ∈ join [sep] ps) : c = sep ∨ ∃ p ∈ ps, c ∈ p := by
  induction ps with
  | nil => simp [join] at h
  | cons p ps ih =>
    cases ps with
    | nil => simp only [join] at h; exact Or.inr ⟨p, by simp, h⟩
    | cons q qs =>
      rw [join1_cons2] at h
      simp only [List.mem_append, List.mem_cons] at h
      rcases h with h | h | h
      · exact Or.inr ⟨p, by simp, h⟩
      · exact Or.inl h
      · rcases ih h with h | ⟨r, hr, hc⟩
        · exact Or.inl h
        · exact Or.inr ⟨r, List.mem_cons_of_mem _ hr, hc⟩

theorem join1_ne_nil (sep : Char) (p : Str) (ps : List Str) (h : p ≠ []) : join [sep] (p :: ps) ≠ [] := by
  cases ps with
  | nil => simpa [join] using h
  | cons q qs => rw [join1_cons2]; cases p <;> simp_all

theorem sp_space' : isSpace ' ' = true := by decide

def notName (c : Char) : Bool := c = '(' || c = '[' || c = ' '

def archsOf (r3 : Str) : List Str :=
  match bracketed '[' ']' r3 with
  | some (a, _) => splitWs a
  | none => []

def finish (name : Str) (version : Option Str) (archs : List Str) : Except PyExc Rel :=
  match version with
  | none => .ok (.simple name archs)
  | some v =>
    match opTokens v with
    | [op, ver] =>
      if (([op, ver].filter fun t => t.all isOpChar).length = 1) then .ok (.versioned name op ver archs)
      else .error .valueError
    | _ => .error .valueError

theorem parseRelationship_eq (expr : Str) :
    parseRelationship expr =
      if (takeWhileC (fun c => !notName c) expr).isEmpty then .error .attributeError else
      match bracketed '(' ')' (dropWhileC isSpace (dropWhileC (fun c => !notName c) expr)) with
      | some (v, rest) => finish (takeWhileC (fun c => !notName c) expr) (some v) (archsOf (dropWhileC isSpace rest))
      | none => finish (takeWhileC (fun c => !notName c) expr) none
          (archsOf (dropWhileC isSpace (dropWhileC isSpace (dropWhileC (fun c => !notName c) expr)))) := by
  have hn : (fun c => !notName c) = (fun c => !(decide (c = '(') || decide (c = '[') || decide (c = ' '))) := rfl
  unfold parseRelationship
  simp only [hn]
  by_cases h : (takeWhileC (fun c => !(decide (c = '(') || decide (c = '[') || decide (c = ' '))) expr).isEmpty = true
  · simp only [h, if_true]
  · simp only [h, if_false]
    cases bracketed '(' ')' (dropWhileC isSpace (dropWhileC (fun c => !(decide (c = '(') || decide (c = '[') || decide (c = ' '))) expr)) with
    | none => rfl
    | some vr => obtain ⟨v, rest⟩ := vr; rfl

theorem archPart_eq (x : Alt) :
    archPart x = if x.archs.isEmpty then [] else x.e ++ '[' :: (join [' '] x.archs ++ [']']) := by
  unfold archPart; split <;> simp

/-- scanning the architecture part -/
theorem arch_scan (x : Alt) (hf : AltFacts x) :
    archsOf (dropWhileC isSpace (archPart x)) = x.archs ∧
    headP (· = '(') (dropWhileC isSpace (archPart x)) = false ∧
    dropWhileC isSpace (dropWhileC isSpace (archPart x)) = dropWhileC isSpace (archPart x) := by
  rw [archPart_eq]
  unfold archsOf
  cases ha : x.archs with
  | nil => simp [dropWhileC, bracketed, headP]
  | cons a as =>
    simp only [List.isEmpty_cons, Bool.false_eq_true, if_false]
    have hsp : ∀ c ∈ x.e, isSpace c = true := fun c hc => by rw [spaces_all _ hf.se c hc]; exact sp_space'
    have hhead : headP isSpace ('[' :: (join [' '] (a :: as) ++ [']'])) = false := by
      simp only [headP]; decide
    rw [dropWhile_spaces x.e _ hsp hhead]
    have harch := hf.archs
    rw [ha] at harch
    have hne : join [' '] (a :: as) ≠ [] := join1_ne_nil ' ' a as (harch a (by simp)).1
    have hnc : ']' ∉ join [' '] (a :: as) := by
      intro hm
      rcases mem_join1 ' ' _ _ hm with h | ⟨p, hp, hc⟩
      · exact absurd h (by decide)
      · exact ((harch p hp).2 ']' hc).2.1 rfl
    have e : join [' '] (a :: as) ++ [']'] = join [' '] (a :: as) ++ ']' :: [] := rfl
    rw [e, bracketed_ok '[' ']' _ [] hne hnc]
    refine ⟨?_, by simp [headP], ?_⟩
    · simp only
      exact splitWs_join (a :: as) (fun w hw => ⟨(harch w hw).1, fun c hc => ((harch w hw).2 c hc).1⟩)
    · have : isSpace '[' = false := by decide
      simp [dropWhileC, this]

/-- **one alternative**: the model of `parse_relationship` on the trimmed spelling of an alternative —
name, optional `( operator version )`, optional `[ architectures ]`, any amount of U+0020 in the five
places — returns exactly the alternative's structure -/
theorem parseRel_content (x : Alt) (hf : AltFacts x) : parseRelationship (content x) = .ok (expectedAlt x) := by
  have hname : ∀ c ∈ x.name, (fun c => !notName c) c = true := by
    intro c hc
    obtain ⟨h1, h2, h3, _, _⟩ := hf.nameCh c hc
    have h4 : c ≠ ' ' := by intro e; subst e; rw [sp_space'] at h1; cases h1
    simp [notName, h2, h3, h4]
  have hspA : ∀ s : Str, spaces s = true → ∀ c ∈ s, isSpace c = true :=
    fun s hs c hc => by rw [spaces_all s hs c hc]; exact sp_space'
  have hnameE : x.name.isEmpty = false := by have := hf.nameNe; cases hn : x.name <;> simp_all
  obtain ⟨harchs, hnoparen, hidem⟩ := arch_scan x hf
  rw [parseRelationship_eq]
  cases hcl : x.clause with
  | none =>
    have hc : content x = x.name ++ archPart x := by simp [content, clausePart, hcl]
    have hrest : headP (fun c => !notName c) (archPart x) = false := by
      rw [archPart_eq]
      split
      · rfl
      · cases he : x.e with
        | nil => simp [headP, notName]
        | cons d ds =>
          have : d = ' ' := spaces_all _ hf.se d (by rw [he]; simp)
          simp [headP, notName, this]
    obtain ⟨h1, h2⟩ := takeDrop_append _ x.name (archPart x) hname hrest
    simp only [hc, h1, h2, hnameE, Bool.false_eq_true, if_false]
    rw [bracketed_none '(' ')' _ hnoparen]
    simp only [hidem, harchs, finish, expectedAlt, hcl]
  | some ov =>
    obtain ⟨op, v⟩ := ov
    obtain ⟨hop, hv⟩ := hf.clause op v hcl
    obtain ⟨hopne, hopc⟩ := ops7_props op hop
    have hc : content x = x.name ++ (x.a ++ '(' :: ((x.b ++ op ++ x.c ++ v ++ x.d) ++ ')' :: archPart x)) := by
      simp [content, clausePart, hcl, List.append_assoc]
    have hrest : headP (fun c => !notName c)
        (x.a ++ '(' :: ((x.b ++ op ++ x.c ++ v ++ x.d) ++ ')' :: archPart x)) = false := by
      cases he : x.a with
      | nil => simp [headP, notName]
      | cons d ds =>
        have : d = ' ' := spaces_all _ hf.sa d (by rw [he]; simp)
        simp [headP, notName, this]
    obtain ⟨h1, h2⟩ := takeDrop_append _ x.name _ hname hrest
    have hhead : headP isSpace ('(' :: ((x.b ++ op ++ x.c ++ v ++ x.d) ++ ')' :: archPart x)) = false := by
      simp only [headP]; decide
    have hinner_ne : x.b ++ op ++ x.c ++ v ++ x.d ≠ [] := by
      cases op with
      | nil => exact absurd rfl hopne
      | cons o os => simp
    have hvf := hv
    simp only [versionOk, Bool.and_eq_true, Bool.not_eq_true', List.isEmpty_eq_false_iff, List.all_eq_true,
      bne_iff_ne, ne_eq] at hvf
    have hinner_nc : ')' ∉ x.b ++ op ++ x.c ++ v ++ x.d := by
      intro hm
      simp only [List.mem_append] at hm
      rcases hm with (((h | h) | h) | h) | h
      · exact absurd (spaces_all _ hf.sb _ h) (by decide)
      · have := hopc _ h; simp [isOpChar] at this
      · exact absurd (spaces_all _ hf.sc _ h) (by decide)
      · exact (hvf.2 _ h).1.1.1.1.1.2 rfl
      · exact absurd (spaces_all _ hf.sd _ h) (by decide)
    simp only [hc, h1, h2, hnameE, Bool.false_eq_true, if_false]
    rw [dropWhile_spaces x.a _ (hspA x.a hf.sa) hhead, bracketed_ok '(' ')' _ (archPart x) hinner_ne hinner_nc]
    simp only [harchs, finish]
    rw [opTokens_good x.b op x.c v x.d hf.sb hf.sc hf.sd ⟨hopne, hopc⟩ hv]
    have hopall : op.all isOpChar = true := List.all_eq_true.mpr hopc
    have hvall : v.all isOpChar = false := by
      cases v with
      | nil => exact absurd rfl hvf.1
      | cons d ds =>
        have h := hvf.2 d (by simp)
        have : isOpChar d = false := by simp [isOpChar, h.1.1.2, h.1.2, h.2]
        simp [this]
    simp [hopall, hvall, expectedAlt, hcl]


/-! ### groups and the whole field -/

theorem mapExcept_ok {α β} (f : α → Except PyExc β) (g : α → β) (l : List α) (h : ∀ a ∈ l, f a = .ok (g a)) :
    mapExcept f l = .ok (l.map g) := by
  induction l with
  | nil => rfl
  | cons a as ih =>
    simp [mapExcept, h a (by simp), ih (fun x hx => h x (by simp [hx]))]

theorem mapExcept_map_ok {α β γ} (f : β → Except PyExc γ) (hfun : α → β) (g : α → γ) (l : List α)
    (h : ∀ a ∈ l, f (hfun a) = .ok (g a)) : mapExcept f (l.map hfun) = .ok (l.map g) := by
  induction l with
  | nil => rfl
  | cons a as ih =>
    simp [mapExcept, h a (by simp), ih (fun x hx => h x (by simp [hx]))]

theorem strip_decomp (s : Str) : ∃ w1 w2, (∀ c ∈ w1, isSpace c = true) ∧ (∀ c ∈ w2, isSpace c = true) ∧
    s = w1 ++ (strip s ++ w2) := by
  obtain ⟨w1, hw1, e1⟩ := lstrip_decomp s
  obtain ⟨w2, hw2, e2⟩ := rstrip_decomp (lstrip s)
  exact ⟨w1, w2, hw1, hw2, by unfold strip; rw [← e2, ← e1]⟩

theorem mem_strip_iff (s : Str) (c : Char) (hc : isSpace c = false) : c ∈ strip s ↔ c ∈ s := by
  obtain ⟨w1, w2, h1, h2, e⟩ := strip_decomp s
  constructor
  · intro h; rw [e]; simp [h]
  · intro h
    rw [e] at h
    simp only [List.mem_append] at h
    rcases h with h | h | h
    · rw [h1 c h] at hc; cases hc
    · exact h
    · rw [h2 c h] at hc; cases hc

theorem content_chars (x : Alt) (hf : AltFacts x) : ∀ c ∈ renderAlt x, c ≠ ',' ∧ c ≠ '|' := by
  intro c hc
  have hws : ∀ w : Str, (∀ d ∈ w, isSpace d = true) → c ∈ w → c ≠ ',' ∧ c ≠ '|' := by
    intro w hw hm
    have := hw c hm
    constructor <;> (intro e; subst e; revert this; decide)
  have hsp : ∀ w : Str, spaces w = true → c ∈ w → c ≠ ',' ∧ c ≠ '|' := by
    intro w hw hm
    rw [spaces_all w hw c hm]; exact ⟨by decide, by decide⟩
  rw [renderAlt_eq] at hc
  simp only [content, List.mem_append] at hc
  rcases hc with (hc | (hc | hc) | hc) | hc
  · exact hws _ hf.lead hc
  · exact ⟨(hf.nameCh c hc).2.2.2.1, (hf.nameCh c hc).2.2.2.2⟩
  · unfold clausePart at hc
    cases hcl : x.clause with
    | none => rw [hcl] at hc; cases hc
    | some ov =>
      obtain ⟨op, v⟩ := ov
      rw [hcl] at hc
      obtain ⟨hop, hv⟩ := hf.clause op v hcl
      obtain ⟨_, hopc⟩ := ops7_props op hop
      simp only [versionOk, Bool.and_eq_true, Bool.not_eq_true', List.isEmpty_eq_false_iff, List.all_eq_true,
        bne_iff_ne, ne_eq] at hv
      simp only [List.mem_append, List.mem_cons, List.mem_singleton, List.not_mem_nil, or_false, or_assoc] at hc
      rcases hc with hc | hc | hc | hc | hc | hc | hc | hc
      · exact hsp _ hf.sa hc
      · subst hc; exact ⟨by decide, by decide⟩
      · exact hsp _ hf.sb hc
      · have := hopc c hc
        constructor <;> (intro e; subst e; simp [isOpChar] at this)
      · exact hsp _ hf.sc hc
      · exact ⟨(hv.2 c hc).1.1.1.1.2, (hv.2 c hc).1.1.1.2⟩
      · exact hsp _ hf.sd hc
      · subst hc; exact ⟨by decide, by decide⟩
  · rw [archPart_eq] at hc
    split at hc
    · cases hc
    · simp only [List.mem_append, List.mem_cons, List.mem_singleton, List.not_mem_nil, or_false, or_assoc] at hc
      rcases hc with hc | hc | hc | hc
      · exact hsp _ hf.se hc
      · subst hc; exact ⟨by decide, by decide⟩
      · rcases mem_join1 ' ' _ _ hc with h | ⟨a, ha, hca⟩
        · subst h; exact ⟨by decide, by decide⟩
        · exact ⟨((hf.archs a ha).2 c hca).2.2.1, ((hf.archs a ha).2 c hca).2.2.2⟩
      · subst hc; exact ⟨by decide, by decide⟩
  · exact hws _ hf.trail hc


theorem lastP_of_all (p : Char → Bool) (s : Str) (hne : s ≠ []) (h : ∀ c ∈ s, p c = true) : lastP p s = true := by
  induction s with
  | nil => exact absurd rfl hne
  | cons c cs ih =>
    cases cs with
    | nil => simpa [lastP] using h c (by simp)
    | cons d ds => simpa [lastP] using ih (by simp) (fun x hx => h x (by simp [hx]))

theorem content_ends (x : Alt) (hf : AltFacts x) :
    headP isSpace (content x) = false ∧ lastP (fun c => !isSpace c) (content x) = true := by
  constructor
  · unfold content
    cases hn : x.name with
    | nil => exact absurd hn hf.nameNe
    | cons c cs =>
      have := (hf.nameCh c (by rw [hn]; simp)).1
      simp [headP, this]
  · unfold content
    rw [archPart_eq]
    by_cases ha : x.archs.isEmpty = true
    · simp only [ha, if_true, List.append_nil]
      unfold clausePart
      cases hcl : x.clause with
      | none =>
        simp only [List.append_nil]
        exact lastP_of_all _ _ hf.nameNe (fun c hc => by simp [(hf.nameCh c hc).1])
      | some ov =>
        obtain ⟨op, v⟩ := ov
        have e : x.name ++ (x.a ++ '(' :: x.b ++ op ++ x.c ++ v ++ x.d ++ [')']) =
            (x.name ++ (x.a ++ '(' :: x.b ++ op ++ x.c ++ v ++ x.d)) ++ ')' :: [] := by simp [List.append_assoc]
        simp only
        rw [e, lastP_append_cons]
        simp only [lastP_single]; decide
    · simp only [ha, Bool.false_eq_true, if_false]
      have e : x.name ++ clausePart x ++ (x.e ++ '[' :: (join [' '] x.archs ++ [']'])) =
          (x.name ++ clausePart x ++ (x.e ++ '[' :: join [' '] x.archs)) ++ ']' :: [] := by simp [List.append_assoc]
      rw [e, lastP_append_cons]
      simp only [lastP_single]; decide

theorem strip_renderAlt (x : Alt) (hf : AltFacts x) : strip (renderAlt x) = content x := by
  rw [renderAlt_eq]
  exact strip_core _ _ _ hf.lead hf.trail (content_ends x hf).1 (content_ends x hf).2

theorem content_ne_nil (x : Alt) (hf : AltFacts x) : content x ≠ [] := by
  unfold content
  cases hn : x.name with
  | nil => exact absurd hn hf.nameNe
  | cons c cs => simp

theorem bar_not_space : isSpace '|' = false := by decide
theorem comma_not_space : isSpace ',' = false := by decide

/-- **one group**: `parse_alternatives` on the trimmed `|`-join of the group's alternatives -/
theorem parseAlternatives_group (g : List Alt) (hne : g ≠ []) (hg : ∀ x ∈ g, AltFacts x) :
    parseAlternatives (strip (join ['|'] (g.map renderAlt))) = .ok (expectedGroup g) := by
  have hnobar : ∀ p ∈ g.map renderAlt, '|' ∉ p := by
    intro p hp hm
    simp only [List.mem_map] at hp
    obtain ⟨x, hx, rfl⟩ := hp
    exact (content_chars x (hg x hx) '|' hm).2 rfl
  unfold parseAlternatives
  cases g with
  | nil => exact absurd rfl hne
  | cons x rest =>
    cases rest with
    | nil =>
      have hf := hg x (by simp)
      simp only [List.map_cons, List.map_nil, join]
      rw [strip_renderAlt x hf]
      have hnb : (content x).contains '|' = false := by
        cases hc : (content x).contains '|' with
        | false => rfl
        | true =>
          have hm : '|' ∈ content x := by simpa using hc
          rw [← strip_renderAlt x hf, mem_strip_iff _ _ bar_not_space] at hm
          exact absurd hm (hnobar _ (by simp))
      simp only [hnb, Bool.false_eq_true, if_false, expectedGroup]
      exact parseRel_content x hf
    | cons y ys =>
      have hbar : (strip (join ['|'] ((x :: y :: ys).map renderAlt))).contains '|' = true := by
        have : '|' ∈ strip (join ['|'] ((x :: y :: ys).map renderAlt)) := by
          rw [mem_strip_iff _ _ bar_not_space]
          simp only [List.map_cons, join1_cons2]
          simp
        simpa using this
      simp only [hbar, if_true]
      have hsplit : splitStripNonEmpty '|' (strip (join ['|'] ((x :: y :: ys).map renderAlt))) =
          (x :: y :: ys).map content := by
        unfold splitStripNonEmpty
        rw [map_strip_splitChar_strip '|' bar_not_space, splitChar_join '|' _ (by simp) hnobar, List.map_map]
        have : (strip ∘ renderAlt) = fun z => strip (renderAlt z) := rfl
        rw [List.filter_eq_self.mpr]
        · apply List.map_congr_left
          intro z hz
          exact strip_renderAlt z (hg z hz)
        · intro s hs
          simp only [List.mem_map, Function.comp] at hs
          obtain ⟨z, hz, rfl⟩ := hs
          rw [strip_renderAlt z (hg z hz)]
          have := content_ne_nil z (hg z hz)
          cases hc : content z <;> simp_all
      rw [hsplit, mapExcept_map_ok parseRelationship content expectedAlt _
        (fun z hz => parseRel_content z (hg z hz))]
      rfl

theorem commaless (g : List Alt) (hg : ∀ x ∈ g, AltFacts x) : ',' ∉ join ['|'] (g.map renderAlt) := by
  intro hm
  rcases mem_join1 '|' _ _ hm with h | ⟨p, hp, hc⟩
  · exact absurd h (by decide)
  · simp only [List.mem_map] at hp
    obtain ⟨x, hx, rfl⟩ := hp
    exact (content_chars x (hg x hx) ',' hc).1 rfl

theorem group_strip_ne_nil (g : List Alt) (hne : g ≠ []) (hg : ∀ x ∈ g, AltFacts x) :
    strip (join ['|'] (g.map renderAlt)) ≠ [] := by
  cases g with
  | nil => exact absurd rfl hne
  | cons x rest =>
    have hf := hg x (by simp)
    -- the first character of the name survives trimming
    cases hn : x.name with
    | nil => exact absurd hn hf.nameNe
    | cons c cs =>
      have hcs : isSpace c = false := (hf.nameCh c (by rw [hn]; simp)).1
      have hm : c ∈ join ['|'] ((x :: rest).map renderAlt) := by
        have : c ∈ renderAlt x := by rw [renderAlt_eq]; simp [content, hn]
        cases rest with
        | nil => simpa [join] using this
        | cons y ys => simp only [List.map_cons, join1_cons2]; simp [this]
      have := (mem_strip_iff _ c hcs).mpr hm
      intro e; rw [e] at this; cases this

/-- **C14, structure** — for every relationship field of the grammar (any number of groups and
alternatives, any names, operators, versions, architecture lists, any white-space layout) the model of
`parse_depends` returns exactly the structure the field spells -/
theorem parseDepends_render (gs : List (List Alt)) (h : ∀ g ∈ gs, g ≠ [] ∧ ∀ x ∈ g, AltFacts x) :
    parseDepends (render gs) = .ok (expected gs) := by
  unfold parseDepends render
  have hsplit : splitStripNonEmpty ',' (join [','] (gs.map fun g => join ['|'] (g.map renderAlt))) =
      gs.map fun g => strip (join ['|'] (g.map renderAlt)) := by
    unfold splitStripNonEmpty
    cases gs with
    | nil => simp [join, splitChar, strip, lstrip, rstrip]
    | cons g rest =>
      rw [splitChar_join ',' _ (by simp) (by
        intro p hp
        simp only [List.mem_map] at hp
        obtain ⟨g', hg', rfl⟩ := hp
        exact commaless g' (h g' hg').2), List.map_map]
      rw [List.filter_eq_self.mpr]
      · rfl
      · intro s hs
        simp only [List.mem_map, Function.comp] at hs
        obtain ⟨g', hg', rfl⟩ := hs
        have := group_strip_ne_nil g' (h g' hg').1 (h g' hg').2
        cases hc : strip (join ['|'] (g'.map renderAlt)) <;> simp_all
  rw [hsplit, mapExcept_map_ok parseAlternatives (fun g => strip (join ['|'] (g.map renderAlt))) expectedGroup _
    (fun g hg => parseAlternatives_group g (h g hg).1 (h g hg).2)]
  rfl

theorem sound_structure (i : Input) (h : wf i = true) : parseDepends i.text = .ok (expected i.groups) := by
  simp only [wf, Bool.and_eq_true, List.all_eq_true, beq_iff_eq] at h
  rw [h.2]
  apply parseDepends_render
  intro g hg
  have := h.1 g hg
  simp only [Bool.and_eq_true, Bool.not_eq_true', List.isEmpty_eq_false_iff, List.all_eq_true] at this
  exact ⟨this.1, fun x hx => altFacts x (this.2 x hx)⟩



/-! ### canonical string form -/

mutual
theorem relBeq_refl : ∀ r : Rel, relBeq r r = true
  | .simple n a => by simp [relBeq]
  | .versioned n o v a => by simp [relBeq]
  | .or rs => by simp only [relBeq]; exact relsBeq_refl rs
  | .and rs => by simp only [relBeq]; exact relsBeq_refl rs
theorem relsBeq_refl : ∀ rs : List Rel, relsBeq rs rs = true
  | [] => by simp [relsBeq]
  | r :: rs => by simp only [relsBeq, Bool.and_eq_true]; exact ⟨relBeq_refl r, relsBeq_refl rs⟩
end

theorem relStrs_eq_map (rs : List Rel) : relStrs rs = rs.map relStr := by
  induction rs with
  | nil => rfl
  | cons r rs ih => simp [relStrs, ih]

theorem relStr_expectedAlt (x : Alt) : relStr (expectedAlt x) = canonAlt x := by
  unfold expectedAlt canonAlt
  cases x.clause with
  | none => simp [relStr, archSuffix]
  | some ov => obtain ⟨op, v⟩ := ov; simp [relStr, archSuffix, List.append_assoc]

theorem relStr_expectedGroup (g : List Alt) (hne : g ≠ []) :
    relStr (expectedGroup g) = join " | ".toList (g.map canonAlt) := by
  cases g with
  | nil => exact absurd rfl hne
  | cons x rest =>
    cases rest with
    | nil => simp [expectedGroup, relStr_expectedAlt, join]
    | cons y ys =>
      simp only [expectedGroup, relStr, relStrs_eq_map, List.map_map]
      congr 1
      apply List.map_congr_left
      intro z _
      exact relStr_expectedAlt z

theorem relStr_expected (gs : List (List Alt)) (h : ∀ g ∈ gs, g ≠ []) : relStr (expected gs) = canon gs := by
  simp only [expected, relStr, relStrs_eq_map, List.map_map, canon]
  congr 1
  apply List.map_congr_left
  intro g hg
  exact relStr_expectedGroup g (h g hg)


/-! ### the canonical spelling parses back: it is the rendering of a particular layout -/

def relay (x : Alt) (l t : Str) : Alt :=
  { name := x.name, clause := x.clause, archs := x.archs, lead := l, a := [' '], b := [], c := [' '], d := [],
    e := [' '], trail := t }

theorem renderAlt_relay (x : Alt) (l t : Str) : renderAlt (relay x l t) = l ++ canonAlt x ++ t := by
  unfold renderAlt relay canonAlt
  cases x.clause with
  | none => simp
  | some ov => obtain ⟨op, v⟩ := ov; simp [List.append_assoc]

theorem expectedAlt_relay (x : Alt) (l t : Str) : expectedAlt (relay x l t) = expectedAlt x := rfl

theorem altFacts_relay (x : Alt) (l t : Str) (hf : AltFacts x) (hl : ∀ c ∈ l, isSpace c = true)
    (ht : ∀ c ∈ t, isSpace c = true) : AltFacts (relay x l t) :=
  { nameNe := hf.nameNe, nameCh := hf.nameCh, clause := hf.clause, archs := hf.archs, lead := hl, trail := ht,
    sa := by simp [relay, spaces], sb := by simp [relay, spaces], sc := by simp [relay, spaces],
    sd := by simp [relay, spaces], se := by simp [relay, spaces] }

def layRest : List Alt → List Alt
  | [] => []
  | [y] => [relay y [' '] []]
  | y :: z :: zs => relay y [' '] [' '] :: layRest (z :: zs)

def layGroup (l0 : Str) : List Alt → List Alt
  | [] => []
  | [x] => [relay x l0 []]
  | x :: y :: ys => relay x l0 [' '] :: layRest (y :: ys)

theorem layRest_render (g : List Alt) (hne : g ≠ []) :
    join ['|'] ((layRest g).map renderAlt) = ' ' :: join " | ".toList (g.map canonAlt) := by
  induction g with
  | nil => exact absurd rfl hne
  | cons y rest ih =>
    cases rest with
    | nil => simp [layRest, join, renderAlt_relay]
    | cons z zs =>
      have := ih (by simp)
      simp only [layRest, List.map_cons] at this ⊢
      cases hl : layRest (z :: zs) with
      | nil => cases zs <;> simp [layRest] at hl
      | cons w ws =>
        rw [hl] at this
        simp only [List.map_cons] at this
        simp only [List.map_cons]
        rw [join1_cons2, this, renderAlt_relay]
        simp [join, List.append_assoc]

theorem layGroup_render (l0 : Str) (g : List Alt) (hne : g ≠ []) :
    join ['|'] ((layGroup l0 g).map renderAlt) = l0 ++ join " | ".toList (g.map canonAlt) := by
  cases g with
  | nil => exact absurd rfl hne
  | cons x rest =>
    cases rest with
    | nil => simp [layGroup, join, renderAlt_relay]
    | cons y ys =>
      have := layRest_render (y :: ys) (by simp)
      simp only [layGroup, List.map_cons] at this ⊢
      cases hl : layRest (y :: ys) with
      | nil => cases ys <;> simp [layRest] at hl
      | cons w ws =>
        rw [hl] at this
        simp only [List.map_cons] at this
        simp only [List.map_cons]
        rw [join1_cons2, this, renderAlt_relay]
        simp [join, List.append_assoc]

theorem layRest_facts (g : List Alt) (hg : ∀ x ∈ g, AltFacts x) : ∀ x ∈ layRest g, AltFacts x := by
  induction g with
  | nil => intro x hx; cases hx
  | cons y rest ih =>
    have hsp : ∀ c ∈ [' '], isSpace c = true := by intro c hc; simp at hc; subst hc; decide
    cases rest with
    | nil =>
      intro x hx
      simp only [layRest, List.mem_singleton] at hx
      subst hx
      exact altFacts_relay y _ _ (hg y (by simp)) hsp (by intro c hc; cases hc)
    | cons z zs =>
      intro x hx
      simp only [layRest, List.mem_cons] at hx
      rcases hx with rfl | hx
      · exact altFacts_relay y _ _ (hg y (by simp)) hsp hsp
      · exact ih (fun w hw => hg w (List.mem_cons_of_mem _ hw)) x (by simpa [layRest] using hx)

theorem layGroup_facts (l0 : Str) (hl0 : ∀ c ∈ l0, isSpace c = true) (g : List Alt) (hg : ∀ x ∈ g, AltFacts x) :
    ∀ x ∈ layGroup l0 g, AltFacts x := by
  have hsp : ∀ c ∈ [' '], isSpace c = true := by intro c hc; simp at hc; subst hc; decide
  cases g with
  | nil => intro x hx; cases hx
  | cons y rest =>
    cases rest with
    | nil =>
      intro x hx
      simp only [layGroup, List.mem_singleton] at hx
      subst hx
      exact altFacts_relay y _ _ (hg y (by simp)) hl0 (by intro c hc; cases hc)
    | cons z zs =>
      intro x hx
      simp only [layGroup, List.mem_cons] at hx
      rcases hx with rfl | hx
      · exact altFacts_relay y _ _ (hg y (by simp)) hl0 hsp
      · exact layRest_facts (z :: zs) (fun w hw => hg w (List.mem_cons_of_mem _ hw)) x (by simpa using hx)

theorem layRest_expected (g : List Alt) : (layRest g).map expectedAlt = g.map expectedAlt := by
  induction g with
  | nil => rfl
  | cons y rest ih =>
    cases rest with
    | nil => simp [layRest, expectedAlt_relay]
    | cons z zs => simp only [layRest, List.map_cons, expectedAlt_relay, ih]

theorem layGroup_expected (l0 : Str) (g : List Alt) : expectedGroup (layGroup l0 g) = expectedGroup g := by
  cases g with
  | nil => rfl
  | cons x rest =>
    cases rest with
    | nil => simp [layGroup, expectedGroup, expectedAlt_relay]
    | cons y ys =>
      cases hl : layRest (y :: ys) with
      | nil => cases ys <;> simp [layRest] at hl
      | cons w ws =>
        have := layRest_expected (y :: ys)
        rw [hl] at this
        simp only [layGroup, hl, expectedGroup, List.map_cons, expectedAlt_relay]
        simp only [List.map_cons] at this
        rw [this]

theorem layGroup_ne_nil (l0 : Str) (g : List Alt) (hne : g ≠ []) : layGroup l0 g ≠ [] := by
  cases g with
  | nil => exact absurd rfl hne
  | cons x rest => cases rest <;> simp [layGroup]

/-- the layout whose rendering is the canonical spelling -/
def layDoc : List (List Alt) → List (List Alt)
  | [] => []
  | g :: gs => layGroup [] g :: gs.map (layGroup [' '])

theorem join_comma_space (ps : List Str) (p : Str) :
    join ", ".toList (p :: ps) = join [','] (p :: ps.map (' ' :: ·)) := by
  induction ps generalizing p with
  | nil => simp [join]
  | cons q qs ih =>
    have e1 : join ", ".toList (p :: q :: qs) = p ++ ", ".toList ++ join ", ".toList (q :: qs) := by simp [join]
    rw [e1, ih q]
    simp only [List.map_cons, join1_cons2]
    cases qs with
    | nil => simp [join]
    | cons r rs => simp [join1_cons2, List.append_assoc]

theorem canon_eq_render (gs : List (List Alt)) (h : ∀ g ∈ gs, g ≠ []) : canon gs = render (layDoc gs) := by
  unfold canon render
  cases gs with
  | nil => rfl
  | cons g rest =>
    simp only [List.map_cons, layDoc, List.map_map]
    rw [join_comma_space, layGroup_render [] g (h g (by simp))]
    simp only [List.nil_append, List.map_map]
    congr 2
    apply List.map_congr_left
    intro g' hg'
    simp only [Function.comp]
    rw [layGroup_render [' '] g' (h g' (List.mem_cons_of_mem _ hg'))]
    rfl

theorem expected_layDoc (gs : List (List Alt)) : expected (layDoc gs) = expected gs := by
  unfold expected
  cases gs with
  | nil => rfl
  | cons g rest =>
    simp only [layDoc, List.map_cons, List.map_map, layGroup_expected]
    congr 2
    apply List.map_congr_left
    intro g' _
    simp [Function.comp, layGroup_expected]

/-- the canonical spelling parses back to the same structure -/
theorem parseDepends_canon (gs : List (List Alt)) (h : ∀ g ∈ gs, g ≠ [] ∧ ∀ x ∈ g, AltFacts x) :
    parseDepends (canon gs) = .ok (expected gs) := by
  rw [canon_eq_render gs (fun g hg => (h g hg).1), ← expected_layDoc]
  apply parseDepends_render
  have hsp : ∀ c ∈ [' '], isSpace c = true := by intro c hc; simp at hc; subst hc; decide
  cases gs with
  | nil => intro g hg; cases hg
  | cons g rest =>
    intro g' hg'
    simp only [layDoc, List.mem_cons, List.mem_map] at hg'
    rcases hg' with rfl | ⟨g0, hg0, rfl⟩
    · exact ⟨layGroup_ne_nil _ _ (h g (by simp)).1, layGroup_facts _ (by intro c hc; cases hc) _ (h g (by simp)).2⟩
    · exact ⟨layGroup_ne_nil _ _ (h g0 (List.mem_cons_of_mem _ hg0)).1,
        layGroup_facts _ hsp _ (h g0 (List.mem_cons_of_mem _ hg0)).2⟩


/-! ### names -/

theorem relNamesL_eq (rs : List Rel) : relNamesL rs = rs.flatMap relNames := by
  induction rs with
  | nil => rfl
  | cons r rs ih => simp [relNamesL, ih]

theorem relNames_expectedGroup (g : List Alt) : relNames (expectedGroup g) = g.map (·.name) := by
  have hx : ∀ x : Alt, relNames (expectedAlt x) = [x.name] := by
    intro x; unfold expectedAlt; cases x.clause with
    | none => rfl
    | some ov => rfl
  cases g with
  | nil => simp [expectedGroup, relNames, relNamesL]
  | cons x rest =>
    cases rest with
    | nil => simp [expectedGroup, hx]
    | cons y ys =>
      simp only [expectedGroup, relNames, relNamesL_eq, List.flatMap_map]
      simp only [hx, List.flatMap_cons, List.map_cons, List.singleton_append]
      congr 2
      induction ys with
      | nil => rfl
      | cons z zs ihz => simp [List.flatMap_cons, ihz]

theorem relNames_expected (gs : List (List Alt)) : relNames (expected gs) = mentioned gs := by
  simp only [expected, relNames, relNamesL_eq, List.flatMap_map, mentioned, relNames_expectedGroup]

theorem mem_dedup (l : List Str) (x : Str) : x ∈ dedup l ↔ x ∈ l := by
  induction l with
  | nil => simp [dedup]
  | cons a as ih =>
    unfold dedup
    split
    · rename_i h
      have ha : a ∈ as := by simpa using h
      rw [ih]
      constructor
      · intro h'; exact List.mem_cons_of_mem _ h'
      · intro h'
        rcases List.mem_cons.mp h' with rfl | h'
        · exact ha
        · exact h'
    · simp [ih]

theorem nodup_dedup (l : List Str) : (dedup l).Nodup := by
  induction l with
  | nil => simp [dedup]
  | cons a as ih =>
    unfold dedup
    split
    · exact ih
    · rename_i h
      have ha : a ∉ as := by simpa using h
      exact List.nodup_cons.mpr ⟨fun hm => ha ((mem_dedup as a).mp hm), ih⟩

theorem dedup_of_nodup (l : List Str) (h : l.Nodup) : dedup l = l := by
  induction l with
  | nil => rfl
  | cons a as ih =>
    have h' := List.nodup_cons.mp h
    unfold dedup
    have : as.contains a = false := by simpa using h'.1
    simp only [this, Bool.false_eq_true, if_false, ih h'.2]

theorem insertSorted_perm (x : Str) (l : List Str) : (insertSorted x l).Perm (x :: l) := by
  induction l with
  | nil => simp [insertSorted]
  | cons y ys ih =>
    unfold insertSorted
    split
    · exact List.Perm.refl _
    · exact (List.Perm.cons y ih).trans (List.Perm.swap x y ys)

theorem foldl_insertSorted_perm (l acc : List Str) :
    (l.foldl (fun acc x => insertSorted x acc) acc).Perm (l ++ acc) := by
  induction l generalizing acc with
  | nil => simp
  | cons x xs ih =>
    simp only [List.foldl_cons]
    refine (ih (insertSorted x acc)).trans ?_
    refine (List.Perm.append_left xs (insertSorted_perm x acc)).trans ?_
    simp only [List.cons_append]
    exact List.perm_middle

theorem sortStrs_perm (l : List Str) : (sortStrs l).Perm l := by
  have := foldl_insertSorted_perm l []
  simpa [sortStrs] using this

/-- **C14** — for every relationship field of the grammar the model satisfies the whole property:
the parsed structure is exactly the one spelled, its string form is the canonical single-spaced
spelling, that spelling parses back to the same structure, and the reported names are exactly the
names mentioned (each once). -/
theorem sound (i : Input) : holdsOn i (model i) = true := by
  unfold holdsOn
  cases hw : wf i with
  | false => rfl
  | true =>
    have hstruct := sound_structure i hw
    have hfacts : ∀ g ∈ i.groups, g ≠ [] ∧ ∀ x ∈ g, AltFacts x := by
      simp only [wf, Bool.and_eq_true, List.all_eq_true, beq_iff_eq] at hw
      intro g hg
      have := hw.1 g hg
      simp only [Bool.and_eq_true, Bool.not_eq_true', List.isEmpty_eq_false_iff, List.all_eq_true] at this
      exact ⟨this.1, fun x hx => altFacts x (this.2 x hx)⟩
    have hstr := relStr_expected i.groups (fun g hg => (hfacts g hg).1)
    have hre := parseDepends_canon i.groups hfacts
    simp only [model, hstruct, Bool.not_true, Bool.false_or, hstr, hre, relNames_expected]
    have hperm := sortStrs_perm (dedup (mentioned i.groups))
    have hnd : (sortStrs (dedup (mentioned i.groups))).Nodup := hperm.nodup_iff.mpr (nodup_dedup _)
    have hmem : ∀ x, x ∈ sortStrs (dedup (mentioned i.groups)) ↔ x ∈ mentioned i.groups :=
      fun x => (hperm.mem_iff).trans (mem_dedup _ x)
    simp only [relBeq_refl, exceptRelBeq, beq_self_eq_true, Bool.true_and, Bool.and_eq_true, List.all_eq_true,
      List.contains_iff_mem, dedup_of_nodup _ hnd, and_true]
    exact ⟨fun x hx => (hmem x).mp hx, fun x hx => (hmem x).mpr hx⟩



/-! ### malformed version clauses -/

def headIs (p : Char → Bool) (s : Str) : Bool := headP p s

theorem countRuns_true (p : Char → Bool) (cs : Str) :
    countRuns p cs true + (if headP p cs then 1 else 0) = countRuns p cs false := by
  cases cs with
  | nil => simp [countRuns, headP]
  | cons c cs =>
    by_cases hc : p c = true
    · simp [countRuns, headP, hc]; omega
    · simp [countRuns, headP, hc]

def allOp (t : Str) : Bool := t.all isOpChar

def hdOp : List Str → Bool
  | [] => false
  | r :: _ => allOp r

/-- every run is non-empty and homogeneous, and its characters come from the text -/
theorem opRuns_homog (v : Str) : ∀ r ∈ opRuns v, r ≠ [] ∧ (∀ c ∈ r, ∀ d ∈ r, isOpChar c = isOpChar d) ∧ ∀ c ∈ r, c ∈ v := by
  induction v with
  | nil => intro r hr; simp [opRuns] at hr
  | cons c cs ih =>
    intro r hr
    unfold opRuns at hr
    cases ho : opRuns cs with
    | nil =>
      rw [ho] at hr
      simp only [List.mem_singleton] at hr
      subst hr
      exact ⟨by simp, by intro a ha b hb; simp at ha hb; rw [ha, hb], by intro a ha; simp at ha; simp [ha]⟩
    | cons r0 rs =>
      rw [ho] at hr ih
      have ih0 := ih r0 (by simp)
      cases hr0 : r0 with
      | nil => exact absurd hr0 ih0.1
      | cons d ds =>
        rw [hr0] at hr ih0
        simp only at hr
        split at hr
        · rename_i hsame
          simp only [List.mem_cons] at hr
          rcases hr with rfl | hr
          · refine ⟨by simp, ?_, ?_⟩
            · intro a ha b hb
              have key : ∀ x ∈ c :: d :: ds, isOpChar x = isOpChar d := by
                intro x hx
                rcases List.mem_cons.mp hx with rfl | hx
                · exact hsame
                · exact ih0.2.1 x hx d (by simp)
              rw [key a ha, key b hb]
            · intro a ha
              rcases List.mem_cons.mp ha with rfl | ha
              · simp
              · exact List.mem_cons_of_mem _ (ih0.2.2 a ha)
          · have := ih r (by simp [hr])
            exact ⟨this.1, this.2.1, fun a ha => List.mem_cons_of_mem _ (this.2.2 a ha)⟩
        · simp only [List.mem_cons] at hr
          rcases hr with rfl | rfl | hr
          · exact ⟨by simp, by intro a ha b hb; simp at ha hb; rw [ha, hb], by intro a ha; simp at ha; simp [ha]⟩
          · exact ⟨by simp, ih0.2.1, fun a ha => List.mem_cons_of_mem _ (ih0.2.2 a ha)⟩
          · have := ih r (by simp [hr])
            exact ⟨this.1, this.2.1, fun a ha => List.mem_cons_of_mem _ (this.2.2 a ha)⟩

theorem opRuns_cons_ne_nil (c : Char) (cs : Str) : opRuns (c :: cs) ≠ [] := by
  unfold opRuns
  cases opRuns cs with
  | nil => simp
  | cons r rs =>
    cases r with
    | nil => simp
    | cons d ds => simp only; split <;> simp

/-- the number of operator runs is the number of operators counted by the specification -/
theorem opRuns_count (v : Str) : (opRuns v).countP allOp = countRuns isOpChar v false ∧
    (hdOp (opRuns v) = headP isOpChar v) := by
  induction v with
  | nil => simp [opRuns, countRuns, headP, hdOp]
  | cons c cs ih =>
    obtain ⟨ihc, ihh⟩ := ih
    have hct := countRuns_true isOpChar cs
    unfold opRuns
    cases ho : opRuns cs with
    | nil =>
      rw [ho] at ihc ihh
      have hcs : cs = [] := by
        cases cs with
        | nil => rfl
        | cons x xs => exact absurd ho (opRuns_cons_ne_nil x xs)
      subst hcs
      by_cases hc : isOpChar c = true <;> simp [countRuns, headP, allOp, hdOp, hc]
    | cons r0 rs =>
      rw [ho] at ihc ihh
      have h0 := opRuns_homog cs r0 (by rw [ho]; simp)
      cases hr0 : r0 with
      | nil => exact absurd hr0 h0.1
      | cons d ds =>
        rw [hr0] at ihc ihh h0
        -- the head of the text is the head of the first run
        have hhead : headP isOpChar cs = isOpChar d := by
          have : allOp (d :: ds) = isOpChar d := by
            simp only [allOp, List.all_cons]
            cases hd : isOpChar d with
            | false => simp
            | true =>
              simp only [Bool.true_and, List.all_eq_true]
              intro x hx
              rw [h0.2.1 x (List.mem_cons_of_mem _ hx) d (by simp)]; exact hd
          simp only [hdOp] at ihh
          rw [← ihh, this]
        simp only
        split
        · rename_i hsame
          have hall : allOp (c :: d :: ds) = allOp (d :: ds) := by
            simp only [allOp, List.all_cons, hsame]
            cases isOpChar d <;> simp
          refine ⟨?_, ?_⟩
          · simp only [List.countP_cons, hall] at ihc ⊢
            rw [ihc]
            by_cases hc : isOpChar c = true
            · have hd : isOpChar d = true := by rw [← hsame]; exact hc
              simp only [countRuns, hc, if_true, Bool.false_eq_true, if_false]
              rw [hhead, hd] at hct
              simp only [if_true] at hct
              omega
            · simp [countRuns, hc]
          · simp only [hdOp, headP, hall]
            have : allOp (d :: ds) = isOpChar d := by
              simp only [hdOp] at ihh; rw [ihh]; exact hhead
            rw [this, hsame]
        · rename_i hdiff
          have hsingle : allOp [c] = isOpChar c := by simp [allOp]
          refine ⟨?_, by simp [hdOp, headP, hsingle]⟩
          simp only [List.countP_cons, hsingle] at ihc ⊢
          by_cases hc : isOpChar c = true
          · have hd : isOpChar d = false := by
              cases hd' : isOpChar d with
              | false => rfl
              | true => exact absurd (by rw [hc, hd']) hdiff
            simp only [countRuns, hc, if_true, Bool.false_eq_true, if_false]
            rw [hhead, hd] at hct
            simp only [Bool.false_eq_true, if_false] at hct
            omega
          · simp only [countRuns, hc, Bool.false_eq_true, if_false]
            omega


theorem strip_op_run (r : Str) (h : ∀ c ∈ r, isOpChar c = true) : strip r = r :=
  Proofs.VersionPrint.strip_id (fun c hc => opChars_not_space c (h c hc))

theorem strip_subset (r : Str) : ∀ c ∈ strip r, c ∈ r := by
  intro c hc
  exact lstrip_subset r c (rstrip_subset _ c hc)

theorem run_class (v r : Str) (hr : r ∈ opRuns v) : (∀ c ∈ r, isOpChar c = true) ∨ (∀ c ∈ r, isOpChar c = false) := by
  obtain ⟨hne, hh, _⟩ := opRuns_homog v r hr
  cases r with
  | nil => exact absurd rfl hne
  | cons d ds =>
    cases hd : isOpChar d with
    | true => left; intro c hc; rw [hh c hc d (by simp)]; exact hd
    | false => right; intro c hc; rw [hh c hc d (by simp)]; exact hd

theorem tokens_count (v : Str) : (opTokens v).countP allOp = (opRuns v).countP allOp := by
  unfold opTokens
  have key : ∀ rs : List Str, (∀ r ∈ rs, r ≠ [] ∧ ((∀ c ∈ r, isOpChar c = true) ∨ (∀ c ∈ r, isOpChar c = false))) →
      ((rs.map strip).filter (!·.isEmpty)).countP allOp = rs.countP allOp := by
    intro rs
    induction rs with
    | nil => intro _; rfl
    | cons r rs ih =>
      intro h
      have ihh := ih (fun x hx => h x (by simp [hx]))
      obtain ⟨hne, hcl⟩ := h r (by simp)
      simp only [List.map_cons, List.countP_cons]
      rcases hcl with hop | hnop
      · have hs := strip_op_run r hop
        have hie : r.isEmpty = false := by cases r <;> simp_all
        have ha : allOp r = true := List.all_eq_true.mpr hop
        simp only [List.filter_cons, hs, hie, Bool.not_false, if_true, List.countP_cons, ha, ihh]
      · have hna : allOp r = false := by
          cases r with
          | nil => exact absurd rfl hne
          | cons d ds => simp [allOp, hnop d (by simp)]
        by_cases hse : (strip r).isEmpty = true
        · simp only [List.filter_cons, hse, Bool.not_true, Bool.false_eq_true, if_false, hna, ihh]
          simp
        · have hse' : (strip r).isEmpty = false := by simpa using hse
          have hna2 : allOp (strip r) = false := by
            cases hsr : strip r with
            | nil => rw [hsr] at hse'; simp at hse'
            | cons d ds =>
              have : d ∈ r := strip_subset r d (by rw [hsr]; simp)
              simp [allOp, hnop d this]
          simp only [List.filter_cons, hse', Bool.not_false, if_true, List.countP_cons, hna2, hna, ihh]
  apply key
  intro r hr
  exact ⟨(opRuns_homog v r hr).1, run_class v r hr⟩

theorem tokens_all_op (v : Str) (h : hasOperand v = false) : ∀ t ∈ opTokens v, allOp t = true := by
  intro t ht
  simp only [opTokens, List.mem_filter, List.mem_map, Bool.not_eq_true'] at ht
  obtain ⟨⟨r, hr, rfl⟩, hne⟩ := ht
  rcases run_class v r hr with hop | hnop
  · rw [strip_op_run r hop]; exact List.all_eq_true.mpr hop
  · -- a run of non-operator characters without operand is blank
    exfalso
    have hall : ∀ c ∈ r, isSpace c = true := by
      intro c hc
      have hcv : c ∈ v := (opRuns_homog v r hr).2.2 c hc
      simp only [hasOperand, List.any_eq_false, Bool.and_eq_true, Bool.not_eq_true', not_and] at h
      have := h c hcv (hnop c hc)
      simpa using this
    have : strip r = [] := by
      have hb : isBlank r = true := List.all_eq_true.mpr hall
      unfold strip
      apply (rstrip_eq_nil_iff _).mpr
      rw [isBlank_lstrip]; exact hb
    rw [this] at hne; simp at hne

/-- **a malformed clause is rejected** by the final step of `parse_relationship` -/
theorem finish_bad (name v : Str) (archs : List Str) (h : badClause v = true) :
    finish name (some v) archs = .error .valueError := by
  have hcount : (opTokens v).countP allOp = nOperators v := by
    rw [tokens_count, (opRuns_count v).1]; rfl
  unfold finish
  simp only
  cases ht : opTokens v with
  | nil => rfl
  | cons a rest =>
    cases rest with
    | nil => rfl
    | cons b rest2 =>
      cases rest2 with
      | cons c r3 => rfl
      | nil =>
        simp only
        have hfl : ([a, b].filter fun t => t.all isOpChar).length = nOperators v := by
          rw [← hcount, ht, List.countP_eq_length_filter]; rfl
        simp only [badClause, Bool.or_eq_true, decide_eq_true_eq, Bool.not_eq_true'] at h
        rcases h with (h0 | hno) | h2
        · rw [hfl, h0]; simp
        · have ha := tokens_all_op v hno a (by rw [ht]; simp)
          have hb := tokens_all_op v hno b (by rw [ht]; simp)
          simp only [allOp] at ha hb
          simp [List.filter, ha, hb]
        · rw [hfl]
          have : ¬ nOperators v = 1 := by omega
          simp [this]


theorem mem_chars_of_all {p : Char → Bool} {s : Str} (h : s.all p = true) : ∀ c ∈ s, p c = true :=
  List.all_eq_true.mp h

/-- **the malformed clause**: the whole expression is rejected with ValueError -/
theorem parseDepends_bad (i : InputE) (h : wfE i = true) :
    parseDepends (i.name ++ " (".toList ++ i.clause ++ [')']) = .error .valueError := by
  simp only [wfE, Bool.and_eq_true, Bool.not_eq_true'] at h
  obtain ⟨⟨⟨⟨hname, hce⟩, hcb⟩, hcc⟩, hbad⟩ := h
  simp only [nameOk, Bool.and_eq_true, Bool.not_eq_true'] at hname
  obtain ⟨hnE, hnC⟩ := hname
  have hnC' := mem_chars_of_all hnC
  have hcC' := mem_chars_of_all hcc
  have hnfacts : ∀ c ∈ i.name, isSpace c = false ∧ c ≠ '(' ∧ c ≠ '[' ∧ c ≠ ',' ∧ c ≠ '|' := by
    intro c hc
    have := hnC' c hc
    simp only [Bool.and_eq_true, Bool.not_eq_true', bne_iff_ne] at this
    obtain ⟨⟨⟨⟨a, b⟩, c'⟩, d⟩, e⟩ := this
    exact ⟨a, b, c', d, e⟩
  have hcfacts : ∀ c ∈ i.clause, c ≠ ')' ∧ c ≠ ',' ∧ c ≠ '|' := by
    intro c hc
    have := hcC' c hc
    simp only [Bool.and_eq_true, bne_iff_ne] at this
    exact ⟨this.1.1, this.1.2, this.2⟩
  obtain ⟨n0, ns, hn⟩ : ∃ a b, i.name = a :: b := by
    cases hh : i.name with
    | nil => rw [hh] at hnE; simp at hnE
    | cons a b => exact ⟨a, b, rfl⟩
  let e : Str := i.name ++ " (".toList ++ i.clause ++ [')']
  have he : e = i.name ++ (' ' :: '(' :: (i.clause ++ [')'])) := by
    simp [e, List.append_assoc]
  -- no separator of either kind
  have hnocomma : ',' ∉ e := by
    rw [he]
    intro hm
    simp only [List.mem_append, List.mem_cons, List.not_mem_nil, or_false] at hm
    rcases hm with hm | hm | hm | hm | hm
    · exact (hnfacts _ hm).2.2.2.1 rfl
    · cases hm
    · cases hm
    · exact (hcfacts _ hm).2.1 rfl
    · cases hm
  have hnobar : '|' ∉ e := by
    rw [he]
    intro hm
    simp only [List.mem_append, List.mem_cons, List.not_mem_nil, or_false] at hm
    rcases hm with hm | hm | hm | hm | hm
    · exact (hnfacts _ hm).2.2.2.2 rfl
    · cases hm
    · cases hm
    · exact (hcfacts _ hm).2.2 rfl
    · cases hm
  -- stripping changes nothing
  have hstrip : strip e = e := by
    have hh : headP isSpace e = false := by
      rw [he, hn]; simp only [List.cons_append, headP]
      exact (hnfacts n0 (by rw [hn]; simp)).1
    have hl : lastP (fun c => !isSpace c) e = true := by
      have : e = (i.name ++ " (".toList ++ i.clause) ++ [')'] := rfl
      rw [this, lastP_append_cons, lastP_single]; decide
    unfold strip
    rw [lstrip_of_head hh, rstrip_of_last _ hl]
  have hene : e.isEmpty = false := by rw [he, hn]; rfl
  have hsplit : splitStripNonEmpty ',' e = [e] := by
    unfold splitStripNonEmpty
    rw [splitChar_not_mem ',' e hnocomma]
    simp [hstrip, hene]
  have hcont : e.contains '|' = false := by
    cases hc : e.contains '|' with
    | false => rfl
    | true => exact absurd (List.contains_iff_mem.mp hc) hnobar
  -- the single relationship
  have hrel : parseRelationship e = .error .valueError := by
    rw [parseRelationship_eq]
    have hnm : ∀ c ∈ i.name, (fun c => !notName c) c = true := by
      intro c hc
      obtain ⟨h1, h2, h3, _, _⟩ := hnfacts c hc
      have h4 : c ≠ ' ' := by intro e'; subst e'; rw [sp_space'] at h1; cases h1
      simp [notName, h2, h3, h4]
    have hr : headP (fun c => !notName c) (' ' :: '(' :: (i.clause ++ [')'])) = false := by
      simp [headP, notName]
    obtain ⟨ht, hd⟩ := takeDrop_append (fun c => !notName c) i.name _ hnm hr
    rw [← he] at ht hd
    rw [ht, hd]
    have hnie : i.name.isEmpty = false := by rw [hn]; rfl
    simp only [hnie, Bool.false_eq_true, if_false]
    have hds : dropWhileC isSpace (' ' :: '(' :: (i.clause ++ [')'])) = '(' :: (i.clause ++ ')' :: []) := by
      have := dropWhile_spaces [' '] ('(' :: (i.clause ++ [')'])) (by intro c hc; simp at hc; subst hc; decide) (by simp [headP]; decide)
      simpa using this
    rw [hds]
    have hcne : i.clause ≠ [] := by intro e'; rw [e'] at hce; simp at hce
    have hnp : ')' ∉ i.clause := fun hm => (hcfacts _ hm).1 rfl
    rw [bracketed_ok '(' ')' i.clause [] hcne hnp]
    exact finish_bad _ _ _ hbad
  show parseDepends e = _
  unfold parseDepends
  rw [hsplit]
  simp only [mapExcept, parseAlternatives, hcont, Bool.false_eq_true, if_false, hrel]

/-- **C14, the malformed-clause clause**: for every relationship whose bracketed clause has no comparison
operator, nothing but an operator, or more than one operator, `parse_depends` raises ValueError. -/
theorem soundE (i : InputE) : holdsOnE i (modelE i) = true := by
  unfold holdsOnE
  cases h : wfE i with
  | false => rfl
  | true =>
    simp only [Bool.not_true, Bool.false_or, modelE, parseDepends_bad i h]
    rfl


end Props.C14
