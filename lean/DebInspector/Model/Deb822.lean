/-
Functional mirror of `src/debian_inspector/deb822.py` (after the repair F3): the line-tracking
paragraph / field parser.

The generator `get_paragraphs_as_field_groups_from_lines` keeps `current_field` aliased to the last
element of `fields_group`; here the state is `Option (closed fields × open field)`, which removes
the aliasing, and the one-line look-ahead is a pattern match on the rest of the line list.
-/
import DebInspector.Py.Str
import DebInspector.Py.Exc

namespace Model.Deb822
open Py

structure NL where
  num : Nat
  val : Str
deriving Repr, DecidableEq

structure Fld where
  name : Str
  lines : List NL
deriving Repr, DecidableEq

/-- `NumberedLine.lines_from_text`: lines end at LF, CRLF or CR only; numbered from 1 -/
def numberFrom : Nat → List Str → List NL
  | _, [] => []
  | n, l :: ls => ⟨n, l⟩ :: numberFrom (n + 1) ls

def linesFromText (t : Str) : List NL := numberFrom 1 (splitLinesAscii t)

/-- `[a-z]` under `re.IGNORECASE`: ASCII letters and the four code points that case-fold to them -/
def isLetterIC (c : Char) : Bool :=
  isAsciiAlpha c || (Generated.azIgnoreCaseExtra.map (·.1)).contains c.toNat

/-- `[a-z0-9\-]` under `re.IGNORECASE` -/
def isNameChar (c : Char) : Bool := isLetterIC c || isAsciiDigit c || c = '-'

def dropNameChars : Str → Str
  | [] => []
  | c :: cs => if isNameChar c then dropNameChars cs else c :: cs

/-- `is_field_declaration`: `^[a-z]+[a-z0-9\-]*:.*$` (IGNORECASE) on a line without `\n` -/
def isDecl (l : Str) : Bool :=
  headP isLetterIC l && headP (· = ':') (dropNameChars l)

def dropBlanksTabs : Str → Str
  | [] => []
  | c :: cs => if c = ' ' || c = '\t' then dropBlanksTabs cs else c :: cs

/-- `is_field_continuation`: `^[ \t]+.*[\S]+.*$` — indented with a space or a tab, and not blank (`\S` of `re` is the
complement of `str.isspace`: `Tie.reSpace_eq`) -/
def isCont (l : Str) : Bool :=
  headP (fun c => c = ' ' || c = '\t') l && !isBlank l

/-- `str.lower()` on one character of a field name -/
def lowerNameChar (c : Char) : Str :=
  match Generated.azIgnoreCaseExtra.lookup c.toNat with
  | some cs => cs.map Char.ofNat
  | none => [lowerAsciiChar c]

def lowerName (s : Str) : Str := (s.map lowerNameChar).flatten

def licence : Str := "licence".toList
def license : Str := "license".toList

/-- `Deb822Field.from_line` on a declaration line -/
def fromLine (l : NL) : Fld :=
  let p := partitionChar ':' l.val
  let name := lowerName (strip p.1)
  let name := if name = licence then license else name
  ⟨name, [⟨l.num, strip p.2.2⟩]⟩

/-- `Deb822Field.rstrip` on the list of lines: drop trailing lines whose value is blank -/
def rstripLines : List NL → List NL
  | [] => []
  | l :: ls =>
    match rstripLines ls with
    | [] => if isBlank l.val then [] else [l]
    | r => l :: r

def clean (g : List Fld) : List Fld := g.map fun f => { f with lines := rstripLines f.lines }

/-- state: fields already closed in the current paragraph (in order) and the open field -/
abbrev St := Option (List Fld × Fld)

def flush : St → List (List Fld)
  | none => []
  | some (done, cur) => [clean (done ++ [cur])]

def addLine (s : List Fld × Fld) (l : NL) : List Fld × Fld :=
  (s.1, { s.2 with lines := s.2.lines ++ [l] })

def unknownName : Str := "unknown".toList

/-- the generator loop of `get_paragraphs_as_field_groups_from_lines` -/
def go : St → List NL → List (List Fld)
  | st, [] => flush st
  | st, l :: rest =>
    if isBlank l.val then
      match st, rest with
      | some s, n :: _ =>
        if !isDecl n.val && !isBlank n.val then go (some (addLine s ⟨l.num, rstrip l.val⟩)) rest
        else flush st ++ go none rest
      | _, _ => flush st ++ go none rest
    else match st with
      | some s =>
        if isCont l.val then go (some (addLine s ⟨l.num, rstrip l.val⟩)) rest
        else if isDecl l.val then go (some (s.1 ++ [s.2], fromLine l)) rest
        else flush st ++ [[⟨unknownName, [l]⟩]] ++ go none rest
      | none =>
        if isDecl l.val then go (some ([], fromLine l)) rest
        else [[⟨unknownName, [l]⟩]] ++ go none rest

/-- `get_paragraphs_as_field_groups(text)` -/
def parse (t : Str) : List (List Fld) := go none (linesFromText t)

end Model.Deb822
