/-
Functional mirror of `src/debian_inspector/version.py` (after the repairs F1, F2).
One Lean function per Python function, same control flow; exceptions are `Except PyExc`.
-/
import DebInspector.Py.Str
import DebInspector.Py.Exc
import DebInspector.Generated.VersionTables

namespace Model.Version
open Py

structure Ver where
  epoch : Nat
  upstream : Str
  revision : Str
deriving Repr, DecidableEq

/-! ### `_is_valid_version` : hand recogniser for
`^(\d+:)?\d([A-Za-z0-9.+\-~]*[A-Za-z0-9]|[A-Za-z0-9.+~]*[A-Za-z0-9]-[A-Za-z0-9+.~]*[A-Za-z0-9~])?$`
with `re.ASCII`.  The input never ends in a newline here (it has been stripped), so `$` is the
end of the string. -/

/-- `[A-Za-z0-9.+~]` -/
def isRevChar (c : Char) : Bool := isAsciiAlnum c || c = '.' || c = '+' || c = '~'
/-- `[A-Za-z0-9.+\-~]` -/
def isUpChar (c : Char) : Bool := isRevChar c || c = '-'

/-- first alternative: `[A-Za-z0-9.+\-~]*[A-Za-z0-9]` -/
def altA (r : Str) : Bool :=
  r.all isUpChar && lastP isAsciiAlnum r

/-- second alternative: `[A-Za-z0-9.+~]*[A-Za-z0-9]-[A-Za-z0-9+.~]*[A-Za-z0-9~]` -/
def altB (r : Str) : Bool :=
  let p := partitionChar '-' r
  p.2.1 &&
  p.1.all isRevChar && lastP isAsciiAlnum p.1 &&
  p.2.2.all isRevChar && lastP (fun c => isAsciiAlnum c || c = '~') p.2.2

/-- `\d(...)?$` -/
def afterEpoch (s : Str) : Bool :=
  headP isAsciiDigit s && (s.tail.isEmpty || altA s.tail || altB s.tail)

/-- the whole pattern: `(\d+:)?` is taken exactly when the string starts with digits and a colon
(otherwise the colon cannot be matched by anything that follows) -/
def isValidVersion (s : Str) : Bool :=
  let p := partitionChar ':' s
  if p.2.1 && !p.1.isEmpty && p.1.all isAsciiDigit then afterEpoch p.2.2
  else afterEpoch s

/-- `int(s)` for a string of ASCII digits, with CPython's `int_max_str_digits` limit -/
def pyIntDigits (s : Str) : Except PyExc Nat :=
  if Generated.intMaxStrDigits ≠ 0 ∧ s.length > Generated.intMaxStrDigits then .error .valueError
  else .ok (digitsVal s)

/-- the epoch step of `from_string`: `(epoch, rest)` -/
def parseEpoch (t : Str) : Except PyExc (Nat × Str) :=
  if t.contains ':' then
    let p := partitionChar ':' t
    match pyIntDigits p.1 with
    | .ok e => .ok (e, p.2.2)
    | .error x => .error x
  else .ok (0, t)

/-- the revision step of `from_string` -/
def parseRevision (epoch : Nat) (rest : Str) : Ver :=
  if rest.contains '-' then
    let p := rpartitionChar '-' rest
    ⟨epoch, p.1, p.2.2⟩
  else ⟨epoch, rest, ['0']⟩

/-- `Version.from_string` on a `str` argument -/
def fromString (version : Str) : Except PyExc Ver :=
  let t := strip version
  if t.isEmpty then .error .valueError
  else if !isValidVersion t then .error .valueError
  else
    match parseEpoch t with
    | .error x => .error x
    | .ok er => .ok (parseRevision er.1 er.2)

/-- the `epoch:upstream` (or `upstream`) part of `Version.__str__` -/
def verPrefix (v : Ver) : Str :=
  if v.epoch ≠ 0 then natToStr v.epoch ++ ':' :: v.upstream else v.upstream

/-- `Version.__str__` (revision is never `None` for parsed versions) -/
def toStr (v : Ver) : Str :=
  if v.revision ≠ ['0'] || (verPrefix v).contains '-' || !isValidVersion (verPrefix v) then
    verPrefix v ++ '-' :: v.revision
  else verPrefix v

/-! ### comparison -/

/-- `mapping.get(c)` on `characters_order`; `none` = Python `None` -/
def rank (key : Str) : Option Int := Generated.charOrder.lookup (String.ofList key)

def isDigitCh (c : Char) : Bool := isDigitU c

/-- `get_non_digit_prefix`: (prefix, remaining) -/
def getNonDigitPrefix : Str → Str × Str
  | [] => ([], [])
  | c :: cs =>
    if isDigitCh c then ([], c :: cs)
    else let r := getNonDigitPrefix cs; (c :: r.1, r.2)

/-- `get_digit_prefix`: (value, remaining); `int(ch)` of a non-ASCII digit is outside the model -/
def getDigitPrefixAux : Nat → Str → Except PyExc (Nat × Str)
  | v, [] => .ok (v, [])
  | v, c :: cs =>
    if isDigitCh c then
      if isAsciiDigit c then getDigitPrefixAux (v * 10 + (c.toNat - 48)) cs
      else .error .outOfModel
    else .ok (v, c :: cs)

def getDigitPrefix (s : Str) : Except PyExc (Nat × Str) := getDigitPrefixAux 0 s

/-- `zip_longest(p1, p2, fillvalue="")`; `none` is the fill value `""` -/
def zipLongest : Str → Str → List (Option Char × Option Char)
  | [], bs => bs.map fun b => (none, some b)
  | a :: as, [] => (some a, none) :: zipLongest as []
  | a :: as, b :: bs => (some a, some b) :: zipLongest as bs

def rankOf : Option Char → Option Int
  | none => rank []
  | some c => rank [c]

/-- the `for c1, c2 in zip_longest(...)` loop: `some r` = returned `r`, `none` = fell through.
`None < x` raises `TypeError`. -/
def lexPairs : List (Option Char × Option Char) → Except PyExc (Option Int)
  | [] => .ok none
  | (a, b) :: rest =>
    match rankOf a, rankOf b with
    | some o1, some o2 =>
      if o1 < o2 then .ok (some (-1))
      else if o1 > o2 then .ok (some 1)
      else lexPairs rest
    | _, _ => .error .typeError

def lexLoop (p1 p2 : Str) : Except PyExc (Option Int) := lexPairs (zipLongest p1 p2)

/-- one iteration of the `while v1 or v2` loop: `inl r` = return `r`; `inr (v1, v2)` = continue -/
def cmpStep (v1 v2 : Str) : Except PyExc (Int ⊕ (Str × Str)) :=
  let n1 := getNonDigitPrefix v1
  let n2 := getNonDigitPrefix v2
  match (if n1.1 ≠ n2.1 then lexLoop n1.1 n2.1 else .ok none) with
  | .error e => .error e
  | .ok (some r) => .ok (.inl r)
  | .ok none =>
    match getDigitPrefix n1.2 with
    | .error e => .error e
    | .ok d1 =>
      match getDigitPrefix n2.2 with
      | .error e => .error e
      | .ok d2 =>
        if d1.1 < d2.1 then .ok (.inl (-1))
        else if d1.1 > d2.1 then .ok (.inl 1)
        else .ok (.inr (d1.2, d2.2))

/-- `compare_strings`, the loop unrolled with fuel (each iteration consumes at least one
character while either list is non-empty, so `|v1| + |v2|` iterations always suffice) -/
def compareStringsFuel : Nat → Str → Str → Except PyExc Int
  | 0, _, _ => .ok 0
  | n + 1, v1, v2 =>
    if v1.isEmpty && v2.isEmpty then .ok 0
    else
      match cmpStep v1 v2 with
      | .error e => .error e
      | .ok (.inl r) => .ok r
      | .ok (.inr w) => compareStringsFuel n w.1 w.2

def compareStrings (v1 v2 : Str) : Except PyExc Int :=
  compareStringsFuel (v1.length + v2.length) v1 v2

/-- `compare_version_objects` -/
def compareVersionObjects (a b : Ver) : Except PyExc Int :=
  if a.epoch < b.epoch then .ok (-1)
  else if a.epoch > b.epoch then .ok 1
  else
    match compareStrings a.upstream b.upstream with
    | .error e => .error e
    | .ok r =>
      if r ≠ 0 then .ok r
      else if !a.revision.isEmpty || !b.revision.isEmpty then compareStrings a.revision b.revision
      else .ok 0

/-- `compare_versions` on two strings (`coerce_version` = `from_string`) -/
def compareVersions (a b : Str) : Except PyExc Int :=
  match fromString a with
  | .error e => .error e
  | .ok va =>
    match fromString b with
    | .error e => .error e
    | .ok vb => compareVersionObjects va vb

/-- `eval_constraint` from the three-way result: the operator table is `Generated.ops` -/
def evalOp (op : String) (r : Int) : Except PyExc Bool :=
  match Generated.ops.lookup op with
  | some (lt, eq, gt) =>
    match (if r < 0 then lt else if r = 0 then eq else gt) with
    | some b => .ok b
    | none => .error .valueError
  | none => .error .valueError

/-- `eval_constraint(version1, operator, version2)` on strings -/
def evalConstraint (a : Str) (op : String) (b : Str) : Except PyExc Bool :=
  match compareVersions a b with
  | .error e => .error e
  | .ok r => evalOp op r

end Model.Version
