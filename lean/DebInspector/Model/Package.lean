/-
Functional mirror of `src/debian_inspector/package.py`: file-name parsing and latest-version
selection.
-/
import DebInspector.Model.Version
import DebInspector.Generated.PackageTables

namespace Model.Package
open Py Model.Version

/-- `os.path.basename` (posix) -/
def basename (p : Str) : Str :=
  let r := rpartitionChar '/' p
  r.2.2

/-- `s.rpartition(sep)` for a non-empty multi-character separator: `(before, after)` of the last
occurrence -/
def rpartitionStr (sep : Str) : Str → Option (Str × Str)
  | [] => none
  | c :: cs =>
    match rpartitionStr sep cs with
    | some (a, b) => some (c :: a, b)
    | none => if startsWith (c :: cs) sep then some ([], (c :: cs).drop sep.length) else none

/-- `os.path.splitext` on a string without `/`: split at the last dot unless only dots precede it -/
def splitext (p : Str) : Str × Str :=
  let r := rpartitionChar '.' p
  if r.2.1 && !r.1.all (· = '.') then (r.1, '.' :: r.2.2) else (p, [])

def endsWithAny (s : Str) (sufs : List String) : Bool := sufs.any fun suf => endsWith s suf.toList

def tupleAt (i : Nat) : List String := Generated.nvaTuples.getD i []

/-- the recognised-extension step of `get_nva`: `some basename` when `is_known` -/
def knownBasename (filename : Str) : Option Str :=
  if endsWithAny filename (tupleAt 0) then some (splitext filename).1
  else if endsWithAny filename (tupleAt 1) then some (rpartitionChar '_' filename).1
  else if endsWithAny filename (tupleAt 2) then
    match rpartitionStr ".tar.".toList filename with
    | some (b, _) =>
      let sp := splitext b
      if (tupleAt 3).any (fun t => t.toList = sp.2) then some sp.1 else none
    | none => none
  else none

/-- `get_nva(filename)` : name, version, architecture-or-None -/
def getNva (filename : Str) : Except PyExc (Str × Ver × Option Str) :=
  match knownBasename filename with
  | none => .error .valueError
  | some b =>
    match splitChar '_' b with
    | [name, evr] =>
      match fromString evr with
      | .ok v => .ok (name, v, none)
      | .error e => .error e
    | [name, evr, arch] =>
      match fromString evr with
      | .ok v => .ok (name, v, some arch)
      | .error e => .error e
    | _ => .error .valueError

structure Archive where
  name : Str
  version : Ver
  arch : Option Str
  original : Str
deriving Repr, DecidableEq

/-- `DebArchive.from_filename` -/
def debFromFilename (filename : Str) : Except PyExc Archive :=
  match getNva (basename filename) with
  | .ok (n, v, a) => .ok ⟨n, v, a, filename⟩
  | .error e => .error e

/-! ### ordering of archives: tuples `(name, Version, architecture, original_filename)` -/

/-- `Version.__lt__` on parsed versions (never raises on parsed versions) -/
def verLt (a b : Ver) : Bool :=
  match compareVersionObjects a b with
  | .ok r => decide (r < 0)
  | .error _ => false

/-- Python tuple `<`: first position where the elements are not `==`, then `<` there.
`none` = a comparison raised (`None < str`). -/
def archiveLt (a b : Archive) : Option Bool :=
  if a.name ≠ b.name then some (strLt a.name b.name)
  else if a.version ≠ b.version then some (verLt a.version b.version)
  else if a.arch ≠ b.arch then
    match a.arch, b.arch with
    | some x, some y => some (strLt x y)
    | _, _ => none
  else some (strLt a.original b.original)

/-- do two archives have order-equal but different versions (then tuple `<` is not a strict weak
order and the exact output of `sorted` is outside the model) -/
def sameClassDifferent (a b : Archive) : Bool :=
  a.name = b.name && a.version ≠ b.version && !verLt a.version b.version && !verLt b.version a.version

def insertA (x : Archive) : List Archive → Option (List Archive)
  | [] => some [x]
  | y :: ys =>
    match archiveLt x y with
    | none => none
    | some true => some (x :: y :: ys)
    | some false => (insertA x ys).map (y :: ·)

/-- stable insertion sort; `none` = a comparison raised `TypeError` -/
def sortA (l : List Archive) : Option (List Archive) :=
  l.foldl (fun acc x => acc.bind (insertA x)) (some [])

def dedupNames : List Str → List Str
  | [] => []
  | x :: xs => if xs.contains x then dedupNames xs else x :: dedupNames xs

def inModel (ps : List Archive) : Bool :=
  ps.all fun a => ps.all fun b => !sameClassDifferent a b

/-! ### `sorted()` as CPython 3.12 runs it on fewer than 64 elements: `count_run`, then binary insertion

The order of the comparisons is that of `Objects/listobject.c`, so the model answers what the implementation answers
whatever `<` is — also when tuple `<` is not a strict weak order (order-equal versions spelled differently). -/

/-- the rest of an ascending run after `prev`: each next element is not `<` the one before it -/
def ascRun : Archive → List Archive → Option (List Archive × List Archive)
  | _, [] => some ([], [])
  | prev, x :: xs =>
    match archiveLt x prev with
    | none => none
    | some true => some ([], x :: xs)
    | some false => (ascRun x xs).map fun r => (x :: r.1, r.2)

/-- the rest of a strictly descending run after `prev`: each next element is `<` the one before it -/
def descRun : Archive → List Archive → Option (List Archive × List Archive)
  | _, [] => some ([], [])
  | prev, x :: xs =>
    match archiveLt x prev with
    | none => none
    | some false => some ([], x :: xs)
    | some true => (descRun x xs).map fun r => (x :: r.1, r.2)

/-- `count_run` followed by `reverse_slice` for a descending run: `(the first run in ascending order, the rest)` -/
def countRun : List Archive → Option (List Archive × List Archive)
  | [] => some ([], [])
  | [a] => some ([a], [])
  | a :: b :: rest =>
    match archiveLt b a with
    | none => none
    | some true => (descRun b rest).map fun r => ((a :: b :: r.1).reverse, r.2)
    | some false => (ascRun b rest).map fun r => (a :: b :: r.1, r.2)

/-- the binary search of `binarysort`: the position of `pivot` in the sorted prefix `pre`, looking in `[l, r)` -/
def bsearch (pivot : Archive) (pre : List Archive) : Nat → Nat → Nat → Option Nat
  | 0, l, _ => some l
  | fuel + 1, l, r =>
    if l < r then
      let p := l + (r - l) / 2
      match pre[p]? with
      | none => some l
      | some e =>
        match archiveLt pivot e with
        | none => none
        | some true => bsearch pivot pre fuel l p
        | some false => bsearch pivot pre fuel (p + 1) r
    else some l

def binInsert (pre : List Archive) (pivot : Archive) : Option (List Archive) :=
  (bsearch pivot pre (pre.length + 1) 0 pre.length).map fun l => pre.take l ++ pivot :: pre.drop l

/-- `list.sort` on fewer than 64 elements; `none` = a comparison raised `TypeError` -/
def binSort (l : List Archive) : Option (List Archive) :=
  match countRun l with
  | none => none
  | some (run, rest) => rest.foldl (fun acc x => acc.bind (binInsert · x)) (some run)

/-- `sorted(packages)`: exact below 64 elements; from 64 on (merges of runs) only for lists on which tuple `<` is a
strict weak order, where every stable sort gives the same list -/
def sortPy (ps : List Archive) : Except PyExc (List Archive) :=
  if ps.length < 64 then
    match binSort ps with
    | some s => .ok s
    | none => .error .typeError
  else if !inModel ps then .error .outOfModel
  else
    match sortA ps with
    | some s => .ok s
    | none => .error .typeError

/-- `find_latest_version(packages)` on file names; `none` list = Python returns `None` -/
def findLatestVersion (fns : List Str) : Except PyExc (Option Archive) :=
  if fns.isEmpty then .ok none else
  match fns.mapM debFromFilename with
  | .error e => .error e
  | .ok ps =>
    match sortPy ps with
    | .error e => .error e
    | .ok sorted =>
      if (dedupNames (sorted.map (·.name))).length > 1 then .error .valueError
      else .ok sorted.getLast?

/-- `itertools.groupby(packages, key=name)` on a list: maximal runs of equal names -/
def groupRuns : List Archive → List (Str × List Archive)
  | [] => []
  | a :: as =>
    match groupRuns as with
    | (n, g) :: rest => if n = a.name then (n, a :: g) :: rest else (a.name, [a]) :: (n, g) :: rest
    | [] => [(a.name, [a])]

/-- `find_latest_versions(packages)`: insertion-ordered mapping name ↦ latest -/
def findLatestVersions (fns : List Str) : Except PyExc (Option (List (Str × Archive))) :=
  if fns.isEmpty then .ok none else
  match fns.mapM debFromFilename with
  | .error e => .error e
  | .ok ps =>
    match sortPy ps with
    | .error e => .error e
    | .ok sorted =>
      -- each group is sorted again (a no-op on a run of a sorted list: `count_run` takes the whole group for one
      -- ascending run) and its last element taken
      .ok (some ((groupRuns sorted).filterMap fun (n, g) => g.getLast?.map fun a => (n, a)))

end Model.Package
