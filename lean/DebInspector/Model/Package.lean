/-
Functional mirror of `src/debian_inspector/package.py`: file-name parsing and latest-version
selection.
-/
import DebInspector.Model.Version
import DebInspector.Generated.PackageTables

namespace Model.Package
open Py Model.Version

/-- `os.path.basename` (posix) -/
def basename (p : Str) : Str :=
  let r := rpartitionChar '/' p
  r.2.2

/-- `s.rpartition(sep)` for a non-empty multi-character separator: `(before, after)` of the last
occurrence -/
def rpartitionStr (sep : Str) : Str → Option (Str × Str)
  | [] => none
  | c :: cs =>
    match rpartitionStr sep cs with
    | some (a, b) => some (c :: a, b)
    | none => if startsWith (c :: cs) sep then some ([], (c :: cs).drop sep.length) else none

/-- `os.path.splitext` on a string without `/`: split at the last dot unless only dots precede it -/
def splitext (p : Str) : Str × Str :=
  let r := rpartitionChar '.' p
  if r.2.1 && !r.1.all (· = '.') then (r.1, '.' :: r.2.2) else (p, [])

def endsWithAny (s : Str) (sufs : List String) : Bool := sufs.any fun suf => endsWith s suf.toList

def tupleAt (i : Nat) : List String := Generated.nvaTuples.getD i []

/-- the recognised-extension step of `get_nva`: `some basename` when `is_known` -/
def knownBasename (filename : Str) : Option Str :=
  if endsWithAny filename (tupleAt 0) then some (splitext filename).1
  else if endsWithAny filename (tupleAt 1) then some (rpartitionChar '_' filename).1
  else if endsWithAny filename (tupleAt 2) then
    match rpartitionStr ".tar.".toList filename with
    | some (b, _) =>
      let sp := splitext b
      if (tupleAt 3).any (fun t => t.toList = sp.2) then some sp.1 else none
    | none => none
  else none

/-- `get_nva(filename)` : name, version, architecture-or-None -/
def getNva (filename : Str) : Except PyExc (Str × Ver × Option Str) :=
  match knownBasename filename with
  | none => .error .valueError
  | some b =>
    match splitChar '_' b with
    | [name, evr] =>
      match fromString evr with
      | .ok v => .ok (name, v, none)
      | .error e => .error e
    | [name, evr, arch] =>
      match fromString evr with
      | .ok v => .ok (name, v, some arch)
      | .error e => .error e
    | _ => .error .valueError

structure Archive where
  name : Str
  version : Ver
  arch : Option Str
  original : Str
deriving Repr, DecidableEq

/-- `DebArchive.from_filename` -/
def debFromFilename (filename : Str) : Except PyExc Archive :=
  match getNva (basename filename) with
  | .ok (n, v, a) => .ok ⟨n, v, a, filename⟩
  | .error e => .error e

/-! ### ordering of archives: tuples `(name, Version, architecture, original_filename)` -/

/-- `Version.__lt__` on parsed versions (never raises on parsed versions) -/
def verLt (a b : Ver) : Bool :=
  match compareVersionObjects a b with
  | .ok r => decide (r < 0)
  | .error _ => false

/-- Python tuple `<`: first position where the elements are not `==`, then `<` there.
`none` = a comparison raised (`None < str`). -/
def archiveLt (a b : Archive) : Option Bool :=
  if a.name ≠ b.name then some (strLt a.name b.name)
  else if a.version ≠ b.version then some (verLt a.version b.version)
  else if a.arch ≠ b.arch then
    match a.arch, b.arch with
    | some x, some y => some (strLt x y)
    | _, _ => none
  else some (strLt a.original b.original)

/-- do two archives have order-equal but different versions (then tuple `<` is not a strict weak
order and the exact output of `sorted` is outside the model) -/
def sameClassDifferent (a b : Archive) : Bool :=
  a.name = b.name && a.version ≠ b.version && !verLt a.version b.version && !verLt b.version a.version

def insertA (x : Archive) : List Archive → Option (List Archive)
  | [] => some [x]
  | y :: ys =>
    match archiveLt x y with
    | none => none
    | some true => some (x :: y :: ys)
    | some false => (insertA x ys).map (y :: ·)

/-- stable insertion sort; `none` = a comparison raised `TypeError` -/
def sortA (l : List Archive) : Option (List Archive) :=
  l.foldl (fun acc x => acc.bind (insertA x)) (some [])

def dedupNames : List Str → List Str
  | [] => []
  | x :: xs => if xs.contains x then dedupNames xs else x :: dedupNames xs

def inModel (ps : List Archive) : Bool :=
  ps.all fun a => ps.all fun b => !sameClassDifferent a b

/-- `find_latest_version(packages)` on file names; `none` list = Python returns `None` -/
def findLatestVersion (fns : List Str) : Except PyExc (Option Archive) :=
  if fns.isEmpty then .ok none else
  match fns.mapM debFromFilename with
  | .error e => .error e
  | .ok ps =>
    if !inModel ps then .error .outOfModel else
    match sortA ps with
    | none => .error .typeError
    | some sorted =>
      if (dedupNames (sorted.map (·.name))).length > 1 then .error .valueError
      else .ok sorted.getLast?

/-- `itertools.groupby(packages, key=name)` on a list: maximal runs of equal names -/
def groupRuns : List Archive → List (Str × List Archive)
  | [] => []
  | a :: as =>
    match groupRuns as with
    | (n, g) :: rest => if n = a.name then (n, a :: g) :: rest else (a.name, [a]) :: (n, g) :: rest
    | [] => [(a.name, [a])]

/-- `find_latest_versions(packages)`: insertion-ordered mapping name ↦ latest -/
def findLatestVersions (fns : List Str) : Except PyExc (Option (List (Str × Archive))) :=
  if fns.isEmpty then .ok none else
  match fns.mapM debFromFilename with
  | .error e => .error e
  | .ok ps =>
    if !inModel ps then .error .outOfModel else
    match sortA ps with
    | none => .error .typeError
    | some sorted =>
      -- each group is sorted again (a no-op on a sorted run) and its last element taken
      .ok (some ((groupRuns sorted).filterMap fun (n, g) => g.getLast?.map fun a => (n, a)))

end Model.Package
