/-
Functional mirror of the matching half of `src/debian_inspector/deps.py` and of
`package.match_relationships`.  (The parsing half is in `Model/DepsParse.lean`.)
-/
import DebInspector.Model.Version

namespace Model.Deps
open Py Model.Version

inductive Rel where
  | simple (name : Str) (archs : List Str)
  | versioned (name : Str) (op : Str) (version : Str) (archs : List Str)
  | or (rs : List Rel)
  | and (rs : List Rel)
deriving Repr, Inhabited

/-- `True` / `False` / `None` -/
inductive Tri where
  | t | f | n
deriving Repr, DecidableEq, Inhabited

def Tri.ofBool : Bool → Tri | true => .t | false => .f

mutual
/-- `rel.matches(name, version)`; `version = none` is Python `None` or the empty string -/
def relMatches (name : Str) (version : Option Str) : Rel → Except PyExc Tri
  | .simple n archs =>
    if n = name then
      if !archs.isEmpty then .error .notImplementedError else .ok .t
    else .ok .n
  | .versioned n op v archs =>
    if n = name then
      match version with
      | some cand =>
        if !archs.isEmpty then .error .notImplementedError
        else
          match evalConstraint cand (String.ofList op) v with
          | .ok b => .ok (Tri.ofBool b)
          | .error e => .error e
      | none => .ok .f
    else .ok .n
  | .or rs => matchesOr name version rs .n
  | .and rs =>
    match matchesAll name version rs with
    | .error e => .error e
    | .ok results =>
      let ms := results.filter (· ≠ .n)
      if ms.isEmpty then .ok .n else .ok (Tri.ofBool (ms.all (· = .t)))

/-- the loop of `OrRelationships.matches`; `acc` is the running `matches` variable -/
def matchesOr (name : Str) (version : Option Str) : List Rel → Tri → Except PyExc Tri
  | [], acc => .ok acc
  | r :: rs, acc =>
    match relMatches name version r with
    | .error e => .error e
    | .ok .t => .ok .t
    | .ok .f => matchesOr name version rs .f
    | .ok .n => matchesOr name version rs acc

/-- the generator of `AndRelationships.matches`, fully consumed by the list comprehension -/
def matchesAll (name : Str) (version : Option Str) : List Rel → Except PyExc (List Tri)
  | [] => .ok []
  | r :: rs =>
    match relMatches name version r with
    | .error e => .error e
    | .ok x =>
      match matchesAll name version rs with
      | .error e => .error e
      | .ok xs => .ok (x :: xs)
end

/-- `package.match_relationships(archive, relationship_sets)` with the archive's name and version -/
def matchRelationships (name : Str) (version : Option Str) : List Rel → Tri → Except PyExc Tri
  | [], acc => .ok acc
  | r :: rs, acc =>
    match relMatches name version r with
    | .error e => .error e
    | .ok .t => matchRelationships name version rs (if acc = .f then .f else .t)
    | .ok .f => .ok .f
    | .ok .n => matchRelationships name version rs acc

end Model.Deps
