/-
Functional mirror of `src/debian_inspector/contents.py`: the per-line body of `parse_contents` as a
fold over the lines of the file.  Reading the file (plain or gzip, decoding, line iteration) is
outside the model: the function starts from the list of lines.
-/
import DebInspector.Py.Str
import DebInspector.Py.Exc

namespace Model.Contents
open Py

/-- insertion-ordered `defaultdict(list)` -/
abbrev Dict := List (Str × List Str)

/-- `d[k].append(v)` -/
def appendTo : Dict → Str → Str → Dict
  | [], k, v => [(k, [v])]
  | (k', vs) :: rest, k, v => if k' = k then (k', vs ++ [v]) :: rest else (k', vs) :: appendTo rest k v

/-- the `(left, right)` of `line.strip().rpartition(' ')`, both stripped -/
def splitLine (line : Str) : Str × Str :=
  let r := rpartitionChar ' ' (strip line)
  (strip r.1, strip r.2.2)

/-- `archsec_name.rpartition('/')[2]` -/
def bareName (q : Str) : Str := (rpartitionChar '/' q).2.2

def isHeaderRow (lr : Str × Str) : Bool := lr.1 = "FILE".toList && lr.2 = "LOCATION".toList

structure St where
  inTable : Bool
  byPath : Dict
  byPkg : Dict

def addRow (s : St) (path : Str) (names : List Str) : St :=
  names.foldl (fun s n => { s with byPath := appendTo s.byPath path n, byPkg := appendTo s.byPkg n path }) s

/-- one iteration of the `for line in lines` loop -/
def step (hasHeader : Bool) (s : St) (line : Str) : Except PyExc St :=
  let lr := splitLine line
  if isHeaderRow lr then
    if !hasHeader then .error .exception
    else .ok { s with inTable := true }
  else if !s.inTable then .ok s
  else .ok (addRow s lr.1 ((splitChar ',' lr.2).map bareName))

def run (hasHeader : Bool) : St → List Str → Except PyExc St
  | s, [] => .ok s
  | s, l :: ls =>
    match step hasHeader s l with
    | .error e => .error e
    | .ok s' => run hasHeader s' ls

/-- `parse_contents` from the list of lines of the file -/
def parseContents (lines : List Str) (hasHeader : Bool) : Except PyExc (Dict × Dict) :=
  match run hasHeader ⟨!hasHeader, [], []⟩ lines with
  | .error e => .error e
  | .ok s => if !s.inTable then .error .exception else .ok (s.byPath, s.byPkg)

/-- iteration over a text file: pieces between `\n`, without a final empty piece -/
def fileLines (text : Str) : List Str :=
  let ps := splitChar '\n' text
  match ps.getLast? with
  | some [] => ps.dropLast
  | _ => ps

end Model.Contents
