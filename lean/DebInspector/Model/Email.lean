/-
Model of what `debcon.get_paragraph_data` delegates to the standard library:
`email.parser.HeaderParser().parsestr(text)` under the `compat32` policy (feedparser line splitting,
`headerRE`, continuation lines, unix-from, the four header defects, `header_source_parse`,
headers-only payload), followed by `get_paragraph_data` itself, `split_in_paragraphs` and
`get_paragraphs_data` (after the repairs F5, F6, F7).

The standard-library part is *modelled, not verified*: it is tied to CPython by its own
correspondence stream.
-/
import DebInspector.Py.Str
import DebInspector.Py.Exc

namespace Model.Email
open Py

/-- lines with their terminators, split at `\n`, `\r\n`, `\r` (a `StringIO(newline='')`).
`cur`: current line reversed; `cr`: it ends with a `\r` that may still be followed by `\n` -/
def splitKeepEndsAux : Str → Str → Bool → List Str
  | [], cur, _ => if cur.isEmpty then [] else [cur.reverse]
  | c :: rest, cur, cr =>
    if cr then
      if c = '\n' then (c :: cur).reverse :: splitKeepEndsAux rest [] false
      else if c = '\r' then cur.reverse :: splitKeepEndsAux rest [c] true
      else cur.reverse :: splitKeepEndsAux rest [c] false
    else
      if c = '\n' then (c :: cur).reverse :: splitKeepEndsAux rest [] false
      else if c = '\r' then splitKeepEndsAux rest (c :: cur) true
      else splitKeepEndsAux rest (c :: cur) false

def splitKeepEnds (t : Str) : List Str := splitKeepEndsAux t [] false

/-- `[\041-\071\073-\176]`: printable ASCII except space and colon -/
def isHeaderNameChar (c : Char) : Bool := (0x21 ≤ c.toNat && c.toNat ≤ 0x39) || (0x3b ≤ c.toNat && c.toNat ≤ 0x7e)

def dropNameChars : Str → Str
  | [] => []
  | c :: cs => if isHeaderNameChar c then dropNameChars cs else c :: cs

def fromSpace : Str := "From ".toList

/-- `headerRE = ^(From |[\041-\071\073-\176]*:|[\t ])` -/
def isHeaderLine (l : Str) : Bool :=
  startsWith l fromSpace || headP (· = ':') (dropNameChars l) || headP (fun c => c = '\t' || c = ' ') l

/-- `NLCRE.match(line)`: the line starts with a line terminator -/
def startsWithNl (l : Str) : Bool := headP (fun c => c = '\n' || c = '\r') l

/-- strip one trailing `\r\n`, `\r` or `\n` (`NLCRE_eol`) -/
def stripEol (l : Str) : Str :=
  if endsWith l ['\r', '\n'] then l.dropLast.dropLast
  else if endsWith l ['\n'] || endsWith l ['\r'] then l.dropLast
  else l

/-- `s.rstrip('\r\n')` -/
def rstripCrLf : Str → Str
  | [] => []
  | c :: cs =>
    match rstripCrLf cs with
    | [] => if c = '\r' || c = '\n' then [] else [c]
    | r => c :: r

def lstripSpTab : Str → Str
  | [] => []
  | c :: cs => if c = ' ' || c = '\t' then lstripSpTab cs else c :: cs

/-- compat32 `header_source_parse(sourcelines)` -/
def headerSourceParse (first : Str) (rest : List Str) : Str × Str :=
  let p := partitionChar ':' first
  (p.1, rstripCrLf (lstripSpTab p.2.2 ++ rest.flatten))

structure Parsed where
  headers : List (Str × Str)
  unixfrom : Option Str
  defects : Bool
  pushedBack : Option Str        -- a trailing "From " line pushed back into the body
deriving Repr

structure HSt where
  last : Option (Str × List Str)   -- first source line of the open header, continuation lines
  acc : Parsed

def flushHeader (s : HSt) : HSt :=
  match s.last with
  | some (first, conts) => { last := none, acc := { s.acc with headers := s.acc.headers ++ [headerSourceParse first conts] } }
  | none => s

/-- `_parse_headers(lines)`; `idx` is `lineno`, `n` is `len(lines)` -/
def parseHeaderLines (n : Nat) : Nat → HSt → List Str → HSt
  | _, s, [] => flushHeader s
  | idx, s, line :: rest =>
    if headP (fun c => c = ' ' || c = '\t') line then
      match s.last with
      | none => parseHeaderLines n (idx + 1) { s with acc := { s.acc with defects := true } } rest
      | some (f, cs) => parseHeaderLines n (idx + 1) { s with last := some (f, cs ++ [line]) } rest
    else
      let s := flushHeader s
      if startsWith line fromSpace then
        if idx = 0 then parseHeaderLines n (idx + 1) { s with acc := { s.acc with unixfrom := some (stripEol line) } } rest
        else if idx = n - 1 then { s with acc := { s.acc with pushedBack := some line } }
        else parseHeaderLines n (idx + 1) { s with acc := { s.acc with defects := true } } rest
      else if headP (· = ':') line then
        parseHeaderLines n (idx + 1) { s with acc := { s.acc with defects := true } } rest
      else parseHeaderLines n (idx + 1) { s with last := some (line, []) } rest

/-- the header block: the maximal prefix of header lines; then what stops it -/
def takeHeaderLines : List Str → List Str × List Str
  | [] => ([], [])
  | l :: ls => if isHeaderLine l then let r := takeHeaderLines ls; (l :: r.1, r.2) else ([], l :: ls)

structure Message where
  headers : List (Str × Str)
  unixfrom : Option Str
  defects : Bool
  payload : Str
deriving Repr

/-- `HeaderParser().parsestr(text)` -/
def parseHeaders (text : Str) : Message :=
  let lines := splitKeepEnds text
  let (hdr, rest) := takeHeaderLines lines
  -- the line that ended the header block: a separator is thrown away, anything else is a defect and body
  let (sepDefect, body) := match rest with
    | [] => (false, [])
    | l :: ls => if startsWithNl l then (false, ls) else (true, l :: ls)
  let st := parseHeaderLines hdr.length 0 ⟨none, ⟨[], none, false, none⟩⟩ hdr
  let body := (match st.acc.pushedBack with | some l => [l] | none => []) ++ body
  { headers := st.acc.headers, unixfrom := st.acc.unixfrom,
    defects := st.acc.defects || sepDefect, payload := body.flatten }

/-! ### `get_paragraph_data` -/

abbrev Dict := List (Str × Str)

def dset : Dict → Str → Str → Dict
  | [], k, v => [(k, v)]
  | (k', v') :: rest, k, v => if k' = k then (k', v) :: rest else (k', v') :: dset rest k v

def joinNl : List Str → Str
  | [] => []
  | [l] => l
  | l :: ls => l ++ '\n' :: joinNl ls

def unknownKey : Str := "unknown".toList

/-- the distinct values seen so far under each name, in insertion order of the names -/
abbrev VDict := List (Str × List Str)

def vset : VDict → Str → List Str → VDict
  | [], k, v => [(k, v)]
  | (k', v') :: rest, k, v => if k' = k then (k', v) :: rest else (k', v') :: vset rest k v

/-- one iteration of the merging loop over `(name, value)` items: a repeated name keeps each distinct
non-empty value once, whole -/
def mergeStep (data : VDict) (nv : Str × Str) : VDict :=
  let name := strip (lowerAscii nv.1)
  let value := strip nv.2
  let values := (data.lookup name).getD []
  vset data name (if value.isEmpty || values.contains value then values else values ++ [value])

/-- the merging loop over `(name, value)` items; `data[name] = '\n'.join(values)` -/
def mergeItems (items : List (Str × Str)) : Dict :=
  (items.foldl mergeStep []).map fun kv => (kv.1, joinNl kv.2)

/-- `get_paragraph_data(text)` (without signature removal) -/
def getParagraphData (text : Str) : Dict :=
  if text.isEmpty then [(unknownKey, text)] else
  let m := parseHeaders text
  if m.headers.isEmpty || m.defects then [(unknownKey, text)] else
  let items := m.headers ++ (if m.payload.isEmpty then [] else [(unknownKey, m.payload)])
  let items := (match m.unixfrom with | some u => if u.isEmpty then [] else [(unknownKey, u)] | none => []) ++ items
  mergeItems items

def dropWhileSpTab : Str → Str
  | [] => []
  | c :: cs => if c = ' ' || c = '\t' then dropWhileSpTab cs else c :: cs

/-- consume `(?:[ \t]*\n)*` greedily -/
def skipBlankLines : Nat → Str → Str
  | 0, s => s
  | fuel + 1, s =>
    match dropWhileSpTab s with
    | '\n' :: rest => skipBlankLines fuel rest
    | _ => s

/-- `re.split(r'\n\n(?:[ \t]*\n)*', text)` -/
def splitParagraphsAux : Nat → Str → Str → List Str
  | 0, _, cur => [cur.reverse]
  | _ + 1, [], cur => [cur.reverse]
  | fuel + 1, c :: rest, cur =>
    if c = '\n' && headP (· = '\n') rest then
      cur.reverse :: splitParagraphsAux fuel (skipBlankLines rest.length rest.tail) []
    else splitParagraphsAux fuel rest (c :: cur)

/-- `split_in_paragraphs(text)` -/
def splitInParagraphs (text : Str) : List Str :=
  (splitParagraphsAux (text.length + 1) text []).filter (!·.isEmpty)

/-- `get_paragraphs_data(text)` -/
def getParagraphsData (text : Str) : List Dict := (splitInParagraphs text).map getParagraphData

end Model.Email
