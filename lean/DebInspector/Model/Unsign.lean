/-
Functional mirror of `src/debian_inspector/unsign.py` (after the repair F11).  The verbose regular
expression `pgp_signed` is modelled at the level of lines: every alternative of the pattern starts
with `^`, `.` does not cross `\n`, and header / base64 / CRC / END lines are mutually exclusive, so
the backtracking search reduces to: leftmost start line; signed-message group first (Hash group
first, then without), the *longest* clear text after which a full armor block matches; otherwise
the armor block alone.
-/
import DebInspector.Py.Str
import DebInspector.Py.Exc

namespace Model.Unsign
open Py

def beginSigned : Str := "-----BEGIN PGP SIGNED MESSAGE-----".toList
def endSignature : Str := "-----END PGP SIGNATURE-----".toList
def beginPgp : Str := "-----BEGIN PGP ".toList
def endPgp : Str := "-----END PGP ".toList
def dashes : Str := "-----".toList

/-- `is_signed(text)` -/
def isSigned (text : Str) : Bool :=
  let t := strip text
  !text.isEmpty && !t.isEmpty && startsWith t beginSigned && endsWith t endSignature

def stripCr (l : Str) : Str := if lastP (· = '\r') l then l.dropLast else l

def isB64 (c : Char) : Bool := isAsciiAlnum c || c = '+' || c = '/'
def isMagicChar (c : Char) : Bool := isAsciiUpper c || isAsciiDigit c || c = ' ' || c = ','
def isHashChar (c : Char) : Bool := isAsciiAlnum c || c = '-' || c = ','

/-- `-----BEGIN PGP <magic>-----` (an optional trailing `\r` already removed): the magic text -/
def magicOf (l : Str) : Option Str :=
  if startsWith l beginPgp && endsWith l dashes && l.length ≥ beginPgp.length + dashes.length + 1 then
    let m := (l.drop beginPgp.length).take (l.length - beginPgp.length - dashes.length)
    if !m.isEmpty && m.all isMagicChar then some m else none
  else none

/-- `(?=.+:\ .).+` : a colon-space with at least one character before and one after -/
def hasColonSpace : Str → Bool
  | _ :: ':' :: ' ' :: _ :: _ => true
  | _ :: rest => hasColonSpace rest
  | [] => false

/-- `[A-Za-z0-9+/]{1,76}={,2}` -/
def isBodyLine (l : Str) : Bool :=
  let b := l.takeWhile isB64
  let r := l.dropWhile isB64
  1 ≤ b.length && b.length ≤ 76 && r.length ≤ 2 && r.all (· = '=')

/-- `=XXXX` -/
def isCrcLine (l : Str) : Bool :=
  match l with
  | '=' :: r => r.length = 4 && r.all isB64
  | _ => false

/-- A list of lines as produced by `text.split('\n')`: every element but the last is followed by `\n`. -/
abbrev Lines := List Str

def dropHeaderLines : Lines → Lines
  | l :: (m :: rest) => if hasColonSpace l then dropHeaderLines (m :: rest) else l :: m :: rest
  | ls => ls

def dropBodyLines : Lines → Lines × Nat
  | l :: (m :: rest) =>
    if isBodyLine (stripCr l) then let r := dropBodyLines (m :: rest); (r.1, r.2 + 1) else (l :: m :: rest, 0)
  | ls => (ls, 0)

/-- the armor block matches at the start of these lines -/
def armorMatches (ls : Lines) : Bool :=
  match ls with
  | l0 :: (l1 :: rest) =>
    match magicOf (stripCr l0) with
    | none => false
    | some magic =>
      let r1 := dropHeaderLines (l1 :: rest)
      -- optional empty line (it must be terminated)
      let r2 := match r1 with
        | e :: (n :: more) => if (stripCr e).isEmpty then n :: more else r1
        | _ => r1
      let (r3, nbody) := dropBodyLines r2
      nbody ≥ 1 &&
      (match r3 with
       | crc :: (endl :: _) => isCrcLine (stripCr crc) && startsWith endl (endPgp ++ magic ++ dashes)
       | _ => false)
  | _ => false

def joinNl : List Str → Str
  | [] => []
  | [l] => l
  | l :: ls => l ++ '\n' :: joinNl ls

/-- the longest clear text `ls[0..e]` (with `e + 1 < |ls|`) such that line `e + 1` starts with five
dashes and the armor block matches there; `revTried` accumulates from the far end -/
def longestClear (ls : Lines) : Option Str :=
  let n := ls.length
  (List.range n).reverse.findSome? fun e =>
    if e + 1 < n && startsWith (ls.getD (e + 1) []) dashes && armorMatches (ls.drop (e + 1))
    then some (joinNl (ls.take (e + 1))) else none

inductive Found where
  | clear (t : Str)      -- the signed-message group matched: its clear text
  | armorOnly            -- only an armor block matched: the group did not participate
deriving Repr

/-- try to match at the start of these lines -/
def matchAt (ls : Lines) : Option Found :=
  let signed : Option Str :=
    match ls with
    | l0 :: (l1 :: rest) =>
      if stripCr l0 = beginSigned then
        -- Hash group first
        let withHash : Option Str :=
          match l1 :: rest with
          | h :: (e :: (m :: more)) =>
            let hl := stripCr h
            if startsWith hl "Hash: ".toList && !(hl.drop 6).isEmpty && (hl.drop 6).all isHashChar && (stripCr e).isEmpty
            then longestClear (m :: more) else none
          | _ => none
        match withHash with
        | some t => some t
        | none => longestClear (l1 :: rest)
      else none
    | _ => none
  match signed with
  | some t => some (.clear t)
  | none => if armorMatches ls then some .armorOnly else none

/-- leftmost match over the line starts -/
def search : Lines → Option Found
  | [] => none
  | l :: ls =>
    match matchAt (l :: ls) with
    | some f => some f
    | none => search ls

/-- `remove_signature(text)` -/
def removeSignature (text : Str) : Str :=
  if !isSigned text then text else
  match search (splitChar '\n' text) with
  | some (.clear t) => t
  | _ => text

end Model.Unsign
