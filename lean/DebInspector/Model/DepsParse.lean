/-
Functional mirror of the parsing half of `src/debian_inspector/deps.py`.
-/
import DebInspector.Model.Deps

namespace Model.DepsParse
open Py Model.Deps

def takeWhileC (p : Char → Bool) : Str → Str
  | [] => []
  | c :: cs => if p c then c :: takeWhileC p cs else []

def dropWhileC (p : Char → Bool) : Str → Str
  | [] => []
  | c :: cs => if p c then dropWhileC p cs else c :: cs

/-- an optional bracketed group `open [^close]+ close` at the start of `s`: the captured text and the
rest; `none` when it does not match (then the regex matches the empty string there) -/
def bracketed (opn cls : Char) (s : Str) : Option (Str × Str) :=
  match s with
  | c :: rest =>
    if c = opn then
      let inner := takeWhileC (· ≠ cls) rest
      let after := dropWhileC (· ≠ cls) rest
      if !inner.isEmpty && headP (· = cls) after then some (inner, after.tail) else none
    else none
  | [] => none

def isOpChar (c : Char) : Bool := c = '<' || c = '>' || c = '='

/-- `re.compile('([<>=]+)').split(s)`: maximal runs of operator / non-operator characters -/
def opRuns : Str → List Str
  | [] => []
  | c :: cs =>
    match opRuns cs with
    | [] => [[c]]
    | r :: rs =>
      match r with
      | d :: _ => if isOpChar c = isOpChar d then (c :: r) :: rs else [c] :: r :: rs
      | [] => [c] :: rs

/-- `[t.strip() for t in split_on_ops(version) if t and t.strip()]` -/
def opTokens (version : Str) : List Str := ((opRuns version).map strip).filter (!·.isEmpty)

/-- `parse_relationship(expression)` -/
def parseRelationship (expr : Str) : Except PyExc Rel :=
  let notName := fun c => c = '(' || c = '[' || c = ' '
  let name := takeWhileC (fun c => !notName c) expr
  if name.isEmpty then .error .attributeError else
  let r1 := dropWhileC isSpace (dropWhileC (fun c => !notName c) expr)
  let (version, r2) := match bracketed '(' ')' r1 with
    | some (v, rest) => (some v, rest)
    | none => (none, r1)
  let r3 := dropWhileC isSpace r2
  let archs := match bracketed '[' ']' r3 with
    | some (a, _) => splitWs a
    | none => []
  match version with
  | none => .ok (.simple name archs)
  | some v =>
    match opTokens v with
    | [op, ver] =>
      -- exactly one of the two tokens is a run of operator characters (F12)
      if (([op, ver].filter fun t => t.all isOpChar).length = 1) then .ok (.versioned name op ver archs)
      else .error .valueError
    | _ => .error .valueError

def mapExcept {α β} (f : α → Except PyExc β) : List α → Except PyExc (List β)
  | [] => .ok []
  | a :: as =>
    match f a with
    | .error e => .error e
    | .ok b =>
      match mapExcept f as with
      | .error e => .error e
      | .ok bs => .ok (b :: bs)

def splitStripNonEmpty (sep : Char) (s : Str) : List Str :=
  ((splitChar sep s).map strip).filter (!·.isEmpty)

/-- `parse_alternatives(expression)` -/
def parseAlternatives (expr : Str) : Except PyExc Rel :=
  if expr.contains '|' then
    match mapExcept parseRelationship (splitStripNonEmpty '|' expr) with
    | .error e => .error e
    | .ok rs => .ok (.or rs)
  else parseRelationship expr

/-- `parse_depends(relationships)` on a string -/
def parseDepends (s : Str) : Except PyExc Rel :=
  match mapExcept parseAlternatives (splitStripNonEmpty ',' s) with
  | .error e => .error e
  | .ok rs => .ok (.and rs)

/-! ### `__str__` and `names` -/

def archSuffix (archs : List Str) : Str :=
  if archs.isEmpty then [] else " [".toList ++ join [' '] archs ++ [']']

mutual
def relStr : Rel → Str
  | .simple n archs => n ++ archSuffix archs
  | .versioned n op v archs => n ++ " (".toList ++ op ++ [' '] ++ v ++ [')'] ++ archSuffix archs
  | .or rs => join " | ".toList (relStrs rs)
  | .and rs => join ", ".toList (relStrs rs)
def relStrs : List Rel → List Str
  | [] => []
  | r :: rs => relStr r :: relStrs rs
end

mutual
def relNames : Rel → List Str
  | .simple n _ => [n]
  | .versioned n _ _ _ => [n]
  | .or rs => relNamesL rs
  | .and rs => relNamesL rs
def relNamesL : List Rel → List Str
  | [] => []
  | r :: rs => relNames r ++ relNamesL rs
end

end Model.DepsParse
