/-
Model of `email.utils.parseaddr(value)` (CPython 3.12, `email._parseaddr.AddrlistClass`) as far as
`MaintainerField.from_value` uses it: the first address of the field.  The parser state `(field, pos, commentlist)` is
the remaining input and the comments collected so far.  Nested recursion (comments inside comments, addresses inside
groups) takes a fuel argument: the length of the input always suffices.

The standard-library part is *modelled, not verified*: it is tied to CPython by its own correspondence stream.
-/
import DebInspector.Py.Str
import DebInspector.Py.Exc

namespace Model.Addr
open Py

def specials : Str := "()<>@,:;.\"[]".toList
def lws : Str := " \t".toList
def crs : Str := "\r\n".toList
def fws : Str := lws ++ crs
def atomends : Str := specials ++ lws ++ crs
def phraseends : Str := atomends.filter (· ≠ '.')

/-- `getdelimited` after its begin character: `(content, rest)`; `quote`: the previous character was a backslash -/
def getDelimited (endchars : Str) (allowComments : Bool) : Nat → Str → Bool → Str → Str × Str
  | 0, s, _, acc => (acc, s)
  | _, [], _, acc => (acc, [])
  | fuel + 1, c :: rest, quote, acc =>
    if quote then getDelimited endchars allowComments fuel rest false (acc ++ [c])
    else if endchars.contains c then (acc, rest)
    else if allowComments && c = '(' then
      -- a nested comment: its content is appended, parsing goes on after it
      let inner := getDelimited ")\r".toList true fuel rest false []
      getDelimited endchars allowComments fuel inner.2 false (acc ++ inner.1)
    else if c = '\\' then getDelimited endchars allowComments fuel rest true acc
    else getDelimited endchars allowComments fuel rest false (acc ++ [c])

/-- `getcomment()` at a `(`: `(comment, rest)` -/
def getComment (s : Str) : Str × Str :=
  match s with
  | '(' :: rest => getDelimited ")\r".toList true (rest.length + 1) rest false []
  | _ => ([], s)

/-- `getquote()` at a `"` -/
def getQuote (s : Str) : Str × Str :=
  match s with
  | '"' :: rest => getDelimited "\"\r".toList false (rest.length + 1) rest false []
  | _ => ([], s)

/-- `getdomainliteral()` at a `[` -/
def getDomainLiteral (s : Str) : Str × Str :=
  match s with
  | '[' :: rest =>
    let r := getDelimited "]\r".toList false (rest.length + 1) rest false []
    ('[' :: r.1 ++ [']'], r.2)
  | _ => ("[]".toList, s)

/-- `gotonext()`: `(white space kept, rest, comments)` -/
def gotoNext : Nat → Str → List Str → Str × Str × List Str
  | 0, s, cl => ([], s, cl)
  | _, [], cl => ([], [], cl)
  | fuel + 1, c :: rest, cl =>
    if lws.contains c || c = '\n' || c = '\r' then
      let r := gotoNext fuel rest cl
      ((if c = '\n' || c = '\r' then r.1 else c :: r.1), r.2.1, r.2.2)
    else if c = '(' then
      let cm := getComment (c :: rest)
      gotoNext fuel cm.2 (cl ++ [cm.1])
    else ([], c :: rest, cl)

/-- `getatom(atomends)` -/
def getAtom (ends : Str) : Str → Str × Str
  | [] => ([], [])
  | c :: rest => if ends.contains c then ([], c :: rest) else let r := getAtom ends rest; (c :: r.1, r.2)

/-- `getphraselist()`: `(phrases, rest, comments)` -/
def getPhraseList : Nat → Str → List Str → List Str × Str × List Str
  | 0, s, cl => ([], s, cl)
  | _, [], cl => ([], [], cl)
  | fuel + 1, c :: rest, cl =>
    if fws.contains c then getPhraseList fuel rest cl
    else if c = '"' then
      let q := getQuote (c :: rest)
      let r := getPhraseList fuel q.2 cl
      (q.1 :: r.1, r.2.1, r.2.2)
    else if c = '(' then
      let cm := getComment (c :: rest)
      getPhraseList fuel cm.2 (cl ++ [cm.1])
    else if phraseends.contains c then ([], c :: rest, cl)
    else
      let a := getAtom phraseends (c :: rest)
      let r := getPhraseList fuel a.2 cl
      (a.1 :: r.1, r.2.1, r.2.2)

/-- `getdomain()`: `(domain, rest, comments)` -/
def getDomain : Nat → Str → List Str → Str × Str × List Str
  | 0, s, cl => ([], s, cl)
  | _, [], cl => ([], [], cl)
  | fuel + 1, c :: rest, cl =>
    if lws.contains c then getDomain fuel rest cl
    else if c = '(' then
      let cm := getComment (c :: rest)
      getDomain fuel cm.2 (cl ++ [cm.1])
    else if c = '[' then
      let d := getDomainLiteral (c :: rest)
      let r := getDomain fuel d.2 cl
      (d.1 ++ r.1, r.2.1, r.2.2)
    else if c = '.' then
      let r := getDomain fuel rest cl
      ('.' :: r.1, r.2.1, r.2.2)
    else if c = '@' then ([], c :: rest, cl)          -- bpo-34155: the whole domain is dropped (handled by the caller)
    else if atomends.contains c then ([], c :: rest, cl)
    else
      let a := getAtom atomends (c :: rest)
      let r := getDomain fuel a.2 cl
      (a.1 ++ r.1, r.2.1, r.2.2)

/-- does `getdomain` stop at a second `@` (then it returns the empty string) -/
def domainHitsAt : Nat → Str → Bool
  | 0, _ => false
  | _, [] => false
  | fuel + 1, c :: rest =>
    if lws.contains c then domainHitsAt fuel rest
    else if c = '(' then domainHitsAt fuel (getComment (c :: rest)).2
    else if c = '[' then domainHitsAt fuel (getDomainLiteral (c :: rest)).2
    else if c = '.' then domainHitsAt fuel rest
    else if c = '@' then true
    else if atomends.contains c then false
    else domainHitsAt fuel (getAtom atomends (c :: rest)).2

def isBlankPy (s : Str) : Bool := s.all isSpace

/-- `if aslist and not aslist[-1].strip(): aslist.pop()` -/
def popWs (l : List Str) : List Str :=
  match l.getLast? with
  | some x => if isBlankPy x then l.dropLast else l
  | none => l

/-- the loop of `getaddrspec()` over the local part: `(pieces, rest, comments)` -/
def addrSpecLoop : Nat → Str → List Str → List Str → List Str × Str × List Str
  | 0, s, cl, as => (as, s, cl)
  | _, [], cl, as => (as, [], cl)
  | fuel + 1, c :: rest, cl, as =>
    if c = '.' then
      let as := popWs as ++ [['.']]
      let g := gotoNext (rest.length + 1) rest cl
      addrSpecLoop fuel g.2.1 g.2.2 as
    else if c = '"' then
      let q := getQuote (c :: rest)
      -- `'"%s"' % quote(q)`: backslashes and double quotes escaped again
      let quoted := q.1.flatMap fun ch => if ch = '\\' || ch = '"' then ['\\', ch] else [ch]
      let as := as ++ ['"' :: quoted ++ ['"']]
      let g := gotoNext (q.2.length + 1) q.2 cl
      addrSpecLoop fuel g.2.1 g.2.2 (if g.1.isEmpty then as else as ++ [g.1])
    else if atomends.contains c then (popWs as, c :: rest, cl)
    else
      let a := getAtom atomends (c :: rest)
      let as := as ++ [a.1]
      let g := gotoNext (a.2.length + 1) a.2 cl
      addrSpecLoop fuel g.2.1 g.2.2 (if g.1.isEmpty then as else as ++ [g.1])

/-- `getaddrspec()`: `(addrspec, rest, comments)` -/
def getAddrSpec (s : Str) (cl : List Str) : Str × Str × List Str :=
  let g0 := gotoNext (s.length + 1) s cl
  let l := addrSpecLoop (g0.2.1.length + 1) g0.2.1 g0.2.2 []
  match l.2.1 with
  | '@' :: rest =>
    let g := gotoNext (rest.length + 1) rest l.2.2
    let d := getDomain (g.2.1.length + 1) g.2.1 g.2.2
    if domainHitsAt (g.2.1.length + 1) g.2.1 || d.1.isEmpty then ([], d.2.1, d.2.2)
    else (l.1.flatten ++ '@' :: d.1, d.2.1, d.2.2)
  | _ => (l.1.flatten, l.2.1, l.2.2)

/-- the loop of `getrouteaddr()` after `<` and `gotonext()`: `(addrspec, rest, comments)` -/
def routeLoop : Nat → Str → List Str → Bool → Str × Str × List Str
  | 0, s, cl, _ => ([], s, cl)
  | _, [], cl, _ => ([], [], cl)
  | fuel + 1, c :: rest, cl, expectRoute =>
    if expectRoute then
      let d := getDomain ((c :: rest).length + 1) (c :: rest) cl
      let g := gotoNext (d.2.1.length + 1) d.2.1 d.2.2
      routeLoop fuel g.2.1 g.2.2 false
    else if c = '>' then ([], rest, cl)
    else if c = '@' then
      let g := gotoNext (rest.length + 1) rest cl
      routeLoop fuel g.2.1 g.2.2 true
    else if c = ':' then
      let g := gotoNext (rest.length + 1) rest cl
      routeLoop fuel g.2.1 g.2.2 false
    else
      let a := getAddrSpec (c :: rest) cl
      (a.1, a.2.1.tail, a.2.2)            -- `self.pos += 1`

def joinSp : List Str → Str
  | [] => []
  | [x] => x
  | x :: xs => x ++ ' ' :: joinSp xs

/-- the first call of `getaddress()`: the first `(realname, address)` pair it returns, if any.  A group (`:` after the
phrase) is outside the model. -/
def firstAddress (field : Str) : Except PyExc (Option (Str × Str)) :=
  let g0 := gotoNext (field.length + 1) field []
  let p := getPhraseList (g0.2.1.length + 1) g0.2.1 g0.2.2
  let plist := p.1
  let g1 := gotoNext (p.2.1.length + 1) p.2.1 p.2.2
  match g1.2.1 with
  | [] => .ok (match plist with | x :: _ => some (joinSp g1.2.2, x) | [] => none)
  | c :: rest =>
    if c = '.' || c = '@' then
      -- an addr-spec only: start over from the old position; `oldcl` is an alias of the comment list, so the comments
      -- met so far are still there (and are collected a second time)
      let a := getAddrSpec g0.2.1 g1.2.2
      .ok (some (joinSp a.2.2, a.1))
    else if c = ':' then .error .outOfModel
    else if c = '<' then
      let g := gotoNext (rest.length + 1) rest g1.2.2
      let r := routeLoop (g.2.1.length + 1) g.2.1 g.2.2 false
      let cl := r.2.2
      if cl.isEmpty then .ok (some (joinSp plist, r.1))
      else .ok (some (joinSp plist ++ " (".toList ++ joinSp cl ++ [')'], r.1))
    else .ok (match plist with | x :: _ => some (joinSp g1.2.2, x) | [] => none)

/-- `email.utils.parseaddr(addr)` -/
def parseaddr (addr : Str) : Except PyExc (Str × Str) :=
  match firstAddress addr with
  | .error e => .error e
  | .ok (some na) => .ok na
  | .ok none => .ok ([], [])

/-- `MaintainerField.from_value(value)` for a non-empty value, then `(name, email_address, dumps())` -/
def maintainer (value : Str) : Except PyExc (Str × Option Str × Str) :=
  let v := strip value
  match parseaddr v with
  | .error e => .error e
  | .ok (n, e) =>
    let name := if n.isEmpty then v else n
    let email : Option Str := if n.isEmpty then none else some e
    let shown := match email with
      | some a => if a.isEmpty then name else name ++ " <".toList ++ a ++ ['>']
      | none => name
    .ok (name, email, strip shown)

end Model.Addr
