/-
Functional mirror of the control-paragraph half of `src/debian_inspector/debcon.py`:
`Debian822` as a mutable mapping, `normalize_control_field_name`, `parse_control_fields`,
`MaintainerField`.
-/
import DebInspector.Model.DepsParse
import DebInspector.Model.Email
import DebInspector.Model.Unsign
import DebInspector.Generated.DebconTables

namespace Model.Control
open Py

/-! ### Python `dict` with `str` values: insertion-ordered association list -/

abbrev PyDict := List (Str × Str)

/-- `d[k] = v`: overwrite keeps the position, a new key goes last -/
def dset : PyDict → Str → Str → PyDict
  | [], k, v => [(k, v)]
  | (k', v') :: rest, k, v => if k' = k then (k', v) :: rest else (k', v') :: dset rest k v

def dget (d : PyDict) (k : Str) : Option Str := d.lookup k

def ddel : PyDict → Str → Option PyDict
  | [], _ => none
  | (k', v') :: rest, k => if k' = k then some rest else (ddel rest k).map ((k', v') :: ·)

/-- `{f(k): v for k, v in items}` -/
def dictOf (lower : Str → Str) (items : List (Str × Str)) : PyDict :=
  items.foldl (fun d kv => dset d (lower kv.1) kv.2) []

/-! ### `Debian822` -/

inductive Route where
  | mapping (items : List (Str × Str))     -- a `dict` built from these items, in this order
  | pairs (items : List (Str × Str))       -- a sequence of (key, value) tuples
  | strings (lines : List Str)             -- a sequence of "Name: value" strings
  | empty                                  -- no data / empty container
  | text (t : Str)                         -- a text
  | file (t : Str)                         -- a file-like object whose `read()` returns `t`
deriving Repr

/-- `s.partition(': ')` as (key, value) -/
def partitionColonSpace : Str → Str × Str
  | [] => ([], [])
  | c :: cs =>
    if c = ':' && headP (· = ' ') cs then ([], cs.tail)
    else let r := partitionColonSpace cs; (c :: r.1, r.2)

/-- the mapping `Debian822.__init__` builds from a non-empty text: the header-style paragraph data of the text with a
PGP signature removed (`get_paragraph_data(text, remove_pgp_signature=True)`) -/
def fromTextNonEmpty (text : Str) : PyDict := Model.Email.getParagraphData (Model.Unsign.removeSignature text)

/-- `Debian822(text).data` / `Debian822(file).data`: an empty text gives the empty mapping -/
def fromText822 (text : Str) : PyDict := if text.isEmpty then [] else fromTextNonEmpty text

/-- `Debian822.__init__` -/
def construct (lower : Str → Str) : Route → PyDict
  | .mapping items =>
    if items.isEmpty then [] else dictOf lower (dictOf id items)
  | .pairs items => dictOf lower items
  | .strings ls => dictOf lower (ls.map partitionColonSpace)
  | .empty => []
  | .text t => fromText822 t
  | .file t => fromText822 t

inductive Op where
  | set (k v : Str) | get (k : Str) | del (k : Str) | mem (k : Str) | len | iter | toDict
deriving Repr

inductive Out where
  | none | str (s : Str) | bool (b : Bool) | int (n : Nat) | keys (ks : List Str)
  | items (kvs : List (Str × Str)) | keyError
deriving Repr, DecidableEq

/-- one method call on a `Debian822`: every key goes through `.lower()` then to the inner dict -/
def step (lower : Str → Str) (d : PyDict) : Op → PyDict × Out
  | .set k v => (dset d (lower k) v, .none)
  | .get k => (d, match dget d (lower k) with | some v => .str v | none => .keyError)
  | .del k => match ddel d (lower k) with | some d' => (d', .none) | none => (d, .keyError)
  | .mem k => (d, .bool (dget d (lower k)).isSome)
  | .len => (d, .int d.length)
  | .iter => (d, .keys (d.map (·.1)))
  | .toDict => (d, .items d)

def runOps (lower : Str → Str) : PyDict → List Op → List Out
  | _, [] => []
  | d, op :: ops => let r := step lower d op; r.2 :: runOps lower r.1 ops

/-! ### field-name normalisation (ASCII names) -/

/-- `str.capitalize()` on an ASCII word -/
def capitalizeAscii : Str → Str
  | [] => []
  | c :: cs => upperAsciiChar c :: cs.map lowerAsciiChar

/-- `special_cases` with character-list keys -/
def specialTable : List (Str × Str) := Generated.specialCases.map fun kv => (kv.1.toList, kv.2.toList)

/-- `normalize_control_field_name` -/
def normalizeName (name : Str) : Str :=
  join ['-'] ((splitChar '-' name).map fun w =>
    match specialTable.lookup (lowerAscii w) with
    | some s => s
    | none => capitalizeAscii w)

/-- `int(s)` for the shapes a size field can have: optional surrounding white space, an optional sign,
ASCII digits with single underscores between them.  Anything else (non-ASCII digits included) is
outside the model. -/
def pyInt (s : Str) : Except PyExc Int :=
  let t := strip s
  let (neg, body) := match t with
    | '-' :: r => (true, r)
    | '+' :: r => (false, r)
    | r => (false, r)
  if body.any (fun c => c.toNat > 127) then .error .outOfModel
  else
    let groups := splitChar '_' body
    if groups.all (fun g => !g.isEmpty && g.all isAsciiDigit) then
      let n : Nat := digitsVal (groups.flatten)
      if Generated.intMaxStrDigits ≠ 0 ∧ groups.flatten.length > Generated.intMaxStrDigits then .error .valueError
      else .ok (if neg then -(n : Int) else n)
    else .error .valueError

inductive Typed where
  | deps (r : Model.Deps.Rel)
  | int (n : Int)
  | raw (s : Str)

def tset : List (Str × Typed) → Str → Typed → List (Str × Typed)
  | [], k, v => [(k, v)]
  | (k', v') :: rest, k, v => if k' = k then (k', v) :: rest else (k', v') :: tset rest k v

/-- the typed values of `parse_control_fields(input_fields)` in input order -/
def parseControlItems : List (Str × Str) → Except PyExc (List (Str × Typed))
  | [] => .ok []
  | (name, v) :: rest =>
    let n := normalizeName name
    let typed : Except PyExc Typed :=
      if Generated.depsFields.contains (String.ofList n) then
        match Model.DepsParse.parseDepends v with
        | .ok r => .ok (.deps r)
        | .error e => .error e
      else if n = "Installed-Size".toList then
        match pyInt v with
        | .ok i => .ok (.int i)
        | .error e => .error e
      else .ok (.raw v)
    match typed with
    | .error e => .error e
    | .ok t =>
      match parseControlItems rest with
      | .error e => .error e
      | .ok ts => .ok ((n, t) :: ts)

/-- `parse_control_fields(input_fields)`: the output mapping (a later item with the same normalised
name overwrites the value and keeps the position) -/
def parseControlFields (items : List (Str × Str)) : Except PyExc (List (Str × Typed)) :=
  match parseControlItems items with
  | .error e => .error e
  | .ok ts => .ok (ts.foldl (fun d kv => tset d kv.1 kv.2) [])

end Model.Control
