/-
Functional mirror of the text-formatting half of `src/debian_inspector/debcon.py`
(after the repair F10): continuation-line encoding and decoding, and the field classes built on it.
-/
import DebInspector.Py.Str
import DebInspector.Py.Exc

namespace Model.Debcon
open Py

/-- `'\n '.join(pieces)` -/
def joinNlSp : List Str → Str
  | [] => []
  | [l] => l
  | l :: ls => l ++ '\n' :: ' ' :: joinNlSp ls

/-- `'\n'.join(pieces)` -/
def joinNl : List Str → Str
  | [] => []
  | [l] => l
  | l :: ls => l ++ '\n' :: joinNl ls

def encLine (l : Str) : Str := if isBlank l then ['.'] else l

/-- `as_formatted_lines(lines)` -/
def asFormattedLines (ls : List Str) : Str := joinNlSp (ls.map encLine)

/-- `as_formatted_text(text)` -/
def asFormattedText (t : Str) : Str := if t.isEmpty then t else asFormattedLines (splitlines t)

/-- `line_separated(value)` -/
def lineSeparated (v : Str) : List Str := if v.isEmpty then [] else splitlines v

/-- one continuation line of `from_formatted_lines` (after the first) -/
def decLine (line : Str) : Str :=
  let line := rstrip line
  if startsWith line [' ', ' '] then line.tail
  else if line = [' ', '.'] then []
  else if startsWith line [' ', '.'] then line.tail
  else strip line

/-- `from_formatted_lines(lines)` for a non-empty list (for `[]` Python returns the list itself) -/
def fromFormattedLines : List Str → Str
  | [] => []
  | l :: ls => joinNl (strip l :: ls.map decLine)

/-- `from_formatted_text(text)` -/
def fromFormattedText (t : Str) : Str := if t.isEmpty then t else fromFormattedLines (lineSeparated t)

/-! ### field classes: `dumps(from_value(v))` -/

/-- `FormattedTextField.from_value(v).dumps()` -/
def formattedTextRoundtrip (v : Str) : Str :=
  let text := if v.isEmpty then v else fromFormattedText v
  let lines := lineSeparated text
  if lines.isEmpty then [] else asFormattedLines lines

/-- `DescriptionField.from_value(v)`: (synopsis, text); `text = none` is the empty *list* Python
returns from `from_formatted_lines([])`, or `None` when the value has no lines -/
def descriptionFromValue (v : Str) : Str × Option Str :=
  match lineSeparated v with
  | [] => ([], none)
  | l :: ls => (strip l, if ls.isEmpty then none else some (fromFormattedLines ls))

/-- `DescriptionField(synopsis, text).dumps()` -/
def descriptionDumps (syn : Str) (text : Option Str) : Str :=
  let syn := strip syn
  match text with
  | none => syn
  | some text =>
    if text.isEmpty then syn
    else
      let text := if startsWith text [' '] then text.tail else text
      syn ++ '\n' :: ' ' :: asFormattedText text

def descriptionRoundtrip (v : Str) : Str :=
  let d := descriptionFromValue v
  descriptionDumps d.1 d.2

/-- `LicenseField.from_value(v)`: (name, text) -/
def licenseFromValue (v : Str) : Str × Option Str :=
  let d := descriptionFromValue v
  (d.1, d.2.map fun t => if t.isEmpty then t else lstrip t)

/-- `LicenseField(name, text).dumps()` -/
def licenseDumps (name : Str) (text : Option Str) : Str := strip (descriptionDumps name text)

def licenseRoundtrip (v : Str) : Str :=
  let d := licenseFromValue v
  licenseDumps d.1 d.2

end Model.Debcon
