/-
Functional mirror of `src/debian_inspector/copyright.py` (after the repairs F4, F8, F9): typed fields,
paragraph construction from deb822 fields, the two recovery rewrites (merge contiguous unknown
paragraphs, fold free text into an empty license), dictionary form, rendering, validity.
-/
import DebInspector.Model.Deb822
import DebInspector.Model.Debcon
import DebInspector.Model.Control
import DebInspector.Generated.CopyrightTables

namespace Model.Copyright
open Py Model.Deb822 Model.Debcon

/-! ### typed fields -/

inductive FV where
  | single (v : Option Str)
  | lineSep (vs : List Str)
  | wsSep (vs : List Str)
  | formatted (text : Option Str)
  | copyright (stmts : List (Option Str × Str))     -- (year_range, holder)
  | license (name : Str) (text : Option Str)
deriving Repr, DecidableEq

def yearPunct : Str := Generated.yearPunct.toList

/-- `is_year_range(text)` (truthiness) -/
def isYearRange (t : Str) : Bool :=
  !t.isEmpty && (t.all isDigitU || (t.all (yearPunct.contains ·) && t.any isDigitU))

/-- `CopyrightStatementField.from_value(v)` : (year_range, holder) -/
def statementFromValue (v : Str) : Option Str × Str :=
  let value := join [' '] (splitWs v)
  let p := partitionChar ' ' value
  let year := strip p.1
  let holder := strip p.2.2
  if isYearRange year then (some year, holder) else (none, value)

def statementDumps (s : Option Str × Str) : Str :=
  match s.1 with
  | some y => if y.isEmpty then strip s.2 else strip (y ++ ' ' :: s.2)
  | none => strip s.2

def copyrightJoin : Str := "\n           ".toList

/-- `X.from_value(value)` for the converter class named `kind`; `none` is Python `None` (field absent) -/
def fromValue (kind : String) (v : Option Str) : FV :=
  if kind = "SingleLineField" then .single (v.map strip)
  else if kind = "LineSeparatedField" then .lineSep (match v with | some s => (lineSeparated s).map strip | none => [])
  else if kind = "AnyWhiteSpaceSeparatedField" then .wsSep (match v with | some s => splitWs s | none => [])
  else if kind = "FormattedTextField" then .formatted (v.map fun s => if s.isEmpty then s else fromFormattedText s)
  else if kind = "CopyrightField" then
    .copyright (match v with | some s => (lineSeparated s).map statementFromValue | none => [])
  else
    let l := licenseFromValue (v.getD [])
    .license l.1 l.2

/-- `field.dumps()` -/
def dumps : FV → Str
  | .single v => v.getD []
  | .lineSep vs => joinNlSp vs
  | .wsSep vs => joinNlSp vs
  | .formatted text =>
    let lines := lineSeparated (text.getD [])
    if lines.isEmpty then [] else asFormattedLines lines
  | .copyright stmts => strip (join copyrightJoin (stmts.map statementDumps))
  | .license name text => licenseDumps name text

/-! ### paragraphs -/

inductive Kind where
  | header | files | license | catchall
deriving Repr, DecidableEq

/-- a value of `extra_data`: a string, or the empty list `from_formatted_lines([])` returns -/
inductive XV where
  | s (v : Str)
  | emptyList
deriving Repr, DecidableEq

structure Para where
  kind : Kind
  fields : List (Str × FV)
  extra : List (Str × XV)
  lines : List (Str × (Nat × Nat))
deriving Repr, DecidableEq

def classFields : Kind → List (String × String)
  | .header => Generated.headerFields
  | .files => Generated.filesFields
  | .license => Generated.licenseFields
  | .catchall => Generated.catchallFields

def internalNames : List String := ["extra_data", "line_numbers_by_field"]

/-- the declared, typed fields of a class in attribute order: (name, converter class) -/
def typedFields (k : Kind) : List (Str × String) :=
  ((classFields k).filter fun nc => !internalNames.contains nc.1).map fun nc => (nc.1.toList, nc.2)

def lset {α} : List (Str × α) → Str → α → List (Str × α)
  | [], k, v => [(k, v)]
  | (k', v') :: rest, k, v => if k' = k then (k', v) :: rest else (k', v') :: lset rest k v

/-- the `while name in seen_names` renaming loop; fuel = `|seen| + 1` always suffices -/
def freshName (seen : List Str) (base : Str) : Nat → Str → Nat → Option (Str × Nat)
  | 0, _, _ => none
  | fuel + 1, name, suffix =>
    if seen.contains name then freshName seen base fuel (base ++ '_' :: natToStr suffix) (suffix + 1)
    else some (name, suffix)

def fieldText (f : Fld) : Str := joinNl (f.lines.map (·.val))

structure Acc where
  known : List (Str × Str)
  extra : List (Str × XV)
  lines : List (Str × (Nat × Nat))
  seen : List Str
  suffix : Nat

/-- the loop body of `BaseParagraph.from_fields` -/
def addField (knownNames : List Str) (a : Acc) (f : Fld) : Except PyExc Acc :=
  let value := fieldText f
  if value.isEmpty then .ok a else
  let name0 := replaceChar '-' '_' f.name
  match freshName a.seen name0 (a.seen.length + 1) name0 a.suffix with
  | none => .error .outOfModel
  | some (name, suffix) =>
    let isKnown := knownNames.contains name
    -- `assert name not in mapping`
    if (isKnown && (a.known.lookup name).isSome) || (!isKnown && (a.extra.lookup name).isSome) then
      .error .assertionError
    else
      match f.lines.head?, f.lines.getLast? with
      | some first, some last =>
        let skipped := (f.lines.takeWhile fun l => isBlank l.val).length
        let a' := { a with seen := a.seen ++ [name], suffix := suffix,
                           lines := lset a.lines name (first.num + skipped, last.num) }
        if isKnown then .ok { a' with known := a'.known ++ [(name, lstrip value)] }
        else .ok { a' with extra := a'.extra ++ [(name, .s (lstrip value))] }
      | _, _ => .error .indexError

def addFields (knownNames : List Str) : Acc → List Fld → Except PyExc Acc
  | a, [] => .ok a
  | a, f :: fs =>
    match addField knownNames a f with
    | .error e => .error e
    | .ok a' => addFields knownNames a' fs

/-- `cls.from_fields(fields)` -/
def fromFields (k : Kind) (fields : List Fld) : Except PyExc Para :=
  let tf := typedFields k
  let knownNames := if k = .catchall then [] else tf.map (·.1)
  match addFields knownNames ⟨[], [], [], [], 1⟩ fields with
  | .error e => .error e
  | .ok a =>
    .ok { kind := k,
          fields := tf.map fun nc => (nc.1, fromValue nc.2 (a.known.lookup nc.1)),
          extra := a.extra, lines := a.lines }

/-- classification of one fields group -/
def classify (fields : List Fld) : Kind :=
  let names := fields.map (·.name)
  if names.contains "format".toList || names.contains "format-specification".toList then .header
  else if names.contains "files".toList then .files
  else if names.contains "license".toList then .license
  else .catchall

/-! ### dictionary form -/

/-- a value of the dictionary form: a string or (for a merged paragraph without content) the empty list -/
abbrev DV := XV

/-- `para.to_dict()` without line numbers -/
def extraOut : DV → DV
  | .s v => .s (if v.isEmpty then v else asFormattedText v)
  | .emptyList => .emptyList

def toDict (p : Para) : List (Str × DV) :=
  let known : List (Str × DV) := p.fields.map fun nf => (nf.1, .s (dumps nf.2))
  p.extra.foldl (fun d nv => lset d nv.1 (extraOut nv.2)) known

def dvTruthy : DV → Bool
  | .s v => !v.isEmpty
  | .emptyList => false

/-- `CatchAllParagraph.is_all_unknown()` -/
def isAllUnknown (p : Para) : Bool := (toDict p).all fun kv => startsWith kv.1 unknownName

def getField (p : Para) (name : String) : Option FV := p.fields.lookup name.toList

def licenseOf (p : Para) : Str × Option Str :=
  match getField p "license" with
  | some (.license n t) => (n, t)
  | _ => ([], none)

def commentTextOf (p : Para) : Option Str :=
  match getField p "comment" with
  | some (.formatted t) => t
  | _ => none

def optTruthy : Option Str → Bool
  | some s => !s.isEmpty
  | none => false

/-- `CopyrightLicenseParagraph.is_empty()` -/
def licenseParaIsEmpty (p : Para) : Bool :=
  p.extra.isEmpty && !optTruthy (commentTextOf p) && (licenseOf p).1.isEmpty && !optTruthy (licenseOf p).2

/-! ### the two recovery rewrites -/

/-- `itertools.groupby(paragraphs, type)` -/
def groupByKind : List Para → List (List Para)
  | [] => []
  | p :: ps =>
    match groupByKind ps with
    | (q :: g) :: rest => if q.kind = p.kind then (p :: q :: g) :: rest else [p] :: (q :: g) :: rest
    | _ => [[p]]

def dvStr : DV → Option Str
  | .s v => some v
  | .emptyList => none

/-- the merged paragraph of a run of all-unknown catch-all paragraphs -/
def mergeRun (contigs : List Para) : Except PyExc Para :=
  let dvals := contigs.flatMap fun p => (toDict p).map (·.2)
  -- every value handed to `from_formatted_lines` must be a string (`.strip()` on a list raises)
  if dvals.any (fun v => v = .emptyList) then .error .attributeError else
  let values := dvals.filterMap dvStr
  let nums := contigs.flatMap fun p => p.lines.map (·.2)
  let lines : List (Str × (Nat × Nat)) :=
    match nums with
    | [] => []
    | n :: ns => [(unknownName, (ns.foldl (fun m x => min m x.1) n.1, ns.foldl (fun m x => max m x.2) n.2))]
  .ok { kind := .catchall, fields := [],
        extra := [(unknownName, if values.isEmpty then .emptyList else .s (fromFormattedLines values))],
        lines := lines }

/-- `merge_contiguous_unknown_paragraphs` -/
def mergeUnknown (ps : List Para) : Except PyExc (List Para) :=
  (groupByKind ps).foldl (fun acc g =>
    match acc with
    | .error e => .error e
    | .ok out =>
      match g with
      | [] => .ok out
      | p :: _ =>
        if p.kind ≠ .catchall || g.length = 1 || !g.all isAllUnknown then .ok (out ++ g)
        else
          match mergeRun g with
          | .error e => .error e
          | .ok m => .ok (out ++ [m])) (.ok [])

def setLicense (p : Para) (name : Str) (text : Option Str) : Para :=
  { p with fields := p.fields.map fun nf => if nf.1 = "license".toList then (nf.1, .license name text) else nf }

/-- the loop of `fold_contiguous_empty_license_followed_by_unknown` over `zip(ps, ps[1:])` -/
def foldLoop : List Para → Bool → Except PyExc (List Para × Bool)
  | p1 :: p2 :: rest, foldedPrev =>
    if foldedPrev then foldLoop (p2 :: rest) false
    else
      let d2 := toDict p2
      if p1.kind = .license && licenseParaIsEmpty p1 && p2.kind = .catchall &&
         d2.map (·.1) = [unknownName] && (match d2 with | [(_, v)] => dvTruthy v | _ => false) then
        match d2, p2.lines.lookup unknownName with
        | [(_, .s text)], some rng =>
          let p1' := { setLicense p1 [] (some text) with lines := lset p1.lines "license".toList rng }
          match foldLoop (p2 :: rest) true with
          | .error e => .error e
          | .ok (out, fp) => .ok (p1' :: out, fp)
        | _, _ => .error .keyError
      else
        match foldLoop (p2 :: rest) false with
        | .error e => .error e
        | .ok (out, fp) => .ok (p1 :: out, fp)
  | _, foldedPrev => .ok ([], foldedPrev)

/-- `fold_contiguous_empty_license_followed_by_unknown` -/
def foldLicense (ps : List Para) : Except PyExc (List Para) :=
  if ps.length ≤ 2 then .ok ps else
  match foldLoop ps false with
  | .error e => .error e
  | .ok (out, foldedPrev) =>
    if foldedPrev then .ok out
    else match ps.getLast? with
      | some last => .ok (out ++ [last])
      | none => .ok out

def mapExcept {α β} (f : α → Except PyExc β) : List α → Except PyExc (List β)
  | [] => .ok []
  | a :: as =>
    match f a with
    | .error e => .error e
    | .ok b =>
      match mapExcept f as with
      | .error e => .error e
      | .ok bs => .ok (b :: bs)

/-- `DebianCopyright.from_fields_groups(groups)` including `__attrs_post_init__` -/
def fromFieldsGroups (groups : List (List Fld)) : Except PyExc (List Para) :=
  match mapExcept (fun g => fromFields (classify g) g) groups with
  | .error e => .error e
  | .ok ps =>
    match mergeUnknown ps with
    | .error e => .error e
    | .ok ps' => foldLicense ps'

/-- `DebianCopyright.from_text(text)` -/
def fromText (t : Str) : Except PyExc (List Para) := fromFieldsGroups (parse t)

/-! ### rendering -/

def isAsciiStr (s : Str) : Bool := s.all fun c => c.toNat < 128

/-- `BaseParagraph.dumps()` -/
def dumpedEntry (kv : Str × DV) : Option (Str × Str) :=
  match kv.2 with
  | .s v => if !v.isEmpty && !isBlank v then some (kv.1, v) else none
  | .emptyList => none

def baseDumps (p : Para) : Except PyExc Str :=
  let entries := (toDict p).filterMap dumpedEntry
  if entries.any (fun kv => !isAsciiStr kv.1) then .error .outOfModel else
  .ok (strip (joinNl (entries.map fun kv =>
    Model.Control.normalizeName (replaceChar '_' '-' kv.1) ++ ':' :: ' ' ::
      (if startsWith kv.2 [' '] then kv.2.tail else kv.2))))

def wsValues (p : Para) (name : String) : List Str :=
  match getField p name with
  | some (.wsSep vs) => vs
  | _ => []

def statementsOf (p : Para) : List (Option Str × Str) :=
  match getField p "copyright" with
  | some (.copyright ss) => ss
  | _ => []

/-- `CopyrightFilesParagraph.is_empty()` -/
def filesParaIsEmpty (p : Para) : Bool :=
  (wsValues p "files").isEmpty && (licenseOf p).1.isEmpty && !optTruthy (licenseOf p).2 &&
  !optTruthy (commentTextOf p) && (statementsOf p).isEmpty && p.extra.isEmpty

/-- `paragraph.dumps()` -/
def paraDumps (p : Para) : Except PyExc Str :=
  match p.kind with
  | .files => if filesParaIsEmpty p then .ok "Files: ".toList else baseDumps p
  | .license => if licenseParaIsEmpty p then .ok "License: ".toList else baseDumps p
  | _ => baseDumps p

/-- `'\n\n'.join(...)` -/
def joinBlank : List Str → Str
  | [] => []
  | [l] => l
  | l :: ls => l ++ '\n' :: '\n' :: joinBlank ls

/-- `DebianCopyright.dumps()` -/
def docDumps (ps : List Para) : Except PyExc Str :=
  match mapExcept paraDumps ps with
  | .error e => .error e
  | .ok ds => .ok (joinBlank ds ++ ['\n'])

/-! ### validity -/

/-- `is_machine_readable_copyright(text)` (truthiness) -/
def isMachineReadable (t : Option Str) : Bool :=
  match t with
  | none => false
  | some s =>
    !s.isEmpty && Generated.machineReadablePrefixes.any fun pre => startsWith (lowerAscii (s.take 100)) pre.toList

def formatValue (p : Para) : Option Str :=
  match getField p "format" with
  | some (.single v) => v
  | _ => none

/-- `paragraph.is_valid(strict)` (truthiness) -/
def paraIsValid (p : Para) (strict : Bool) : Bool :=
  match p.kind with
  | .header => isMachineReadable (formatValue p) && (!strict || p.extra.isEmpty)
  | .files =>
    let v := (!(wsValues p "files").isEmpty && !(statementsOf p).isEmpty && !(licenseOf p).1.isEmpty) || optTruthy (licenseOf p).2
    v && (!strict || p.extra.isEmpty)
  | .license => !(licenseOf p).1.isEmpty && (!strict || p.extra.isEmpty)
  | .catchall => if strict then false else !isAllUnknown p

/-- `DebianCopyright.is_valid(strict)` -/
def docIsValid (ps : List Para) (strict : Bool) : Bool :=
  match ps with
  | [] => false
  | first :: _ =>
    let of (k : Kind) := ps.filter (·.kind = k)
    let hasHeader :=
      !(of .header).isEmpty && (!strict || ((of .header).length = 1 && (of .header).all (paraIsValid · true) &&
        (of .header).head? = some first))
    let hasFiles := !(of .files).isEmpty && (of .files).all (paraIsValid · strict)
    let hasLicense := !(of .license).isEmpty && (of .license).all (paraIsValid · strict)
    let hasUnknown := !(of .catchall).isEmpty && (of .catchall).all (paraIsValid · strict)
    let valid := (hasHeader && hasFiles) || (hasLicense && hasFiles)
    if strict then valid && hasUnknown else valid

end Model.Copyright
