/-
Line protocol between the Python harness and the Lean driver.

A value is a small tree (`Val`).  On the wire it is a sequence of space-separated tokens:

  s<hex>.<hex>...   a string, one lower-case hex code point per character (`s` = empty)
  i<decimal>        an integer (may be negative)
  l<n>              a list, followed by its n elements
  n                 None
  t / f             True / False
  e<name>           an exception of that kind (type name only)

This file is glue: it is not used by any theorem.  The Python side (`harness/protocol.py`)
implements the same encoding.
-/
import DebInspector.Py.Str

namespace Proto
open Py

inductive Val where
  | str : Str → Val
  | int : Int → Val
  | list : List Val → Val
  | none : Val
  | bool : Bool → Val
  | exc : String → Val
deriving Repr, BEq, Inhabited

mutual
/-- structural equality of wire values (the derived `BEq` of a nested inductive has no usable lemmas) -/
def Val.eqb : Val → Val → Bool
  | .str a, .str b => a == b
  | .int a, .int b => a == b
  | .list a, .list b => Val.eqbList a b
  | .none, .none => true
  | .bool a, .bool b => a == b
  | .exc a, .exc b => a == b
  | _, _ => false
def Val.eqbList : List Val → List Val → Bool
  | [], [] => true
  | a :: as, b :: bs => Val.eqb a b && Val.eqbList as bs
  | _, _ => false
end

mutual
theorem Val.eqb_refl : ∀ v : Val, Val.eqb v v = true
  | .str a => by simp [Val.eqb]
  | .int a => by simp [Val.eqb]
  | .list a => by simp only [Val.eqb]; exact Val.eqbList_refl a
  | .none => by simp [Val.eqb]
  | .bool a => by simp [Val.eqb]
  | .exc a => by simp [Val.eqb]
theorem Val.eqbList_refl : ∀ vs : List Val, Val.eqbList vs vs = true
  | [] => by simp [Val.eqbList]
  | a :: as => by simp only [Val.eqbList, Val.eqb_refl a, Val.eqbList_refl as, Bool.and_self]
end

def hexDigit (n : Nat) : Char := if n < 10 then Char.ofNat (48 + n) else Char.ofNat (87 + n)

def hexOfNat (n : Nat) : String := String.ofList (Nat.toDigits 16 n)

def encStr (s : Str) : String :=
  "s" ++ ".".intercalate (s.map fun c => hexOfNat c.toNat)

partial def encode : Val → List String
  | .str s => [encStr s]
  | .int i => ["i" ++ toString i]
  | .list xs => ("l" ++ toString xs.length) :: (xs.map encode).flatten
  | .none => ["n"]
  | .bool true => ["t"]
  | .bool false => ["f"]
  | .exc k => ["e" ++ k]

def render (v : Val) : String := " ".intercalate (encode v)

def hexVal? (s : String) : Option Nat :=
  if s.isEmpty then Option.none else
  s.toList.foldl (fun acc c =>
    acc.bind fun a =>
      if '0' ≤ c && c ≤ '9' then some (a * 16 + (c.toNat - 48))
      else if 'a' ≤ c && c ≤ 'f' then some (a * 16 + (c.toNat - 87))
      else Option.none) (some 0)

def decStr (body : String) : Option Str :=
  if body.isEmpty then some [] else
  (body.splitOn ".").foldr (fun h acc =>
    match hexVal? h, acc with
    | some n, some cs => some (Char.ofNat n :: cs)
    | _, _ => Option.none) (some [])

mutual
partial def decode : List String → Option (Val × List String)
  | [] => Option.none
  | tok :: rest =>
    match tok.toList with
    | 's' :: b => (decStr (String.ofList b)).map fun s => (.str s, rest)
    | 'i' :: b => (String.ofList b).toInt?.map fun i => (.int i, rest)
    | 'l' :: b => match (String.ofList b).toNat? with
      | some n => decodeN n rest []
      | Option.none => Option.none
    | ['n'] => some (.none, rest)
    | ['t'] => some (.bool true, rest)
    | ['f'] => some (.bool false, rest)
    | 'e' :: b => some (.exc (String.ofList b), rest)
    | _ => Option.none
partial def decodeN : Nat → List String → List Val → Option (Val × List String)
  | 0, rest, acc => some (.list acc.reverse, rest)
  | n + 1, rest, acc =>
    match decode rest with
    | some (v, rest') => decodeN n rest' (v :: acc)
    | Option.none => Option.none
end

def parse (toks : List String) : Option Val :=
  match decode toks with
  | some (v, []) => some v
  | _ => Option.none

/-! Small helpers to move between `Val` and model types. -/

def Val.asStr? : Val → Option Str | .str s => some s | _ => Option.none
def Val.asInt? : Val → Option Int | .int i => some i | _ => Option.none
def Val.asList? : Val → Option (List Val) | .list l => some l | _ => Option.none
def Val.asBool? : Val → Option Bool | .bool b => some b | _ => Option.none

def ofString (s : String) : Val := .str s.toList

end Proto
