import DebInspector.Proofs.Words
import DebInspector.Model.Copyright
namespace Proofs.WordsConv
open Py Spec.Words Proofs.Words Proofs.Splitlines Model.Debcon Model.Copyright

/-! ## every converter keeps the words of its value -/

theorem words_asFormattedLines (ls : List Str) : words (asFormattedLines ls) = ls.flatMap words := by
  unfold asFormattedLines
  rw [words_joinNlSp]
  induction ls with
  | nil => rfl
  | cons l ls ih =>
    simp only [List.map_cons, List.flatMap_cons, ih]
    congr 1
    unfold encLine
    by_cases hb : isBlank l = true
    · simp only [hb, if_true]
      have : words l = [] := by
        unfold words
        rw [splitWs_all_space l (List.all_eq_true.mp hb)]; rfl
      rw [this]; decide
    · simp [hb]

theorem words_asFormattedText (t : Str) : words (asFormattedText t) = words t := by
  unfold asFormattedText
  by_cases h : t.isEmpty = true
  · simp [h]
  · have h' : t.isEmpty = false := by simpa using h
    simp only [h', Bool.false_eq_true, if_false]
    rw [words_asFormattedLines, words_splitlines]

theorem startsWith_cons (c : Char) (l : Str) (h : startsWith l [c] = true) : ∃ r, l = c :: r := by
  cases l with
  | nil => simp [startsWith] at h
  | cons d ds =>
    simp only [startsWith, Bool.and_eq_true, beq_iff_eq] at h
    exact ⟨ds, by rw [h.1]⟩

theorem words_tail_space (l : Str) (h : headP isSpace l = true) : words l.tail = words l := by
  cases l with
  | nil => rfl
  | cons c cs =>
    simp only [headP] at h
    simp only [List.tail_cons]
    have := words_space [] cs c h
    simpa [words_nil] using this.symm

theorem words_decLine (l : Str) : words (decLine l) = words l := by
  unfold decLine
  simp only
  have hr := words_rstrip l
  by_cases h1 : startsWith (rstrip l) [' ', ' '] = true
  · simp only [h1, if_true]
    rw [← hr]
    apply words_tail_space
    cases hl : rstrip l with
    | nil => rw [hl] at h1; simp [startsWith] at h1
    | cons c cs =>
      rw [hl] at h1
      simp only [startsWith, Bool.and_eq_true, beq_iff_eq] at h1
      simp [headP, h1.1]; decide
  · have h1' : startsWith (rstrip l) [' ', ' '] = false := by simpa using h1
    simp only [h1', Bool.false_eq_true, if_false]
    by_cases h2 : rstrip l = [' ', '.']
    · simp only [h2, if_true]
      rw [← hr, h2]; decide
    · simp only [h2, if_false]
      by_cases h3 : startsWith (rstrip l) [' ', '.'] = true
      · simp only [h3, if_true]
        rw [← hr]
        apply words_tail_space
        cases hl : rstrip l with
        | nil => rw [hl] at h3; simp [startsWith] at h3
        | cons c cs =>
          rw [hl] at h3
          simp only [startsWith, Bool.and_eq_true, beq_iff_eq] at h3
          simp [headP, h3.1]; decide
      · have h3' : startsWith (rstrip l) [' ', '.'] = false := by simpa using h3
        simp only [h3', Bool.false_eq_true, if_false]
        rw [words_strip, hr]

theorem words_fromFormattedLines (ls : List Str) : words (fromFormattedLines ls) = ls.flatMap words := by
  cases ls with
  | nil => rfl
  | cons l rest =>
    simp only [fromFormattedLines, words_joinNl, List.flatMap_cons, words_strip]
    congr 1
    induction rest with
    | nil => rfl
    | cons r rs ih => simp only [List.map_cons, List.flatMap_cons, words_decLine, ih]

theorem words_lineSeparated (v : Str) : (lineSeparated v).flatMap words = words v := by
  unfold lineSeparated
  by_cases h : v.isEmpty = true
  · have : v = [] := List.isEmpty_iff.mp h
    simp [h, this, words_nil]
  · have h' : v.isEmpty = false := by simpa using h
    simp only [h', Bool.false_eq_true, if_false]; exact words_splitlines v

theorem words_fromFormattedText (t : Str) : words (fromFormattedText t) = words t := by
  unfold fromFormattedText
  by_cases h : t.isEmpty = true
  · simp [h]
  · have h' : t.isEmpty = false := by simpa using h
    simp only [h', Bool.false_eq_true, if_false]
    rw [words_fromFormattedLines, words_lineSeparated]


/-! ### tokens -/

theorem splitWsAux_tokens (s cur : Str) (hcur : ∀ c ∈ cur, isSpace c = false) :
    ∀ w ∈ splitWsAux s cur, w ≠ [] ∧ ∀ c ∈ w, isSpace c = false := by
  induction s generalizing cur with
  | nil =>
    intro w hw
    simp only [splitWsAux] at hw
    by_cases h : cur.isEmpty = true
    · simp [h] at hw
    · have h' : cur.isEmpty = false := by simpa using h
      simp only [h', Bool.false_eq_true, if_false, List.mem_singleton] at hw
      subst hw
      refine ⟨?_, fun c hc => hcur c (by simpa using hc)⟩
      intro e
      have : cur = [] := by simpa using e
      rw [this] at h'; cases h'
  | cons x xs ih =>
    intro w hw
    simp only [splitWsAux] at hw
    by_cases hx : isSpace x = true
    · simp only [hx, if_true] at hw
      by_cases h : cur.isEmpty = true
      · simp only [h, if_true] at hw
        exact ih [] (by simp) w hw
      · have h' : cur.isEmpty = false := by simpa using h
        simp only [h', Bool.false_eq_true, if_false, List.mem_cons] at hw
        rcases hw with rfl | hw
        · refine ⟨?_, fun c hc => hcur c (by simpa using hc)⟩
          intro e
          have : cur = [] := by simpa using e
          rw [this] at h'; cases h'
        · exact ih [] (by simp) w hw
    · have hx' : isSpace x = false := by simpa using hx
      simp only [hx', Bool.false_eq_true, if_false] at hw
      exact ih (x :: cur) (by
        intro c hc
        rcases List.mem_cons.mp hc with rfl | hc
        · exact hx'
        · exact hcur c hc) w hw

theorem splitWs_tokens (s : Str) : ∀ w ∈ splitWs s, w ≠ [] ∧ ∀ c ∈ w, isSpace c = false :=
  splitWsAux_tokens s [] (by simp)

theorem splitWs_token (w : Str) (hne : w ≠ []) (h : ∀ c ∈ w, isSpace c = false) : splitWs w = [w] := by
  have := splitWs_join [w] (by intro x hx; simp at hx; subst hx; exact ⟨hne, h⟩)
  simpa [join] using this

theorem flatMap_splitWs_tokens (ws : List Str) (h : ∀ w ∈ ws, w ≠ [] ∧ ∀ c ∈ w, isSpace c = false) :
    ws.flatMap splitWs = ws := by
  induction ws with
  | nil => rfl
  | cons w ws ih =>
    simp only [List.flatMap_cons, splitWs_token w (h w (by simp)).1 (h w (by simp)).2,
      ih (fun x hx => h x (by simp [hx]))]
    rfl

theorem flatMap_words_eq (ls : List Str) : ls.flatMap words = (ls.flatMap splitWs).filter (· ≠ ['.']) := by
  induction ls with
  | nil => rfl
  | cons l ls ih => simp only [List.flatMap_cons, List.filter_append, ih]; rfl

theorem words_join_tokens (ws : List Str) (h : ∀ w ∈ ws, w ≠ [] ∧ ∀ c ∈ w, isSpace c = false) :
    ws.flatMap words = ws.filter (· ≠ ['.']) := by
  rw [flatMap_words_eq, flatMap_splitWs_tokens ws h]

theorem words_join_space (ws : List Str) : words (join [' '] ws) = ws.flatMap words := by
  induction ws with
  | nil => rfl
  | cons w ws ih =>
    cases ws with
    | nil => simp [join]
    | cons v vs =>
      rw [join1_cons2, words_space w _ ' ' (by decide), ih]
      rfl

/-- the single-spaced form of a text has the words of the text -/
theorem words_normalize (v : Str) : words (join [' '] (splitWs v)) = words v := by
  rw [words_join_space, words_join_tokens _ (splitWs_tokens v)]
  rfl


/-! ### copyright statements -/

theorem words_statement (v : Str) : words (statementDumps (statementFromValue v)) = words v := by
  unfold statementFromValue
  simp only
  have hs := partitionChar_spec ' ' (join [' '] (splitWs v))
  simp only at hs
  obtain ⟨h1, h2, h3⟩ := hs
  by_cases hy : isYearRange (strip (partitionChar ' ' (join [' '] (splitWs v))).1) = true
  · simp only [hy, if_true, statementDumps]
    have hne : (strip (partitionChar ' ' (join [' '] (splitWs v))).1).isEmpty = false := by
      unfold isYearRange at hy
      simp only [Bool.and_eq_true, Bool.not_eq_true'] at hy
      exact hy.1
    simp only [hne, Bool.false_eq_true, if_false, words_strip]
    rw [words_space _ _ ' ' (by decide), words_strip, words_strip, ← words_normalize v]
    by_cases hf : (partitionChar ' ' (join [' '] (splitWs v))).2.1 = true
    · have e := h2 hf
      conv => rhs; rw [e]
      rw [words_space _ _ ' ' (by decide)]
    · have hf' : (partitionChar ' ' (join [' '] (splitWs v))).2.1 = false := by simpa using hf
      have e := h3 hf'
      rw [e.1, e.2, words_nil]
      simp
  · have hy' : isYearRange (strip (partitionChar ' ' (join [' '] (splitWs v))).1) = false := by simpa using hy
    simp only [hy', Bool.false_eq_true, if_false, statementDumps, words_strip, words_normalize]

theorem copyrightJoin_space : ∀ c ∈ copyrightJoin, isSpace c = true := by decide

theorem words_join_sep (sep : Str) (hsep : sep ≠ []) (hs : ∀ c ∈ sep, isSpace c = true) (ls : List Str) :
    words (join sep ls) = ls.flatMap words := by
  induction ls with
  | nil => rfl
  | cons l ls ih =>
    cases ls with
    | nil => simp [join]
    | cons m ms =>
      have e : join sep (l :: m :: ms) = l ++ sep ++ join sep (m :: ms) := rfl
      rw [e]
      cases hsp : sep with
      | nil => exact absurd hsp hsep
      | cons c cs =>
        rw [hsp] at hs
        have : l ++ (c :: cs) ++ join (c :: cs) (m :: ms) = l ++ c :: (cs ++ join (c :: cs) (m :: ms)) := by simp
        rw [this, words_space l _ c (hs c (by simp))]
        have h2 : words (cs ++ join (c :: cs) (m :: ms)) = words (join (c :: cs) (m :: ms)) := by
          unfold words
          rw [splitWs_lpad cs _ (fun x hx => hs x (by simp [hx]))]
        rw [h2, ← hsp, ih]
        rfl

/-! ### license -/

theorem words_description (v : Str) :
    words (descriptionDumps (descriptionFromValue v).1 (descriptionFromValue v).2) = words v := by
  unfold descriptionFromValue
  have hl := words_lineSeparated v
  cases hls : lineSeparated v with
  | nil =>
    rw [hls] at hl
    simp only [descriptionDumps, ← hl]
    decide
  | cons l ls =>
    rw [hls] at hl
    simp only [List.flatMap_cons] at hl
    simp only
    by_cases he : ls.isEmpty = true
    · have : ls = [] := List.isEmpty_iff.mp he
      subst this
      simp only [List.isEmpty_nil, if_true, descriptionDumps, words_strip]
      simpa using hl
    · have he' : ls.isEmpty = false := by simpa using he
      simp only [he', Bool.false_eq_true, if_false, descriptionDumps, words_strip]
      by_cases ht : (fromFormattedLines ls).isEmpty = true
      · simp only [ht, if_true, words_strip]
        have : words (fromFormattedLines ls) = [] := by
          rw [List.isEmpty_iff.mp ht]; rfl
        rw [words_fromFormattedLines] at this
        rw [← hl, this]; simp
      · have ht' : (fromFormattedLines ls).isEmpty = false := by simpa using ht
        simp only [ht', Bool.false_eq_true, if_false]
        rw [words_space _ _ '\n' (by decide), words_strip]
        have h2 : ∀ t : Str, words (' ' :: asFormattedText (if startsWith t [' '] = true then t.tail else t)) = words t := by
          intro t
          have := words_space [] (asFormattedText (if startsWith t [' '] = true then t.tail else t)) ' ' (by decide)
          simp only [List.nil_append, words_nil] at this
          rw [this, words_asFormattedText]
          by_cases hst : startsWith t [' '] = true
          · simp only [hst, if_true]
            obtain ⟨r, hr⟩ := startsWith_cons ' ' t hst
            rw [hr]
            exact words_tail_space _ (by simp [headP]; decide)
          · simp [hst]
        rw [h2, words_fromFormattedLines, ← hl, words_strip]


def optWords : Option Str → List Str
  | none => []
  | some t => words t

theorem words_descriptionDumps (syn : Str) (text : Option Str) :
    words (descriptionDumps syn text) = words syn ++ optWords text := by
  unfold descriptionDumps
  cases text with
  | none => simp [optWords, words_strip]
  | some t =>
    simp only [optWords]
    by_cases ht : t.isEmpty = true
    · have : t = [] := List.isEmpty_iff.mp ht
      subst this
      simp [words_strip, words_nil]
    · have ht' : t.isEmpty = false := by simpa using ht
      simp only [ht', Bool.false_eq_true, if_false]
      rw [words_space _ _ '\n' (by decide), words_strip]
      congr 1
      have := words_space [] (asFormattedText (if startsWith t [' '] = true then t.tail else t)) ' ' (by decide)
      simp only [List.nil_append, words_nil] at this
      rw [this, words_asFormattedText]
      by_cases hst : startsWith t [' '] = true
      · simp only [hst, if_true]
        obtain ⟨r, hr⟩ := startsWith_cons ' ' t hst
        rw [hr]
        exact words_tail_space _ (by simp [headP]; decide)
      · simp [hst]

theorem words_descriptionFromValue (v : Str) :
    words (descriptionFromValue v).1 ++ optWords (descriptionFromValue v).2 = words v := by
  rw [← words_descriptionDumps]; exact words_description v

theorem words_license (v : Str) :
    words (licenseDumps (licenseFromValue v).1 (licenseFromValue v).2) = words v := by
  unfold licenseDumps licenseFromValue
  simp only [words_strip, words_descriptionDumps]
  rw [← words_descriptionFromValue v]
  congr 1
  cases (descriptionFromValue v).2 with
  | none => rfl
  | some t =>
    simp only [Option.map_some, optWords]
    by_cases h : t.isEmpty = true
    · simp [h]
    · have h' : t.isEmpty = false := by simpa using h
      simp only [h', Bool.false_eq_true, if_false, words_lstrip]

/-! ### every converter class -/

theorem words_copyright (s : Str) :
    words (strip (join copyrightJoin ((lineSeparated s).map fun l => statementDumps (statementFromValue l)))) = words s := by
  rw [words_strip, words_join_sep copyrightJoin (by decide) copyrightJoin_space]
  rw [← words_lineSeparated s]
  induction lineSeparated s with
  | nil => rfl
  | cons l ls ih => simp only [List.map_cons, List.flatMap_cons, words_statement, ih]

/-- **rendering the typed value of a field keeps the words of the field's text**, for every converter class and every
value; the value of an absent field renders to no words -/
theorem words_dumps_fromValue (cls : String) (v : Str) : words (dumps (fromValue cls (some v))) = words v := by
  unfold fromValue
  by_cases h1 : cls = "SingleLineField"
  · simp only [h1, if_true, dumps, Option.map_some, Option.getD_some, words_strip]
  · simp only [h1, if_false]
    by_cases h2 : cls = "LineSeparatedField"
    · simp only [h2, if_true, dumps, words_joinNlSp]
      rw [← words_lineSeparated v]
      induction lineSeparated v with
      | nil => rfl
      | cons l ls ih => simp only [List.map_cons, List.flatMap_cons, words_strip, ih]
    · simp only [h2, if_false]
      by_cases h3 : cls = "AnyWhiteSpaceSeparatedField"
      · simp only [h3, if_true, dumps, words_joinNlSp]
        rw [words_join_tokens _ (splitWs_tokens v)]; rfl
      · simp only [h3, if_false]
        by_cases h4 : cls = "FormattedTextField"
        · simp only [h4, if_true, dumps, Option.map_some, Option.getD_some]
          by_cases he : v.isEmpty = true
          · have : v = [] := List.isEmpty_iff.mp he
            subst this; rfl
          · have he' : v.isEmpty = false := by simpa using he
            simp only [he', Bool.false_eq_true, if_false]
            have hw := words_lineSeparated (fromFormattedText v)
            by_cases hl : (lineSeparated (fromFormattedText v)).isEmpty = true
            · simp only [hl, if_true]
              rw [List.isEmpty_iff.mp hl] at hw
              rw [← words_fromFormattedText v, ← hw]; rfl
            · have hl' : (lineSeparated (fromFormattedText v)).isEmpty = false := by simpa using hl
              simp only [hl', Bool.false_eq_true, if_false, words_asFormattedLines, hw, words_fromFormattedText]
        · simp only [h4, if_false]
          by_cases h5 : cls = "CopyrightField"
          · simp only [h5, if_true, dumps, List.map_map]
            exact words_copyright v
          · simp only [h5, if_false, dumps, Option.getD_some]
            exact words_license v


theorem words_dumps_absent (cls : String) : words (dumps (fromValue cls none)) = [] := by
  unfold fromValue
  by_cases h1 : cls = "SingleLineField"
  · simp only [h1, if_true]; rfl
  · simp only [h1, if_false]
    by_cases h2 : cls = "LineSeparatedField"
    · simp only [h2, if_true]; rfl
    · simp only [h2, if_false]
      by_cases h3 : cls = "AnyWhiteSpaceSeparatedField"
      · simp only [h3, if_true]; rfl
      · simp only [h3, if_false]
        by_cases h4 : cls = "FormattedTextField"
        · simp only [h4, if_true]; rfl
        · simp only [h4, if_false]
          by_cases h5 : cls = "CopyrightField"
          · simp only [h5, if_true]; rfl
          · simp only [h5, if_false]; decide

end Proofs.WordsConv
