/-
The transliteration of dpkg's C `verrevcmp` computes the declarative order `Spec.VerOrder.cmpStr`
with dpkg's ranks — for all strings, of any length and any digit-run size.
-/
import DebInspector.Spec.DpkgOrder
import DebInspector.Proofs.VersionPrint
import DebInspector.Proofs.VersionCompare
import DebInspector.Proofs.VersionOrder

namespace Proofs.Verrevcmp
open Py Spec Spec.Dpkg Spec.VerOrder PadLex

/-! ### the non-digit phase -/

theorem order_nondigit_ne_zero (c : Char) (h : c.isDigit = false) : order (some c) ≠ 0 := by
  unfold order
  simp only [isAsciiDigit, h, Bool.false_eq_true, if_false]
  split
  · rename_i ha
    intro e
    have : c.toNat = 0 := by omega
    have hc : c = Char.ofNat 0 := by rw [← this, Char.ofNat_toNat]
    rw [hc] at ha; revert ha; decide
  · split
    · omega
    · omega

theorem order_digit (c : Char) (h : c.isDigit = true) : order (some c) = 0 := by
  simp [order, isAsciiDigit, h]

/-- the order value of "what `*a` points at" when it is not a non-digit character: 0 -/
theorem order_head_not_nondigit (a : Str) (h : isNonDigit a.head? = false) : order a.head? = 0 := by
  cases a with
  | nil => rfl
  | cons c cs =>
    simp only [List.head?_cons, isNonDigit, isAsciiDigit, Bool.not_eq_false'] at h
    simpa using order_digit c h

theorem spanNonDigit_not_nondigit (a : Str) (h : isNonDigit a.head? = false) : spanNonDigit a = ([], a) := by
  cases a with
  | nil => rfl
  | cons c cs =>
    simp only [List.head?_cons, isNonDigit, isAsciiDigit, Bool.not_eq_false'] at h
    simp [spanNonDigit, h]

theorem spanNonDigit_nondigit (c : Char) (cs : Str) (h : c.isDigit = false) :
    spanNonDigit (c :: cs) = (c :: (spanNonDigit cs).1, (spanNonDigit cs).2) := by
  simp [spanNonDigit, h]

/-- what the inner `while` loop returns, in terms of the padded comparison of the two non-digit runs -/
def NonDigitSpec (a b : Str) (r : Int ⊕ (Str × Str)) : Prop :=
  match cmpRun dpkgRk (spanNonDigit a).1 (spanNonDigit b).1 with
  | .eq => r = .inr ((spanNonDigit a).2, (spanNonDigit b).2)
  | .lt => ∃ d : Int, d < 0 ∧ r = .inl d
  | .gt => ∃ d : Int, d > 0 ∧ r = .inl d

theorem cmpRun_cons_cons (c d : Char) (p q : Str) :
    cmpRun dpkgRk (c :: p) (d :: q) = (compare (order (some c)) (order (some d))).then (cmpRun dpkgRk p q) := by
  simp [cmpRun, cmpPad, cmpRk, dpkgRk]

theorem cmpRun_cons_nil (c : Char) (p : Str) :
    cmpRun dpkgRk (c :: p) [] = (compare (order (some c)) 0).then (cmpRun dpkgRk p []) := by
  simp [cmpRun, cmpPad, cmpRk, dpkgRk, order]

theorem cmpRun_nil_cons (d : Char) (q : Str) :
    cmpRun dpkgRk [] (d :: q) = (compare 0 (order (some d))).then (cmpRun dpkgRk [] q) := by
  simp [cmpRun, cmpPad, cmpRk, dpkgRk, order]

theorem cmpRun_nil_nil : cmpRun dpkgRk [] [] = .eq := by simp [cmpRun, cmpPad]

theorem nonDigitLoop_succ_true (n : Nat) (a b : Str) (h : (isNonDigit a.head? || isNonDigit b.head?) = true) :
    nonDigitLoop (n + 1) a b =
      if order a.head? ≠ order b.head? then .inl (order a.head? - order b.head?) else nonDigitLoop n a.tail b.tail := by
  simp [nonDigitLoop, h]

theorem nonDigitLoop_succ_false (n : Nat) (a b : Str) (h : (isNonDigit a.head? || isNonDigit b.head?) = false) :
    nonDigitLoop (n + 1) a b = .inr (a, b) := by
  simp [nonDigitLoop, h]

theorem nondigit_head {a : Str} (ha : isNonDigit a.head? = true) : ∃ c as, a = c :: as ∧ c.isDigit = false := by
  cases a with
  | nil => simp [isNonDigit] at ha
  | cons c as => exact ⟨c, as, rfl, by simpa [isNonDigit, isAsciiDigit] using ha⟩

theorem nonDigitLoop_spec (n : Nat) (a b : Str) (hn : a.length + b.length ≤ n) :
    NonDigitSpec a b (nonDigitLoop n a b) := by
  induction n generalizing a b with
  | zero =>
    have ea : a = [] := by cases a <;> simp_all
    have eb : b = [] := by cases b <;> simp_all
    subst ea eb
    simp [NonDigitSpec, nonDigitLoop, spanNonDigit, cmpRun_nil_nil]
  | succ n ih =>
    by_cases ha : isNonDigit a.head? = true
    · rw [nonDigitLoop_succ_true n a b (by simp [ha])]
      obtain ⟨c, as, rfl, hc⟩ := nondigit_head ha
      by_cases hb : isNonDigit b.head? = true
      · obtain ⟨d, bs, rfl, hd⟩ := nondigit_head hb
        simp only [List.head?_cons, List.tail_cons]
        unfold NonDigitSpec
        rw [spanNonDigit_nondigit c as hc, spanNonDigit_nondigit d bs hd, cmpRun_cons_cons]
        rcases Int.lt_trichotomy (order (some c)) (order (some d)) with h | h | h
        · have hne : order (some c) ≠ order (some d) := by omega
          simp only [hne, ne_eq, not_false_eq_true, if_true, (cmpInt_lt _ _).mpr h, Ordering.then]
          exact ⟨_, Int.sub_neg_of_lt h, rfl⟩
        · simp only [h, ne_eq, not_true_eq_false, if_false, (cmpInt_eq _ _).mpr rfl, Ordering.then]
          have hlen : as.length + bs.length ≤ n := by simp at hn; omega
          exact ih as bs hlen
        · have hne : order (some c) ≠ order (some d) := by omega
          simp only [hne, ne_eq, not_false_eq_true, if_true, (cmpInt_gt _ _).mpr h, Ordering.then]
          exact ⟨_, Int.sub_pos_of_lt h, rfl⟩
      · -- `*b` is a digit or the end: its order is 0, the orders differ
        have hb' : isNonDigit b.head? = false := by simpa using hb
        have hob := order_head_not_nondigit b hb'
        have hne : order (some c) ≠ 0 := order_nondigit_ne_zero c hc
        simp only [List.head?_cons, hob, hne, ne_eq, not_false_eq_true, if_true, Int.sub_zero]
        unfold NonDigitSpec
        rw [spanNonDigit_nondigit c as hc, spanNonDigit_not_nondigit b hb', cmpRun_cons_nil]
        rcases Int.lt_trichotomy (order (some c)) 0 with h | h | h
        · simp only [(cmpInt_lt _ _).mpr h, Ordering.then]; exact ⟨_, h, rfl⟩
        · exact absurd h hne
        · simp only [(cmpInt_gt _ _).mpr h, Ordering.then]; exact ⟨_, h, rfl⟩
    · have ha' : isNonDigit a.head? = false := by simpa using ha
      have hoa := order_head_not_nondigit a ha'
      by_cases hb : isNonDigit b.head? = true
      · rw [nonDigitLoop_succ_true n a b (by simp [hb])]
        obtain ⟨d, bs, rfl, hd⟩ := nondigit_head hb
        have hod := order_nondigit_ne_zero d hd
        have hne : (0 : Int) ≠ order (some d) := fun e => hod e.symm
        simp only [List.head?_cons, hoa, hne, ne_eq, not_false_eq_true, if_true, Int.zero_sub]
        unfold NonDigitSpec
        rw [spanNonDigit_not_nondigit a ha', spanNonDigit_nondigit d bs hd, cmpRun_nil_cons]
        rcases Int.lt_trichotomy 0 (order (some d)) with h | h | h
        · simp only [(cmpInt_lt _ _).mpr h, Ordering.then]; exact ⟨_, by omega, rfl⟩
        · exact absurd h hne
        · simp only [(cmpInt_gt _ _).mpr h, Ordering.then]; exact ⟨_, by omega, rfl⟩
      · have hb' : isNonDigit b.head? = false := by simpa using hb
        rw [nonDigitLoop_succ_false n a b (by simp [ha', hb'])]
        unfold NonDigitSpec
        rw [spanNonDigit_not_nondigit a ha', spanNonDigit_not_nondigit b hb', cmpRun_nil_nil]


/-! ### the digit phase: "skip zeros, the longer run wins, else the first difference" is numeric comparison -/

/-- value of a digit run continued from the value `u` of the digits already read -/
def F (u : Nat) (ds : Str) : Nat := Nat.ofDigitChars 10 ds u

def dval (c : Char) : Nat := c.toNat - '0'.toNat

theorem F_nil (u : Nat) : F u [] = u := by simp [F]

theorem F_cons (u : Nat) (c : Char) (cs : Str) : F u (c :: cs) = F (10 * u + dval c) cs := by
  simp [F, Nat.ofDigitChars_cons, dval]

theorem F_ge (u : Nat) (ds : Str) : u ≤ F u ds := by
  induction ds generalizing u with
  | nil => simp [F_nil]
  | cons d ds ih => rw [F_cons]; have := ih (10 * u + dval d); omega

theorem F_cons_ge (u : Nat) (d : Char) (ds : Str) : 10 * u ≤ F u (d :: ds) := by
  rw [F_cons]; have := F_ge (10 * u + dval d) ds; omega

theorem dval_le {c : Char} (h : c.isDigit = true) : dval c ≤ 9 ∧ (c.toNat : Int) = dval c + 48 := by
  simp only [Char.isDigit, Bool.and_eq_true, decide_eq_true_eq] at h
  have h1 := UInt32.le_iff_toNat_le.mp h.1
  have h2 := UInt32.le_iff_toNat_le.mp h.2
  have e : c.toNat = c.val.toNat := rfl
  have e0 : '0'.toNat = 48 := rfl
  simp at h1 h2
  unfold dval
  omega

def headDigit (s : Str) : Bool := headP Char.isDigit s

theorem spanDigits_nondigit (s : Str) (h : headDigit s = false) : spanDigits s = ([], s) := by
  cases s with
  | nil => rfl
  | cons c cs =>
    have : c.isDigit = false := by simpa [headDigit, headP] using h
    simp [spanDigits, this]

theorem spanDigits_digit (c : Char) (cs : Str) (h : c.isDigit = true) :
    spanDigits (c :: cs) = (c :: (spanDigits cs).1, (spanDigits cs).2) := by
  simp [spanDigits, h]

theorem digitLoop_end (a b : Str) (fd : Int) (h : headDigit a = false ∨ headDigit b = false) :
    digitLoop a b fd = digitLoop.digitEnd a b fd := by
  cases a with
  | nil => cases b <;> simp [digitLoop]
  | cons c cs =>
    cases b with
    | nil => simp [digitLoop]
    | cons d ds =>
      have : (c.isDigit && d.isDigit) = false := by
        rcases h with h | h
        · have : c.isDigit = false := by simpa [headDigit, headP] using h
          simp [this]
        · have : d.isDigit = false := by simpa [headDigit, headP] using h
          simp [this]
      simp [digitLoop, isAsciiDigit, this]

theorem digitEnd_a (a b : Str) (fd : Int) (h : headDigit a = true) :
    digitLoop.digitEnd a b fd = (some 1, a, b) := by
  have : headP isAsciiDigit a = true := h
  simp [digitLoop.digitEnd, this]

theorem digitEnd_b (a b : Str) (fd : Int) (ha : headDigit a = false) (hb : headDigit b = true) :
    digitLoop.digitEnd a b fd = (some (-1), a, b) := by
  have h1 : headP isAsciiDigit a = false := ha
  have h2 : headP isAsciiDigit b = true := hb
  simp [digitLoop.digitEnd, h1, h2]

theorem digitEnd_none (a b : Str) (fd : Int) (ha : headDigit a = false) (hb : headDigit b = false) :
    digitLoop.digitEnd a b fd = if fd ≠ 0 then (some fd, a, b) else (none, a, b) := by
  have h1 : headP isAsciiDigit a = false := ha
  have h2 : headP isAsciiDigit b = false := hb
  simp [digitLoop.digitEnd, h1, h2]

theorem headDigit_cons {s : Str} (h : headDigit s = true) : ∃ b bs, s = b :: bs ∧ b.isDigit = true := by
  cases s with
  | nil => simp [headDigit, headP] at h
  | cons b bs => exact ⟨b, bs, rfl, by simpa [headDigit, headP] using h⟩

/-- outcome of the digit phase in terms of the two numbers being compared -/
def DigitSpec (U W : Nat) (rx ry : Str) (r : Option Int × Str × Str) : Prop :=
  (U < W → ∃ d : Int, d < 0 ∧ r.1 = some d) ∧ (W < U → ∃ d : Int, d > 0 ∧ r.1 = some d) ∧
  (U = W → r = (none, rx, ry))

theorem digitSpec_end (u w : Nat) (fd : Int) (a b : Str)
    (hfd : (fd < 0 ↔ u < w) ∧ (fd = 0 ↔ u = w)) :
    DigitSpec u w a b (if fd ≠ 0 then (some fd, a, b) else (none, a, b)) := by
  by_cases hz : fd = 0
  · have huw := hfd.2.mp hz
    simp only [hz, ne_eq, not_true_eq_false, if_false]
    exact ⟨fun h => by omega, fun h => by omega, fun _ => rfl⟩
  · simp only [hz, ne_eq, not_false_eq_true, if_true]
    refine ⟨fun h => ⟨fd, hfd.1.mpr h, rfl⟩, fun h => ⟨fd, ?_, rfl⟩, fun h => absurd (hfd.2.mpr h) hz⟩
    have h1 : ¬ fd < 0 := fun hh => by have := hfd.1.mp hh; omega
    omega

/-- main invariant: `u`, `w` are the values of the equal-length prefixes already walked, both with a
non-zero leading digit (`w < 10u`, `u < 10w`), and `fd` remembers their order -/
theorem digitLoop_spec (xs ys : Str) (u w : Nat) (fd : Int)
    (hI : w < 10 * u ∧ u < 10 * w) (hfd : (fd < 0 ↔ u < w) ∧ (fd = 0 ↔ u = w)) :
    DigitSpec (F u (spanDigits xs).1) (F w (spanDigits ys).1) (spanDigits xs).2 (spanDigits ys).2
      (digitLoop xs ys fd) := by
  induction xs generalizing ys u w fd with
  | nil =>
    have hx : headDigit ([] : Str) = false := rfl
    rw [digitLoop_end [] ys fd (Or.inl hx), spanDigits_nondigit [] hx, F_nil]
    by_cases hy : headDigit ys = true
    · obtain ⟨b, bs, rfl, hb⟩ := headDigit_cons hy
      rw [digitEnd_b _ _ _ hx hy, spanDigits_digit b bs hb]
      dsimp only
      have hge := F_cons_ge w b (spanDigits bs).1
      exact ⟨fun _ => ⟨-1, by omega, rfl⟩, fun h => by omega, fun h => by omega⟩
    · have hy' : headDigit ys = false := by simpa using hy
      rw [digitEnd_none _ _ _ hx hy', spanDigits_nondigit ys hy', F_nil]
      exact digitSpec_end u w fd [] ys hfd
  | cons a as ih =>
    by_cases ha : a.isDigit = true
    · have hxd : headDigit (a :: as) = true := by simpa [headDigit, headP] using ha
      rw [spanDigits_digit a as ha]
      by_cases hy : headDigit ys = true
      · obtain ⟨b, bs, rfl, hb⟩ := headDigit_cons hy
        rw [spanDigits_digit b bs hb, F_cons, F_cons]
        have hda := dval_le ha
        have hdb := dval_le hb
        have step : digitLoop (a :: as) (b :: bs) fd =
            digitLoop as bs (if fd = 0 then (a.toNat : Int) - b.toNat else fd) := by
          simp [digitLoop, isAsciiDigit, ha, hb]
        rw [step]
        apply ih bs (10 * u + dval a) (10 * w + dval b)
        · omega
        · split <;> constructor <;> constructor <;> intro h <;> omega
      · have hy' : headDigit ys = false := by simpa using hy
        rw [digitLoop_end (a :: as) ys fd (Or.inr hy'), digitEnd_a _ _ _ hxd, spanDigits_nondigit ys hy', F_nil]
        dsimp only
        have hge := F_cons_ge u a (spanDigits as).1
        exact ⟨fun h => by omega, fun _ => ⟨1, by omega, rfl⟩, fun h => by omega⟩
    · have ha' : headDigit (a :: as) = false := by simpa [headDigit, headP] using ha
      rw [digitLoop_end (a :: as) ys fd (Or.inl ha'), spanDigits_nondigit _ ha', F_nil]
      by_cases hy : headDigit ys = true
      · obtain ⟨b, bs, rfl, hb⟩ := headDigit_cons hy
        rw [digitEnd_b _ _ _ ha' hy, spanDigits_digit b bs hb]
        dsimp only
        have hge := F_cons_ge w b (spanDigits bs).1
        exact ⟨fun _ => ⟨-1, by omega, rfl⟩, fun h => by omega, fun h => by omega⟩
      · have hy' : headDigit ys = false := by simpa using hy
        rw [digitEnd_none _ _ _ ha' hy', spanDigits_nondigit ys hy', F_nil]
        exact digitSpec_end u w fd (a :: as) ys hfd


/-! ### leading zeros -/

theorem skipZeros_spec (s : Str) :
    (spanDigits (skipZeros s)).2 = (spanDigits s).2 ∧
    F 0 (spanDigits (skipZeros s)).1 = F 0 (spanDigits s).1 ∧
    (headDigit (skipZeros s) = true → ∃ c cs, skipZeros s = c :: cs ∧ c.isDigit = true ∧ 1 ≤ dval c) := by
  induction s with
  | nil => simp [skipZeros, headDigit, headP]
  | cons c cs ih =>
    by_cases hz : c = '0'
    · subst hz
      have hd : ('0' : Char).isDigit = true := by decide
      have e : skipZeros ('0' :: cs) = skipZeros cs := by simp [skipZeros]
      rw [e, spanDigits_digit '0' cs hd, F_cons]
      have : dval '0' = 0 := by decide
      simp only [this, Nat.mul_zero, Nat.add_zero]
      exact ih
    · have e : skipZeros (c :: cs) = c :: cs := by
        unfold skipZeros
        split
        · rename_i heq; simp at heq; exact absurd heq.1 hz
        · rfl
      rw [e]
      refine ⟨rfl, rfl, ?_⟩
      intro h
      have hd : c.isDigit = true := by simpa [headDigit, headP] using h
      refine ⟨c, cs, rfl, hd, ?_⟩
      have := dval_le hd
      -- a digit other than '0' has value at least 1
      cases hdv : dval c with
      | succ k => omega
      | zero =>
        exfalso
        apply hz
        have h48 : c.toNat = 48 := by
          have := this.2
          rw [hdv] at this
          omega
        have hc : c = Char.ofNat c.toNat := (Char.ofNat_toNat c).symm
        rw [hc, h48]

/-- **the digit phase of `verrevcmp` compares the two digit runs by numeric value** (any number of
leading zeros, any run length) and, when they are equal, continues after both runs -/
theorem digitPhase_spec (wa wb : Str) :
    DigitSpec (digitsVal (spanDigits wa).1) (digitsVal (spanDigits wb).1) (spanDigits wa).2 (spanDigits wb).2
      (digitLoop (skipZeros wa) (skipZeros wb) 0) := by
  obtain ⟨ra, va, ha⟩ := skipZeros_spec wa
  obtain ⟨rb, vb, hb⟩ := skipZeros_spec wb
  have eA : digitsVal (spanDigits wa).1 = F 0 (spanDigits (skipZeros wa)).1 := by rw [va]; rfl
  have eB : digitsVal (spanDigits wb).1 = F 0 (spanDigits (skipZeros wb)).1 := by rw [vb]; rfl
  rw [eA, eB, ← ra, ← rb]
  generalize skipZeros wa = xa at ha
  generalize skipZeros wb = xb at hb
  by_cases hxa : headDigit xa = true
  · obtain ⟨a, as, rfl, had, ha1⟩ := ha hxa
    by_cases hxb : headDigit xb = true
    · obtain ⟨b, bs, rfl, hbd, hb1⟩ := hb hxb
      have hda := dval_le had
      have hdb := dval_le hbd
      have step : digitLoop (a :: as) (b :: bs) 0 = digitLoop as bs ((a.toNat : Int) - b.toNat) := by
        simp [digitLoop, isAsciiDigit, had, hbd]
      rw [step, spanDigits_digit a as had, spanDigits_digit b bs hbd, F_cons, F_cons]
      simp only [Nat.mul_zero, Nat.zero_add]
      apply digitLoop_spec as bs (dval a) (dval b)
      · omega
      · constructor <;> constructor <;> intro h <;> omega
    · have hxb' : headDigit xb = false := by simpa using hxb
      rw [digitLoop_end _ _ _ (Or.inr hxb'), digitEnd_a _ _ _ hxa, spanDigits_nondigit xb hxb', F_nil,
        spanDigits_digit a as had, F_cons]
      have := F_ge (10 * 0 + dval a) (spanDigits as).1
      dsimp only
      exact ⟨fun h => by omega, fun _ => ⟨1, by omega, rfl⟩, fun h => by omega⟩
  · have hxa' : headDigit xa = false := by simpa using hxa
    rw [digitLoop_end _ _ _ (Or.inl hxa'), spanDigits_nondigit xa hxa', F_nil]
    by_cases hxb : headDigit xb = true
    · obtain ⟨b, bs, rfl, hbd, hb1⟩ := hb hxb
      rw [digitEnd_b _ _ _ hxa' hxb, spanDigits_digit b bs hbd, F_cons]
      have := F_ge (10 * 0 + dval b) (spanDigits bs).1
      dsimp only
      exact ⟨fun _ => ⟨-1, by omega, rfl⟩, fun h => by omega, fun h => by omega⟩
    · have hxb' : headDigit xb = false := by simpa using hxb
      rw [digitEnd_none _ _ _ hxa' hxb', spanDigits_nondigit xb hxb', F_nil]
      simp only [ne_eq, not_true_eq_false, if_false]
      exact ⟨fun h => by omega, fun h => by omega, fun _ => rfl⟩


/-! ### the outer loop -/

theorem sign_neg {d : Int} (h : d < 0) : sign d = -1 := by simp [sign, h]
theorem sign_pos {d : Int} (h : d > 0) : sign d = 1 := by
  have h1 : ¬ d < 0 := by omega
  have h2 : ¬ d = 0 := by omega
  simp [sign, h1, h2]

open Proofs.VersionCompare in
/-- **`verrevcmp` is the declarative order**: for all strings `a`, `b` (any characters, any length,
digit runs of any size with any number of leading zeros) the sign of the transliterated C function is
the token-by-token comparison under dpkg's ranks -/
theorem verrevcmpFuel_eq (n : Nat) (a b : Str) (hn : a.length + b.length ≤ n) :
    sign (verrevcmpFuel n a b) = ordInt (cmpStr dpkgRk a b) := by
  induction n generalizing a b with
  | zero =>
    have ea : a = [] := by cases a <;> simp_all
    have eb : b = [] := by cases b <;> simp_all
    subst ea eb
    simp [verrevcmpFuel, sign, cmpStr, tokens_nil, cmpPad, ordInt]
  | succ n ih =>
    unfold verrevcmpFuel
    by_cases hb : a = [] ∧ b = []
    · obtain ⟨ea, eb⟩ := hb
      subst ea eb
      simp [sign, cmpStr, tokens_nil, cmpPad, ordInt]
    · have hb' : (a.isEmpty && b.isEmpty) = false := by
        cases a <;> cases b <;> simp_all
      simp only [hb', Bool.false_eq_true, if_false]
      rw [cmpStr_unfold dpkgRk a b hb]
      have hnd := nonDigitLoop_spec (a.length + b.length) a b (Nat.le_refl _)
      unfold NonDigitSpec at hnd
      simp only [cmpTok, cmpProd, firstTok]
      cases hc : cmpRun dpkgRk (spanNonDigit a).1 (spanNonDigit b).1 with
      | lt =>
        rw [hc] at hnd
        obtain ⟨d, hd, hr⟩ := hnd
        rw [hr]
        simp [Ordering.then, ordInt, sign_neg hd]
      | gt =>
        rw [hc] at hnd
        obtain ⟨d, hd, hr⟩ := hnd
        rw [hr]
        simp [Ordering.then, ordInt, sign_pos hd]
      | eq =>
        rw [hc] at hnd
        simp only at hnd
        rw [hnd]
        simp only [Ordering.then]
        obtain ⟨h1, h2, h3⟩ := digitPhase_spec (spanNonDigit a).2 (spanNonDigit b).2
        rcases Nat.lt_trichotomy (digitsVal (spanDigits (spanNonDigit a).2).1) (digitsVal (spanDigits (spanNonDigit b).2).1) with h | h | h
        · obtain ⟨d, hd, hr⟩ := h1 h
          have hlt : ((digitsVal (spanDigits (spanNonDigit a).2).1 : Int) < digitsVal (spanDigits (spanNonDigit b).2).1) := by omega
          cases hdl : digitLoop (skipZeros (spanNonDigit a).2) (skipZeros (spanNonDigit b).2) 0 with
          | mk r rest =>
            rw [hdl] at hr
            simp only at hr
            subst hr
            simp [cmpNat, (cmpInt_lt _ _).mpr hlt, ordInt, sign_neg hd]
        · have hr := h3 h
          rw [hr]
          simp only [cmpNat, h, (cmpInt_eq _ _).mpr rfl]
          apply ih
          have l1 : (afterTok a).length ≤ a.length := by
            by_cases e : a = []
            · subst e; simp [afterTok_nil]
            · exact Nat.le_of_lt (afterTok_lt a e)
          have l2 : (afterTok b).length ≤ b.length := by
            by_cases e : b = []
            · subst e; simp [afterTok_nil]
            · exact Nat.le_of_lt (afterTok_lt b e)
          show (afterTok a).length + (afterTok b).length ≤ n
          by_cases e : a = []
          · have e2 : b ≠ [] := fun e2 => hb ⟨e, e2⟩
            have := afterTok_lt b e2
            omega
          · have := afterTok_lt a e
            omega
        · obtain ⟨d, hd, hr⟩ := h2 h
          have hgt : ((digitsVal (spanDigits (spanNonDigit b).2).1 : Int) < digitsVal (spanDigits (spanNonDigit a).2).1) := by omega
          cases hdl : digitLoop (skipZeros (spanNonDigit a).2) (skipZeros (spanNonDigit b).2) 0 with
          | mk r rest =>
            rw [hdl] at hr
            simp only at hr
            subst hr
            simp [cmpNat, (cmpInt_gt _ _).mpr hgt, ordInt, sign_pos hd]

theorem verrevcmp_eq (a b : Str) : sign (verrevcmp a b) = ordInt (cmpStr dpkgRk a b) :=
  verrevcmpFuel_eq _ a b (by omega)


/-! ### whole versions: `dpkg_version_compare` on the `parseversion` decomposition -/

theorem tokens_zero : tokens ['0'] = [([], 0)] := by
  rw [tokens_cons _ (by simp)]
  have h1 : afterTok ['0'] = [] := by decide
  have h2 : firstTok ['0'] = ([], 0) := by decide
  rw [h1, h2, tokens_nil]

theorem cmpPad_pad_left {α} (c : α → α → Ordering) (d : α) (hr : c d d = .eq) (y : List α) :
    cmpPad c d [d] y = cmpPad c d [] y := by
  cases y with
  | nil => simp [cmpPad, hr, Ordering.then]
  | cons b bs => simp [cmpPad]

theorem cmpPad_pad_right {α} (c : α → α → Ordering) (d : α) (hr : c d d = .eq) (x : List α) :
    cmpPad c d x [d] = cmpPad c d x [] := by
  cases x with
  | nil => simp [cmpPad, hr, Ordering.then]
  | cons a as => simp [cmpPad]

/-- "a missing revision counts as revision 0": the empty component and `0` are interchangeable on
either side of the comparison -/
theorem cmpStr_zero_left (y : Str) : cmpStr dpkgRk ['0'] y = cmpStr dpkgRk [] y := by
  unfold cmpStr
  rw [tokens_zero, tokens_nil]
  exact cmpPad_pad_left _ _ ((cmpTok_pre dpkgRk).refl _) _

theorem cmpStr_zero_right (x : Str) : cmpStr dpkgRk x ['0'] = cmpStr dpkgRk x [] := by
  unfold cmpStr
  rw [tokens_zero, tokens_nil]
  exact cmpPad_pad_right _ _ ((cmpTok_pre dpkgRk).refl _) _

def revOf (r : Option Str) : Str := match r with | none => [] | some r => r
def revOf0 (r : Option Str) : Str := match r with | none => ['0'] | some r => r

theorem cmpStr_rev (r1 r2 : Option Str) :
    cmpStr dpkgRk (revOf0 r1) (revOf0 r2) = cmpStr dpkgRk (revOf r1) (revOf r2) := by
  cases r1 <;> cases r2 <;> simp [revOf, revOf0, cmpStr_zero_left, cmpStr_zero_right]

theorem sign_of_ordInt (o : Ordering) : sign (ordInt o) = ordInt o := by
  cases o <;> simp [sign, ordInt]

theorem sign_eq_zero_iff (d : Int) : sign d = 0 ↔ d = 0 := by
  constructor
  · intro h
    unfold sign at h
    split at h
    · exact absurd h (by decide)
    · split at h
      · assumption
      · exact absurd h (by decide)
  · intro h; subst h; rfl

theorem parse_epoch (a : Str) : (parse a).epoch = (Policy.split a).1 := rfl
theorem parse_version (a : Str) : (parse a).version = (Policy.split a).2.1 := rfl
theorem parse_revision (a : Str) :
    (parse a).revision = revOf (Policy.splitRevision (Policy.splitEpoch a).2).2 := rfl
theorem split_revision (a : Str) :
    (Policy.split a).2.2 = revOf0 (Policy.splitRevision (Policy.splitEpoch a).2).2 := rfl

/-- **the transliteration of dpkg's C comparison equals the declarative order on whole versions**, for
all strings: `sign (dpkg_version_compare (parseversion a) (parseversion b))` is the epoch / upstream /
revision cascade of `Spec.VerOrder.dpkgCmpVersions` -/
theorem compareStr_eq_declarative (a b : Str) : compareStr a b = dpkgCmpVersions a b := by
  unfold compareStr dpkgCmpVersions Dpkg.compare cmpVer
  rw [parse_epoch, parse_epoch, parse_version, parse_version, parse_revision, parse_revision,
    split_revision, split_revision, cmpStr_rev]
  generalize (Policy.split a).1 = e1
  generalize (Policy.split b).1 = e2
  generalize (Policy.split a).2.1 = u1
  generalize (Policy.split b).2.1 = u2
  generalize revOf (Policy.splitRevision (Policy.splitEpoch a).2).2 = r1
  generalize revOf (Policy.splitRevision (Policy.splitEpoch b).2).2 = r2
  rcases Nat.lt_trichotomy e1 e2 with h | h | h
  · have hlt : ((e1 : Int) < e2) := by omega
    have h1 : ¬ e1 > e2 := by omega
    simp [h1, h, cmpNat, (cmpInt_lt _ _).mpr hlt, Ordering.then, ordInt, sign]
  · subst h
    simp only [gt_iff_lt, Nat.lt_irrefl, if_false, cmpNat, (cmpInt_eq _ _).mpr rfl, Ordering.then]
    have hv := verrevcmp_eq u1 u2
    have hrv := verrevcmp_eq r1 r2
    by_cases hz : verrevcmp u1 u2 = 0
    · simp only [hz, ne_eq, not_true_eq_false, if_false]
      have : cmpStr dpkgRk u1 u2 = .eq := by
        rw [hz] at hv
        have : ordInt (cmpStr dpkgRk u1 u2) = 0 := by rw [← hv]; simp [sign]
        exact (Proofs.VersionOrder.ordInt_eq_zero _).mp this
      rw [this]
      simpa using hrv
    · simp only [hz, ne_eq, not_false_eq_true, if_true]
      rw [hv]
      have hne : cmpStr dpkgRk u1 u2 ≠ .eq := by
        intro e
        rw [e] at hv
        exact hz ((sign_eq_zero_iff _).mp (by simpa [ordInt] using hv))
      cases hcs : cmpStr dpkgRk u1 u2 with
      | eq => exact absurd hcs hne
      | lt => rfl
      | gt => rfl
  · have hgt : ((e2 : Int) < e1) := by omega
    simp [h, cmpNat, (cmpInt_gt _ _).mpr hgt, Ordering.then, ordInt, sign]

end Proofs.Verrevcmp
