/-
Lemmas about the Python string primitives of `Py/Str.lean`.
-/
import DebInspector.Py.Str

namespace Py

theorem partitionChar_not_mem (sep : Char) (s : Str) (h : sep ∉ s) :
    partitionChar sep s = (s, false, []) := by
  induction s with
  | nil => rfl
  | cons c cs ih =>
    have hc : c ≠ sep := fun e => h (by simp [e])
    have hcs : sep ∉ cs := fun m => h (by simp [m])
    simp [partitionChar, hc, ih hcs]

theorem partitionChar_split (sep : Char) (a b : Str) (h : sep ∉ a) :
    partitionChar sep (a ++ sep :: b) = (a, true, b) := by
  induction a with
  | nil => simp [partitionChar]
  | cons c cs ih =>
    have hc : c ≠ sep := fun e => h (by simp [e])
    have hcs : sep ∉ cs := fun m => h (by simp [m])
    simp [partitionChar, hc, ih hcs]

theorem partitionChar_found_iff (sep : Char) (s : Str) :
    (partitionChar sep s).2.1 = true ↔ sep ∈ s := by
  induction s with
  | nil => simp [partitionChar]
  | cons c cs ih =>
    by_cases hc : c = sep
    · simp [partitionChar, hc]
    · have : sep ≠ c := fun e => hc e.symm
      simp [partitionChar, hc, ih, this]

/-- the result of `partition` reassembles the string, and the head has no separator -/
theorem partitionChar_spec (sep : Char) (s : Str) :
    let p := partitionChar sep s
    sep ∉ p.1 ∧ (p.2.1 = true → s = p.1 ++ sep :: p.2.2) ∧ (p.2.1 = false → p.1 = s ∧ p.2.2 = []) := by
  induction s with
  | nil => simp [partitionChar]
  | cons c cs ih =>
    by_cases hc : c = sep
    · simp [partitionChar, hc]
    · have hne : sep ≠ c := fun e => hc e.symm
      obtain ⟨h1, h2, h3⟩ := ih
      simp only [partitionChar, hc, if_false]
      refine ⟨?_, ?_, ?_⟩
      · simp [hne, h1]
      · intro h; simp [← h2 h]
      · intro h; obtain ⟨e1, e2⟩ := h3 h; simp [e1, e2]

theorem rpartitionChar_not_mem (sep : Char) (s : Str) (h : sep ∉ s) :
    rpartitionChar sep s = ([], false, s) := by
  have : sep ∉ s.reverse := by simpa using h
  simp [rpartitionChar, partitionChar_not_mem sep _ this]

theorem rpartitionChar_split (sep : Char) (a b : Str) (h : sep ∉ b) :
    rpartitionChar sep (a ++ sep :: b) = (a, true, b) := by
  have hb : sep ∉ b.reverse := by simpa using h
  have e : (a ++ sep :: b).reverse = b.reverse ++ sep :: a.reverse := by simp
  simp [rpartitionChar, e, partitionChar_split sep _ _ hb]

theorem rpartitionChar_spec (sep : Char) (s : Str) :
    let p := rpartitionChar sep s
    (p.2.1 = true → s = p.1 ++ sep :: p.2.2 ∧ sep ∉ p.2.2) ∧
    (p.2.1 = false → sep ∉ s ∧ p.1 = [] ∧ p.2.2 = s) := by
  have hs := partitionChar_spec sep s.reverse
  simp only at hs
  obtain ⟨h1, h2, h3⟩ := hs
  by_cases hf : (partitionChar sep s.reverse).2.1 = true
  · have e := h2 hf
    have e' : s = (partitionChar sep s.reverse).2.2.reverse ++ sep :: (partitionChar sep s.reverse).1.reverse := by
      have := congrArg List.reverse e
      simpa using this
    simp only [rpartitionChar, hf, if_true]
    refine ⟨fun _ => ⟨e', by simpa using h1⟩, fun h => by simp at h⟩
  · have hf' : (partitionChar sep s.reverse).2.1 = false := by simpa using hf
    simp only [rpartitionChar, hf', Bool.false_eq_true, if_false]
    refine ⟨fun h => by simp at h, fun _ => ?_⟩
    have hm : sep ∉ s.reverse := fun m => hf ((partitionChar_found_iff sep s.reverse).mpr m)
    simpa using hm

theorem rpartitionChar_found_iff (sep : Char) (s : Str) :
    (rpartitionChar sep s).2.1 = true ↔ sep ∈ s := by
  have := partitionChar_found_iff sep s.reverse
  by_cases hf : (partitionChar sep s.reverse).2.1 = true
  · simp only [rpartitionChar, hf, if_true]; simpa using this.mp hf
  · have hf' : (partitionChar sep s.reverse).2.1 = false := by simpa using hf
    simp only [rpartitionChar, hf', Bool.false_eq_true, if_false]
    have hm : sep ∉ s.reverse := fun m => hf (this.mpr m)
    simpa using hm

theorem contains_iff_mem (s : Str) (c : Char) : s.contains c = true ↔ c ∈ s := by
  simp


@[simp] theorem lastP_nil (p : Char → Bool) : lastP p [] = false := rfl
@[simp] theorem lastP_single (p : Char → Bool) (c : Char) : lastP p [c] = p c := rfl

theorem lastP_append_cons (p : Char → Bool) (a : Str) (c : Char) (b : Str) :
    lastP p (a ++ c :: b) = lastP p (c :: b) := by
  induction a with
  | nil => rfl
  | cons x xs ih =>
    cases xs with
    | nil => simp [lastP]
    | cons y ys => simpa [lastP] using ih

theorem lastP_cons_ne_nil (p : Char → Bool) (c : Char) (s : Str) (h : s ≠ []) :
    lastP p (c :: s) = lastP p s := by
  cases s with
  | nil => exact absurd rfl h
  | cons x xs => rfl

theorem lastP_true_ne_nil {p : Char → Bool} {s : Str} (h : lastP p s = true) : s ≠ [] := by
  intro e; subst e; simp at h

/-- if the last character satisfies `p`, it is a member satisfying `p` -/
theorem lastP_mem {p : Char → Bool} {s : Str} (h : lastP p s = true) : ∃ a c, s = a ++ [c] ∧ p c = true := by
  induction s with
  | nil => simp at h
  | cons x xs ih =>
    cases xs with
    | nil => exact ⟨[], x, rfl, by simpa using h⟩
    | cons y ys =>
      obtain ⟨a, c, e, hc⟩ := ih (by simpa [lastP] using h)
      exact ⟨x :: a, c, by simp [e], hc⟩

end Py
