/-
Lemmas about the Python string primitives of `Py/Str.lean`.
-/
import DebInspector.Py.Str

namespace Py

theorem partitionChar_not_mem (sep : Char) (s : Str) (h : sep ∉ s) :
    partitionChar sep s = (s, false, []) := by
  induction s with
  | nil => rfl
  | cons c cs ih =>
    have hc : c ≠ sep := fun e => h (by simp [e])
    have hcs : sep ∉ cs := fun m => h (by simp [m])
    simp [partitionChar, hc, ih hcs]

theorem partitionChar_split (sep : Char) (a b : Str) (h : sep ∉ a) :
    partitionChar sep (a ++ sep :: b) = (a, true, b) := by
  induction a with
  | nil => simp [partitionChar]
  | cons c cs ih =>
    have hc : c ≠ sep := fun e => h (by simp [e])
    have hcs : sep ∉ cs := fun m => h (by simp [m])
    simp [partitionChar, hc, ih hcs]

theorem partitionChar_found_iff (sep : Char) (s : Str) :
    (partitionChar sep s).2.1 = true ↔ sep ∈ s := by
  induction s with
  | nil => simp [partitionChar]
  | cons c cs ih =>
    by_cases hc : c = sep
    · simp [partitionChar, hc]
    · have : sep ≠ c := fun e => hc e.symm
      simp [partitionChar, hc, ih, this]

/-- the result of `partition` reassembles the string, and the head has no separator -/
theorem partitionChar_spec (sep : Char) (s : Str) :
    let p := partitionChar sep s
    sep ∉ p.1 ∧ (p.2.1 = true → s = p.1 ++ sep :: p.2.2) ∧ (p.2.1 = false → p.1 = s ∧ p.2.2 = []) := by
  induction s with
  | nil => simp [partitionChar]
  | cons c cs ih =>
    by_cases hc : c = sep
    · simp [partitionChar, hc]
    · have hne : sep ≠ c := fun e => hc e.symm
      obtain ⟨h1, h2, h3⟩ := ih
      simp only [partitionChar, hc, if_false]
      refine ⟨?_, ?_, ?_⟩
      · simp [hne, h1]
      · intro h; simp [← h2 h]
      · intro h; obtain ⟨e1, e2⟩ := h3 h; simp [e1, e2]

theorem rpartitionChar_not_mem (sep : Char) (s : Str) (h : sep ∉ s) :
    rpartitionChar sep s = ([], false, s) := by
  have : sep ∉ s.reverse := by simpa using h
  simp [rpartitionChar, partitionChar_not_mem sep _ this]

theorem rpartitionChar_split (sep : Char) (a b : Str) (h : sep ∉ b) :
    rpartitionChar sep (a ++ sep :: b) = (a, true, b) := by
  have hb : sep ∉ b.reverse := by simpa using h
  have e : (a ++ sep :: b).reverse = b.reverse ++ sep :: a.reverse := by simp
  simp [rpartitionChar, e, partitionChar_split sep _ _ hb]

theorem rpartitionChar_spec (sep : Char) (s : Str) :
    let p := rpartitionChar sep s
    (p.2.1 = true → s = p.1 ++ sep :: p.2.2 ∧ sep ∉ p.2.2) ∧
    (p.2.1 = false → sep ∉ s ∧ p.1 = [] ∧ p.2.2 = s) := by
  have hs := partitionChar_spec sep s.reverse
  simp only at hs
  obtain ⟨h1, h2, h3⟩ := hs
  by_cases hf : (partitionChar sep s.reverse).2.1 = true
  · have e := h2 hf
    have e' : s = (partitionChar sep s.reverse).2.2.reverse ++ sep :: (partitionChar sep s.reverse).1.reverse := by
      have := congrArg List.reverse e
      simpa using this
    simp only [rpartitionChar, hf, if_true]
    refine ⟨fun _ => ⟨e', by simpa using h1⟩, fun h => by simp at h⟩
  · have hf' : (partitionChar sep s.reverse).2.1 = false := by simpa using hf
    simp only [rpartitionChar, hf', Bool.false_eq_true, if_false]
    refine ⟨fun h => by simp at h, fun _ => ?_⟩
    have hm : sep ∉ s.reverse := fun m => hf ((partitionChar_found_iff sep s.reverse).mpr m)
    simpa using hm

theorem rpartitionChar_found_iff (sep : Char) (s : Str) :
    (rpartitionChar sep s).2.1 = true ↔ sep ∈ s := by
  have := partitionChar_found_iff sep s.reverse
  by_cases hf : (partitionChar sep s.reverse).2.1 = true
  · simp only [rpartitionChar, hf, if_true]; simpa using this.mp hf
  · have hf' : (partitionChar sep s.reverse).2.1 = false := by simpa using hf
    simp only [rpartitionChar, hf', Bool.false_eq_true, if_false]
    have hm : sep ∉ s.reverse := fun m => hf (this.mpr m)
    simpa using hm

theorem contains_iff_mem (s : Str) (c : Char) : s.contains c = true ↔ c ∈ s := by
  simp


@[simp] theorem lastP_nil (p : Char → Bool) : lastP p [] = false := rfl
@[simp] theorem lastP_single (p : Char → Bool) (c : Char) : lastP p [c] = p c := rfl

theorem lastP_append_cons (p : Char → Bool) (a : Str) (c : Char) (b : Str) :
    lastP p (a ++ c :: b) = lastP p (c :: b) := by
  induction a with
  | nil => rfl
  | cons x xs ih =>
    cases xs with
    | nil => simp [lastP]
    | cons y ys => simpa [lastP] using ih

theorem lastP_cons_ne_nil (p : Char → Bool) (c : Char) (s : Str) (h : s ≠ []) :
    lastP p (c :: s) = lastP p s := by
  cases s with
  | nil => exact absurd rfl h
  | cons x xs => rfl

theorem lastP_true_ne_nil {p : Char → Bool} {s : Str} (h : lastP p s = true) : s ≠ [] := by
  intro e; subst e; simp at h

/-- if the last character satisfies `p`, it is a member satisfying `p` -/
theorem lastP_mem {p : Char → Bool} {s : Str} (h : lastP p s = true) : ∃ a c, s = a ++ [c] ∧ p c = true := by
  induction s with
  | nil => simp at h
  | cons x xs ih =>
    cases xs with
    | nil => exact ⟨[], x, rfl, by simpa using h⟩
    | cons y ys =>
      obtain ⟨a, c, e, hc⟩ := ih (by simpa [lastP] using h)
      exact ⟨x :: a, c, by simp [e], hc⟩

/-! ### blank strings, `strip`, `lstrip`, `rstrip` -/

theorem isBlank_cons (c : Char) (l : Str) : isBlank (c :: l) = (isSpace c && isBlank l) := by
  simp [isBlank]

theorem rstrip_eq_nil_iff (l : Str) : rstrip l = [] ↔ isBlank l = true := by
  induction l with
  | nil => simp [rstrip, isBlank]
  | cons c cs ih =>
    simp only [rstrip, isBlank_cons]
    cases h : rstrip cs with
    | nil =>
      have := ih.mp h
      by_cases hc : isSpace c = true <;> simp [hc, this]
    | cons d ds =>
      have : isBlank cs = false := by
        cases hb : isBlank cs with
        | false => rfl
        | true => have := ih.mpr hb; rw [h] at this; cases this
      simp [this]

theorem rstrip_cons_of_nonblank (c : Char) (cs : Str) (h : isBlank (c :: cs) = false) :
    rstrip (c :: cs) = c :: rstrip cs := by
  rw [isBlank_cons] at h
  simp only [rstrip]
  cases hr : rstrip cs with
  | nil =>
    have hb := (rstrip_eq_nil_iff cs).mp hr
    have : isSpace c = false := by simpa [hb] using h
    simp [this]
  | cons d ds => rfl

theorem rstrip_idem (l : Str) : rstrip (rstrip l) = rstrip l := by
  induction l with
  | nil => simp [rstrip]
  | cons c cs ih =>
    simp only [rstrip]
    cases hr : rstrip cs with
    | nil =>
      by_cases hc : isSpace c = true
      · simp [hc, rstrip]
      · simp [hc, rstrip]
    | cons d ds =>
      rw [hr] at ih
      show rstrip (c :: d :: ds) = c :: d :: ds
      rw [rstrip, ih]


theorem lstrip_cons_nonspace (c : Char) (cs : Str) (h : isSpace c = false) : lstrip (c :: cs) = c :: cs := by
  simp [lstrip, h]

theorem rstrip_subset (l : Str) : ∀ c ∈ rstrip l, c ∈ l := by
  induction l with
  | nil => intro c hc; simp [rstrip] at hc
  | cons a as ih =>
    intro c hc
    simp only [rstrip] at hc
    cases hr : rstrip as with
    | nil =>
      rw [hr] at hc
      by_cases ha : isSpace a = true
      · simp [ha] at hc
      · simp [ha] at hc; simp [hc]
    | cons d ds =>
      rw [hr] at hc
      simp only [List.mem_cons] at hc ⊢
      rcases hc with rfl | hc
      · exact Or.inl rfl
      · exact Or.inr (ih c (by rw [hr]; simpa using hc))

theorem lstrip_subset (l : Str) : ∀ c ∈ lstrip l, c ∈ l := by
  induction l with
  | nil => intro c hc; simp [lstrip] at hc
  | cons a as ih =>
    intro c hc
    simp only [lstrip] at hc
    split at hc
    · exact List.mem_cons_of_mem _ (ih c hc)
    · exact hc

theorem lstrip_head (l : Str) : headP isSpace (lstrip l) = false := by
  induction l with
  | nil => rfl
  | cons a as ih =>
    simp only [lstrip]
    split
    · exact ih
    · rename_i h; simpa [headP] using h

theorem rstrip_head {l : Str} (h : headP isSpace l = false) : headP isSpace (rstrip l) = false := by
  cases l with
  | nil => rfl
  | cons a as =>
    simp only [rstrip]
    cases rstrip as with
    | nil => simp only [headP] at h; simp [h, headP]
    | cons d ds => simpa [headP] using h

theorem strip_head (l : Str) : headP isSpace (strip l) = false := rstrip_head (lstrip_head l)

theorem lstrip_of_head {l : Str} (h : headP isSpace l = false) : lstrip l = l := by
  cases l with
  | nil => rfl
  | cons a as => simp only [headP] at h; simp [lstrip, h]

theorem isBlank_of_head {l : Str} (h : headP isSpace l = false) (hne : l ≠ []) : isBlank l = false := by
  cases l with
  | nil => exact absurd rfl hne
  | cons a as => simp only [headP] at h; simp [isBlank, h]

theorem lstrip_rstrip_comm (l : Str) : lstrip (rstrip l) = rstrip (lstrip l) := by
  induction l with
  | nil => rfl
  | cons a as ih =>
    by_cases ha : isSpace a = true
    · simp only [lstrip, ha, if_true, rstrip]
      cases hr : rstrip as with
      | nil => rw [hr] at ih; simp [lstrip, ← ih]
      | cons d ds =>
        rw [hr] at ih
        show lstrip (a :: d :: ds) = _
        rw [lstrip, if_pos ha, ih]
    · have ha' : isSpace a = false := by simpa using ha
      simp only [lstrip, ha', Bool.false_eq_true, if_false]
      exact lstrip_of_head (rstrip_head (by simp [headP, ha']))

theorem strip_rstrip (l : Str) : strip (rstrip l) = strip l := by
  unfold strip; rw [lstrip_rstrip_comm, rstrip_idem]

theorem isBlank_lstrip (l : Str) : isBlank (lstrip l) = isBlank l := by
  induction l with
  | nil => rfl
  | cons a as ih =>
    by_cases ha : isSpace a = true
    · simp [lstrip, ha, isBlank_cons, ih]
    · simp [lstrip, ha]

theorem strip_ne_nil {l : Str} (h : isBlank l = false) : strip l ≠ [] := by
  unfold strip
  intro e
  have := (rstrip_eq_nil_iff _).mp e
  rw [isBlank_lstrip, h] at this
  cases this

theorem isBlank_append (a b : Str) : isBlank (a ++ b) = (isBlank a && isBlank b) := by
  simp [isBlank, List.all_append]

theorem rstrip_append_nonblank (a b : Str) (hb : isBlank b = false) : rstrip (a ++ b) = a ++ rstrip b := by
  induction a with
  | nil => rfl
  | cons c cs ih =>
    have : isBlank (c :: (cs ++ b)) = false := by rw [isBlank_cons, isBlank_append, hb]; simp
    rw [List.cons_append, rstrip_cons_of_nonblank _ _ this, ih]; rfl

theorem isBlank_rstrip {l : Str} (h : isBlank l = false) : isBlank (rstrip l) = false := by
  cases hb : isBlank (rstrip l) with
  | false => rfl
  | true =>
    have h1 := (rstrip_eq_nil_iff (rstrip l)).mpr hb
    rw [rstrip_idem] at h1
    have := (rstrip_eq_nil_iff l).mp h1
    rw [h] at this; cases this


theorem lstrip_append_nonblank (a b : Str) (ha : isBlank a = false) : lstrip (a ++ b) = lstrip a ++ b := by
  induction a with
  | nil => simp [isBlank] at ha
  | cons c cs ih =>
    by_cases hc : isSpace c = true
    · have : isBlank cs = false := by rw [isBlank_cons, hc] at ha; simpa using ha
      simp [lstrip, hc, ih this]
    · simp [lstrip, hc]

theorem startsWith_decomp (s p : Str) (h : startsWith s p = true) : s = p ++ s.drop p.length := by
  induction p generalizing s with
  | nil => simp
  | cons c cs ih =>
    cases s with
    | nil => simp [startsWith] at h
    | cons d ds =>
      simp only [startsWith, Bool.and_eq_true, beq_iff_eq] at h
      obtain ⟨rfl, h2⟩ := h
      simp only [List.length_cons, List.drop_succ_cons, List.cons_append, List.cons.injEq, true_and]
      exact ih ds h2

theorem endsWith_decomp (s q : Str) (h : endsWith s q = true) : s = s.take (s.length - q.length) ++ q := by
  unfold endsWith at h
  have := startsWith_decomp s.reverse q.reverse h
  have h2 := congrArg List.reverse this
  simp only [List.reverse_reverse, List.reverse_append, List.length_reverse] at h2
  rw [List.drop_reverse] at h2
  simp only [List.reverse_reverse, List.length_reverse] at h2
  exact h2


end Py
