/-
`Model.Version.compareStrings` computes `Spec.VerOrder.cmpStr` for the implementation's rank table
(on strings whose characters are ASCII digits or have a rank).
-/
import DebInspector.Model.Version
import DebInspector.Spec.Dpkg
import DebInspector.Spec.VerOrder
import DebInspector.Proofs.StrLemmas

namespace Proofs.VersionCompare
open Py Spec Spec.VerOrder PadLex Model.Version

/-- the implementation's rank as a total function (`none` = end of run = `''`) -/
def modelRk (c : Option Char) : Int := (rankOf c).getD 0

/-- what the proofs need from the generated table and the Unicode digit table:
every allowed non-digit character and `''` have a rank, and `str.isdigit` is ASCII-digit on
the allowed characters -/
structure TableOK : Prop where
  endRank : (rankOf none).isSome = true
  charRank : ∀ c, Policy.upChar c = true → c.isDigit = false → (rankOf (some c)).isSome = true
  digitU : ∀ c, Policy.upChar c = true → isDigitU c = c.isDigit

def ordOpt : Ordering → Option Int
  | .lt => some (-1)
  | .eq => none
  | .gt => some 1

theorem spanNonDigit_all (s : Str) (P : Char → Bool) (h : s.all P = true) :
    (spanNonDigit s).1.all P = true ∧ (spanNonDigit s).2.all P = true := by
  induction s with
  | nil => simp [spanNonDigit]
  | cons c cs ih =>
    simp only [List.all_cons, Bool.and_eq_true] at h
    simp only [spanNonDigit]
    split
    · simp [h.1, h.2]
    · simp [h.1, ih h.2]

theorem spanDigits_all (s : Str) (P : Char → Bool) (h : s.all P = true) :
    (spanDigits s).1.all P = true ∧ (spanDigits s).2.all P = true := by
  induction s with
  | nil => simp [spanDigits]
  | cons c cs ih =>
    simp only [List.all_cons, Bool.and_eq_true] at h
    simp only [spanDigits]
    split
    · simp [h.1, ih h.2]
    · simp [h.1, h.2]

theorem spanNonDigit_nondigit (s : Str) : (spanNonDigit s).1.all (fun c => !c.isDigit) = true := by
  induction s with
  | nil => simp [spanNonDigit]
  | cons c cs ih =>
    simp only [spanNonDigit]
    split
    · simp
    · rename_i h; simp [h, ih]

variable (T : TableOK)
include T

theorem getNonDigitPrefix_eq (s : Str) (h : s.all Policy.upChar = true) :
    getNonDigitPrefix s = spanNonDigit s := by
  induction s with
  | nil => rfl
  | cons c cs ih =>
    simp only [List.all_cons, Bool.and_eq_true] at h
    simp only [getNonDigitPrefix, spanNonDigit, isDigitCh, T.digitU c h.1, ih h.2]

theorem getDigitPrefixAux_eq (s : Str) (h : s.all Policy.upChar = true) (v : Nat) :
    getDigitPrefixAux v s = .ok (Nat.ofDigitChars 10 (spanDigits s).1 v, (spanDigits s).2) := by
  induction s generalizing v with
  | nil => rfl
  | cons c cs ih =>
    simp only [List.all_cons, Bool.and_eq_true] at h
    simp only [getDigitPrefixAux, spanDigits, isDigitCh, T.digitU c h.1]
    by_cases hd : c.isDigit = true
    · simp only [hd, if_true, isAsciiDigit, ih h.2, Nat.ofDigitChars_cons]
      congr 3
      have : '0'.toNat = 48 := rfl
      rw [this, Nat.mul_comm]
    · simp [hd]

theorem getDigitPrefix_eq (s : Str) (h : s.all Policy.upChar = true) :
    getDigitPrefix s = .ok (digitsVal (spanDigits s).1, (spanDigits s).2) :=
  getDigitPrefixAux_eq T s h 0

/-- the `zip_longest` loop is the padded comparison of the two runs under the table's ranks -/
theorem lexPairs_eq (p q : Str)
    (hp : ∀ c ∈ p, (rankOf (some c)).isSome = true) (hq : ∀ c ∈ q, (rankOf (some c)).isSome = true) :
    lexPairs (zipLongest p q) = .ok (ordOpt (cmpRun modelRk p q)) := by
  obtain ⟨re, hre⟩ := Option.isSome_iff_exists.mp T.endRank
  induction p generalizing q with
  | nil =>
    induction q with
    | nil => simp [zipLongest, lexPairs, cmpRun, cmpPad, ordOpt]
    | cons b bs ih =>
      obtain ⟨rb, hrb⟩ := Option.isSome_iff_exists.mp (hq b (by simp))
      have ih' := ih (fun c hc => hq c (by simp [hc]))
      simp only [zipLongest, List.map_cons, lexPairs, hre, hrb] at ih' ⊢
      simp only [cmpRun, List.map_nil, List.map_cons, cmpPad, cmpRk, modelRk, hre, hrb, Option.getD_some]
      rcases Int.lt_trichotomy re rb with h | h | h
      · simp [h, (cmpInt_lt _ _).mpr h, ordOpt, Ordering.then]
      · subst h
        simp only [Int.lt_irrefl, if_false, (cmpInt_eq _ _).mpr rfl, Ordering.then]
        simpa [zipLongest, cmpRun] using ih'
      · have h' : ¬ re < rb := by omega
        simp [h, h', (cmpInt_gt _ _).mpr h, ordOpt, Ordering.then]
  | cons a as ih =>
    obtain ⟨ra, hra⟩ := Option.isSome_iff_exists.mp (hp a (by simp))
    cases q with
    | nil =>
      have ih' := ih [] (fun c hc => hp c (by simp [hc])) (by simp)
      simp only [zipLongest, lexPairs, hre, hra]
      simp only [cmpRun, List.map_nil, List.map_cons, cmpPad, cmpRk, modelRk, hre, hra, Option.getD_some]
      rcases Int.lt_trichotomy ra re with h | h | h
      · simp [h, (cmpInt_lt _ _).mpr h, ordOpt, Ordering.then]
      · subst h
        simp only [Int.lt_irrefl, if_false, (cmpInt_eq _ _).mpr rfl, Ordering.then]
        simpa [cmpRun] using ih'
      · have h' : ¬ ra < re := by omega
        simp [h, h', (cmpInt_gt _ _).mpr h, ordOpt, Ordering.then]
    | cons b bs =>
      obtain ⟨rb, hrb⟩ := Option.isSome_iff_exists.mp (hq b (by simp))
      have ih' := ih bs (fun c hc => hp c (by simp [hc])) (fun c hc => hq c (by simp [hc]))
      simp only [zipLongest, lexPairs, hra, hrb]
      simp only [cmpRun, List.map_cons, cmpPad, cmpRk, modelRk, hra, hrb, Option.getD_some]
      rcases Int.lt_trichotomy ra rb with h | h | h
      · simp [h, (cmpInt_lt _ _).mpr h, ordOpt, Ordering.then]
      · subst h
        simp only [Int.lt_irrefl, if_false, (cmpInt_eq _ _).mpr rfl, Ordering.then]
        simpa [cmpRun] using ih'
      · have h' : ¬ ra < rb := by omega
        simp [h, h', (cmpInt_gt _ _).mpr h, ordOpt, Ordering.then]


theorem rank_of_nondigit_run (s : Str) (h : s.all Policy.upChar = true) :
    ∀ c ∈ (spanNonDigit s).1, (rankOf (some c)).isSome = true := by
  intro c hc
  have h1 := List.all_eq_true.mp (spanNonDigit_all s _ h).1 c hc
  have h2 := List.all_eq_true.mp (spanNonDigit_nondigit s) c hc
  exact T.charRank c h1 (by simpa using h2)

/-- the outcome of one loop iteration, as a function of the comparison of the two first tokens -/
def stepOutcome (o : Ordering) (w : Str × Str) : Int ⊕ (Str × Str) :=
  match o with
  | .lt => .inl (-1)
  | .gt => .inl 1
  | .eq => .inr w

theorem cmpStep_eq (v1 v2 : Str) (h1 : v1.all Policy.upChar = true) (h2 : v2.all Policy.upChar = true) :
    cmpStep v1 v2 = .ok (stepOutcome (cmpTok modelRk (firstTok v1) (firstTok v2)) (afterTok v1, afterTok v2)) := by
  unfold cmpStep
  simp only [getNonDigitPrefix_eq T v1 h1, getNonDigitPrefix_eq T v2 h2]
  have hr1 := rank_of_nondigit_run T v1 h1
  have hr2 := rank_of_nondigit_run T v2 h2
  have ha1 := (spanNonDigit_all v1 _ h1).2
  have ha2 := (spanNonDigit_all v2 _ h2).2
  have hlex : (if (spanNonDigit v1).1 ≠ (spanNonDigit v2).1 then lexLoop (spanNonDigit v1).1 (spanNonDigit v2).1 else .ok none)
      = .ok (ordOpt (cmpRun modelRk (spanNonDigit v1).1 (spanNonDigit v2).1)) := by
    split
    · exact lexPairs_eq T _ _ hr1 hr2
    · rename_i he
      have he' : (spanNonDigit v1).1 = (spanNonDigit v2).1 := by simpa using he
      rw [he', (cmpRun_pre modelRk).refl]; rfl
  rw [hlex]
  simp only [getDigitPrefix_eq T _ ha1, getDigitPrefix_eq T _ ha2]
  simp only [cmpTok, cmpProd, firstTok, afterTok]
  cases hc : cmpRun modelRk (spanNonDigit v1).1 (spanNonDigit v2).1 with
  | lt => simp [ordOpt, Ordering.then, stepOutcome]
  | gt => simp [ordOpt, Ordering.then, stepOutcome]
  | eq =>
    simp only [ordOpt, Ordering.then]
    generalize digitsVal (spanDigits (spanNonDigit v1).2).1 = d1
    generalize digitsVal (spanDigits (spanNonDigit v2).2).1 = d2
    rcases Nat.lt_trichotomy d1 d2 with h | h | h
    · have : ((d1 : Int) < d2) := by omega
      simp [h, cmpNat, (cmpInt_lt _ _).mpr this, stepOutcome]
    · subst h
      simp [cmpNat, (cmpInt_eq _ _).mpr rfl, stepOutcome]
    · have : ((d2 : Int) < d1) := by omega
      have h' : ¬ d1 < d2 := by omega
      simp [h, h', cmpNat, (cmpInt_gt _ _).mpr this, stepOutcome]

omit T in
theorem afterTok_all (s : Str) (h : s.all Policy.upChar = true) : (afterTok s).all Policy.upChar = true :=
  (spanDigits_all _ _ (spanNonDigit_all s _ h).2).2

omit T in
theorem firstTok_nil : firstTok [] = ([], 0) := by
  simp [firstTok, spanNonDigit, spanDigits, digitsVal]
omit T in
theorem afterTok_nil : afterTok [] = [] := by
  simp [afterTok, spanNonDigit, spanDigits]

omit T in
/-- unfolding of the token comparison by one token on each side (a missing token is the padding) -/
theorem cmpStr_unfold (rk : Option Char → Int) (v1 v2 : Str) (h : ¬ (v1 = [] ∧ v2 = [])) :
    cmpStr rk v1 v2 = (cmpTok rk (firstTok v1) (firstTok v2)).then (cmpStr rk (afterTok v1) (afterTok v2)) := by
  unfold cmpStr
  by_cases e1 : v1 = []
  · by_cases e2 : v2 = []
    · exact absurd ⟨e1, e2⟩ h
    · subst e1
      rw [tokens_cons v2 e2, tokens_nil, afterTok_nil, firstTok_nil, tokens_nil]
      simp [cmpPad]
  · by_cases e2 : v2 = []
    · subst e2
      rw [tokens_cons v1 e1, tokens_nil, afterTok_nil, firstTok_nil, tokens_nil]
      simp [cmpPad]
    · rw [tokens_cons v1 e1, tokens_cons v2 e2]
      simp [cmpPad]

/-- **the implementation's loop computes the declarative order under its own rank table** -/
theorem compareStringsFuel_eq (n : Nat) (v1 v2 : Str)
    (h1 : v1.all Policy.upChar = true) (h2 : v2.all Policy.upChar = true)
    (hn : v1.length + v2.length ≤ n) :
    compareStringsFuel n v1 v2 = .ok (ordInt (cmpStr modelRk v1 v2)) := by
  induction n generalizing v1 v2 with
  | zero =>
    have e1 : v1 = [] := by cases v1 <;> simp_all
    have e2 : v2 = [] := by cases v2 <;> simp_all
    subst e1 e2
    simp [compareStringsFuel, cmpStr, tokens_nil, cmpPad, ordInt]
  | succ n ih =>
    unfold compareStringsFuel
    by_cases hb : v1 = [] ∧ v2 = []
    · obtain ⟨e1, e2⟩ := hb
      subst e1 e2
      simp [cmpStr, tokens_nil, cmpPad, ordInt]
    · have hb' : (v1.isEmpty && v2.isEmpty) = false := by
        cases v1 <;> cases v2 <;> simp_all
      simp only [hb', Bool.false_eq_true, if_false]
      rw [cmpStep_eq T v1 v2 h1 h2, cmpStr_unfold modelRk v1 v2 hb]
      cases hc : cmpTok modelRk (firstTok v1) (firstTok v2) with
      | lt => simp [stepOutcome, Ordering.then, ordInt]
      | gt => simp [stepOutcome, Ordering.then, ordInt]
      | eq =>
        simp only [stepOutcome, Ordering.then]
        apply ih _ _ (afterTok_all v1 h1) (afterTok_all v2 h2)
        have l1 : (afterTok v1).length ≤ v1.length := by
          by_cases e : v1 = []
          · subst e; simp [afterTok_nil]
          · exact Nat.le_of_lt (afterTok_lt v1 e)
        have l2 : (afterTok v2).length ≤ v2.length := by
          by_cases e : v2 = []
          · subst e; simp [afterTok_nil]
          · exact Nat.le_of_lt (afterTok_lt v2 e)
        by_cases e : v1 = []
        · have e2 : v2 ≠ [] := fun e2 => hb ⟨e, e2⟩
          have := afterTok_lt v2 e2
          omega
        · have := afterTok_lt v1 e
          omega

theorem compareStrings_eq (v1 v2 : Str)
    (h1 : v1.all Policy.upChar = true) (h2 : v2.all Policy.upChar = true) :
    compareStrings v1 v2 = .ok (ordInt (cmpStr modelRk v1 v2)) :=
  compareStringsFuel_eq T _ v1 v2 h1 h2 (Nat.le_refl _)

end Proofs.VersionCompare
