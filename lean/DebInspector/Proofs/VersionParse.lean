/-
`Model.Version.fromString` against `Spec.Policy` (C03).
-/
import DebInspector.Model.Version
import DebInspector.Spec.Dpkg
import DebInspector.Proofs.StrLemmas

namespace Proofs.VersionParse
open Py Spec Model.Version

theorem revChar_eq (c : Char) : isRevChar c = Policy.revChar c := rfl
theorem upChar_eq (c : Char) : isUpChar c = Policy.upChar c := rfl

theorem digit_ne_colon {c : Char} (h : isAsciiDigit c = true) : c ≠ ':' := by
  intro e; subst e; revert h; decide
theorem digit_ne_hyphen {c : Char} (h : isAsciiDigit c = true) : c ≠ '-' := by
  intro e; subst e; revert h; decide
theorem upChar_ne_colon {c : Char} (h : Policy.upChar c = true) : c ≠ ':' := by
  intro e; subst e; revert h; decide
theorem revChar_ne_hyphen {c : Char} (h : Policy.revChar c = true) : c ≠ '-' := by
  intro e; subst e; revert h; decide
theorem alnum_ne_hyphen {c : Char} (h : isAsciiAlnum c = true) : c ≠ '-' := by
  intro e; subst e; revert h; decide
theorem digit_alnum {c : Char} (h : isAsciiDigit c = true) : isAsciiAlnum c = true := by
  simp only [isAsciiDigit] at h; simp [isAsciiAlnum, Char.isAlphanum, h]
theorem digit_upChar {c : Char} (h : isAsciiDigit c = true) : Policy.upChar c = true := by
  simp [Policy.upChar, Policy.revChar, digit_alnum h]
theorem revChar_upChar {c : Char} (h : Policy.revChar c = true) : Policy.upChar c = true := by
  simp [Policy.upChar, h]
theorem upChar_not_hyphen_revChar {c : Char} (h : Policy.upChar c = true) (hn : c ≠ '-') :
    Policy.revChar c = true := by
  simp only [Policy.upChar, Bool.or_eq_true, decide_eq_true_eq] at h
  rcases h with h | h
  · exact h
  · exact absurd h hn

theorem all_upChar_no_colon {s : Str} (h : s.all Policy.upChar = true) : ':' ∉ s := by
  intro m
  have := (List.all_eq_true.mp h) _ m
  exact upChar_ne_colon this rfl

theorem all_revChar_no_hyphen {s : Str} (h : s.all Policy.revChar = true) : '-' ∉ s := by
  intro m
  have := (List.all_eq_true.mp h) _ m
  exact revChar_ne_hyphen this rfl

theorem all_revChar_upChar {s : Str} (h : s.all Policy.revChar = true) : s.all Policy.upChar = true := by
  rw [List.all_eq_true] at *
  intro c m; exact revChar_upChar (h c m)

/-- the three shapes of what may follow the first digit are all covered by the policy grammar -/
theorem afterEpoch_validRest (r : Str) (h : afterEpoch r = true) :
    Policy.validRest r = true ∧ ':' ∉ r := by
  cases r with
  | nil => simp [afterEpoch, headP] at h
  | cons c r' =>
    simp only [afterEpoch, headP, List.tail_cons, Bool.and_eq_true, Bool.or_eq_true] at h
    obtain ⟨hc, hr⟩ := h
    have hcu := digit_upChar hc
    rcases hr with (hr | hA) | hB
    · -- nothing after the first digit
      have : r' = [] := by simpa using hr
      subst this
      have hn : '-' ∉ [c] := by simpa using (digit_ne_hyphen hc).symm
      refine ⟨?_, by simpa using (digit_ne_colon hc).symm⟩
      simp [Policy.validRest, Policy.splitRevision, rpartitionChar_not_mem _ _ hn, headP, hc, hcu]
    · -- first alternative
      simp only [altA, Bool.and_eq_true] at hA
      obtain ⟨hall, hlast⟩ := hA
      have hr'ne : r' ≠ [] := lastP_true_ne_nil hlast
      have hlast' : lastP isAsciiAlnum (c :: r') = true := by rw [lastP_cons_ne_nil _ _ _ hr'ne]; exact hlast
      have hall' : (c :: r').all Policy.upChar = true := by
        simp only [List.all_cons, Bool.and_eq_true]; exact ⟨hcu, hall⟩
      refine ⟨?_, all_upChar_no_colon hall'⟩
      have hs := rpartitionChar_spec '-' (c :: r')
      simp only at hs
      obtain ⟨h1, h2⟩ := hs
      simp only [Policy.validRest, Policy.splitRevision]
      by_cases hf : (rpartitionChar '-' (c :: r')).2.1 = true
      · obtain ⟨e, hnb⟩ := h1 hf
        simp only [hf, if_true]
        generalize (rpartitionChar '-' (c :: r')).1 = u at e
        generalize (rpartitionChar '-' (c :: r')).2.2 = rv at e hnb
        have hall2 : (u ++ '-' :: rv).all Policy.upChar = true := by rw [← e]; exact hall'
        simp only [List.all_append, List.all_cons, Bool.and_eq_true] at hall2
        obtain ⟨hu, _, hrv⟩ := hall2
        have hu1 : headP isAsciiDigit u = true := by
          cases u with
          | nil => simp at e; exact absurd e.1 (digit_ne_hyphen hc)
          | cons d u' => simp at e; simp [headP, ← e.1, hc]
        have hrvne : rv ≠ [] := by
          intro e0; subst e0
          rw [e, lastP_append_cons] at hlast'
          revert hlast'; decide
        have hrv' : rv.all Policy.revChar = true := by
          rw [List.all_eq_true] at *
          intro x m
          exact upChar_not_hyphen_revChar (hrv x m) (fun e0 => hnb (e0 ▸ m))
        simp [hu1, hu, hrvne, hrv']
      · have hf' : (rpartitionChar '-' (c :: r')).2.1 = false := by simpa using hf
        simp only [hf', Bool.false_eq_true, if_false]
        simp [headP, hc, hall']
    · -- second alternative
      simp only [altB, Bool.and_eq_true] at hB
      obtain ⟨⟨⟨⟨hf, hx⟩, hxl⟩, hy⟩, hyl⟩ := hB
      have hs := partitionChar_spec '-' r'
      simp only at hs
      obtain ⟨_, h2, _⟩ := hs
      have e := h2 hf
      generalize (partitionChar '-' r').1 = x at e hx hxl
      generalize (partitionChar '-' r').2.2 = y at e hy hyl
      have hx : x.all Policy.revChar = true := hx
      have hy : y.all Policy.revChar = true := hy
      have hny : '-' ∉ y := all_revChar_no_hyphen hy
      have e2 : c :: r' = (c :: x) ++ '-' :: y := by simp [e]
      have hyne : y ≠ [] := lastP_true_ne_nil hyl
      have hxu := all_revChar_upChar hx
      have hyu := all_revChar_upChar hy
      refine ⟨?_, ?_⟩
      · simp only [Policy.validRest, Policy.splitRevision]
        rw [e2, rpartitionChar_split _ _ _ hny]
        simp [headP, hc, hcu, hxu, hyne, hy]
      · rw [e2]
        intro m
        simp only [List.mem_append, List.mem_cons] at m
        rcases m with (m | m) | m | m
        · exact digit_ne_colon hc m.symm
        · exact all_upChar_no_colon hxu m
        · revert m; decide
        · exact all_upChar_no_colon hyu m

/-- decomposition of `isValidVersion` -/
theorem isValidVersion_valid (t : Str) (h : isValidVersion t = true) : Policy.valid t = true := by
  simp only [isValidVersion] at h
  have hs := partitionChar_spec ':' t
  simp only at hs
  obtain ⟨_, h2, h3⟩ := hs
  split at h
  · rename_i hc
    simp only [Bool.and_eq_true, Bool.not_eq_true', List.isEmpty_eq_false_iff] at hc
    obtain ⟨⟨hf, hne⟩, hd⟩ := hc
    have := afterEpoch_validRest _ h
    simp [Policy.valid, Policy.splitEpoch, hf, Policy.validEpoch, hne, hd, this.1]
  · have := afterEpoch_validRest _ h
    have hnf : (partitionChar ':' t).2.1 = false := by
      cases hf : (partitionChar ':' t).2.1 with
      | false => rfl
      | true => exact absurd ((partitionChar_found_iff ':' t).mp hf) this.2
    simp [Policy.valid, Policy.splitEpoch, hnf, Policy.validEpoch, this.1]


theorem pyIntDigits_cases (s : Str) :
    pyIntDigits s = .ok (digitsVal s) ∨ pyIntDigits s = .error .valueError := by
  unfold pyIntDigits; split <;> simp

theorem parseEpoch_cases (t : Str) :
    parseEpoch t = .error .valueError ∨
    parseEpoch t = .ok ((match (Policy.splitEpoch t).1 with | none => 0 | some e => digitsVal e),
                        (Policy.splitEpoch t).2) := by
  unfold parseEpoch Policy.splitEpoch
  by_cases hm : ':' ∈ t
  · have hf := (partitionChar_found_iff ':' t).mpr hm
    have hcm : t.contains ':' = true := by simpa using hm
    simp only [hcm, hf, if_true]
    rcases pyIntDigits_cases (partitionChar ':' t).1 with h | h <;> simp [h]
  · have hf : (partitionChar ':' t).2.1 = false := by
      cases h : (partitionChar ':' t).2.1 with
      | false => rfl
      | true => exact absurd ((partitionChar_found_iff ':' t).mp h) hm
    simp [hm, hf]

theorem parseRevision_eq (e : Nat) (rest : Str) :
    parseRevision e rest =
      ⟨e, (Policy.splitRevision rest).1,
          (match (Policy.splitRevision rest).2 with | none => ['0'] | some r => r)⟩ := by
  unfold parseRevision Policy.splitRevision
  by_cases hm : '-' ∈ rest
  · have hf := (rpartitionChar_found_iff '-' rest).mpr hm
    simp [hm, hf]
  · have hf : (rpartitionChar '-' rest).2.1 = false := by
      cases h : (rpartitionChar '-' rest).2.1 with
      | false => rfl
      | true => exact absurd ((rpartitionChar_found_iff '-' rest).mp h) hm
    simp [hm, hf]

/-- every error of `from_string` is a `ValueError` -/
theorem fromString_error (s : Str) (x : PyExc) (h : fromString s = .error x) : x = .valueError := by
  unfold fromString at h
  simp only at h
  split at h
  · cases h; rfl
  · split at h
    · cases h; rfl
    · rcases parseEpoch_cases (strip s) with h' | h' <;> rw [h'] at h <;> simp at h
      exact h.symm

/-- an accepted string is policy-valid and split as dpkg splits it -/
theorem fromString_ok (s : Str) (v : Ver) (h : fromString s = .ok v) :
    Policy.valid (strip s) = true ∧ (v.epoch, v.upstream, v.revision) = Policy.split (strip s) := by
  unfold fromString at h
  simp only at h
  split at h
  · cases h
  · split at h
    · cases h
    · rename_i hv
      have hv' : isValidVersion (strip s) = true := by simpa using hv
      refine ⟨isValidVersion_valid _ hv', ?_⟩
      rcases parseEpoch_cases (strip s) with h' | h' <;> rw [h'] at h <;> simp at h
      subst h
      simp only [parseRevision_eq, Policy.split]
      refine Prod.ext ?_ (Prod.ext ?_ ?_) <;> rfl


theorem headP_cons {p : Char → Bool} {s : Str} (h : headP p s = true) : ∃ c r, s = c :: r ∧ p c = true := by
  cases s with
  | nil => simp [headP] at h
  | cons c r => exact ⟨c, r, rfl, by simpa [headP] using h⟩

/-- policy-valid rest whose upstream and revision end in an alphanumeric matches the pattern -/
theorem validRest_afterEpoch (r : Str) (hv : Policy.validRest r = true)
    (hu : Policy.endsAlnum (Policy.splitRevision r).1 = true)
    (hr : (match (Policy.splitRevision r).2 with | none => true | some rv => Policy.endsAlnum rv) = true) :
    afterEpoch r = true := by
  have hs := rpartitionChar_spec '-' r
  simp only at hs
  obtain ⟨h1, h2⟩ := hs
  simp only [Policy.validRest, Policy.splitRevision, Bool.and_eq_true] at hv hu hr
  by_cases hf : (rpartitionChar '-' r).2.1 = true
  · obtain ⟨e, hnb⟩ := h1 hf
    simp only [hf, if_true] at hv hu hr
    generalize (rpartitionChar '-' r).1 = u at e hv hu
    generalize (rpartitionChar '-' r).2.2 = rv at e hnb hv hr
    obtain ⟨⟨hd, hua⟩, hrv⟩ := hv
    simp only [Bool.and_eq_true, Bool.not_eq_true', List.isEmpty_eq_false_iff] at hrv
    obtain ⟨hrvne, hrva⟩ := hrv
    obtain ⟨c, u', eu, hc⟩ := headP_cons hd
    subst eu
    subst e
    have hall : (u' ++ '-' :: rv).all isUpChar = true := by
      have hua' : u'.all Policy.upChar = true := by
        simp only [List.all_cons, Bool.and_eq_true] at hua; exact hua.2
      have := all_revChar_upChar hrva
      simp only [List.all_append, List.all_cons, Bool.and_eq_true]
      exact ⟨hua', by decide, this⟩
    have hlast : lastP isAsciiAlnum (u' ++ '-' :: rv) = true := by
      rw [lastP_append_cons, lastP_cons_ne_nil _ _ _ hrvne]; exact hr
    simp [afterEpoch, headP, hc, altA, hall, hlast]
  · have hf' : (rpartitionChar '-' r).2.1 = false := by simpa using hf
    simp only [hf', Bool.false_eq_true, if_false] at hv hu hr
    obtain ⟨⟨hd, hua⟩, _⟩ := hv
    obtain ⟨c, r', er, hc⟩ := headP_cons hd
    subst er
    by_cases hr' : r' = []
    · subst hr'; simp [afterEpoch, headP, hc]
    · have hall : r'.all isUpChar = true := by
        simp only [List.all_cons, Bool.and_eq_true] at hua; exact hua.2
      have hlast : lastP isAsciiAlnum r' = true := by
        rw [← lastP_cons_ne_nil _ c _ hr']; exact hu
      simp [afterEpoch, headP, hc, altA, hall, hlast]

theorem afterEpoch_ne_nil {r : Str} (h : afterEpoch r = true) : r ≠ [] := by
  intro e; subst e; simp [afterEpoch, headP] at h

/-- every string C03 says must be accepted is accepted -/
theorem mustAccept_fromString (s : Str)
    (h : Policy.mustAccept Generated.intMaxStrDigits (strip s) = true) :
    ∃ v, fromString s = .ok v := by
  unfold fromString
  simp only
  generalize strip s = t at h
  simp only [Policy.mustAccept, Policy.valid, Policy.splitEpoch, Bool.and_eq_true] at h
  obtain ⟨⟨⟨⟨hve, hvr⟩, hu⟩, hr⟩, hlen⟩ := h
  have hs := partitionChar_spec ':' t
  simp only at hs
  obtain ⟨_, h2, h3⟩ := hs
  by_cases hf : (partitionChar ':' t).2.1 = true
  · simp only [hf, if_true] at hve hvr hu hr hlen
    have hae := validRest_afterEpoch _ hvr hu hr
    have hm : ':' ∈ t := (partitionChar_found_iff ':' t).mp hf
    have hne : t.isEmpty = false := by
      cases t with
      | nil => simp at hm
      | cons _ _ => rfl
    simp only [Policy.validEpoch, Bool.and_eq_true, Bool.not_eq_true', List.isEmpty_eq_false_iff] at hve
    have hiv : isValidVersion t = true := by
      simp [isValidVersion, hf, hve.1, hve.2, hae]
    have hint : pyIntDigits (partitionChar ':' t).1 = .ok (digitsVal (partitionChar ':' t).1) := by
      unfold pyIntDigits
      simp only [Bool.or_eq_true, decide_eq_true_eq] at hlen
      split
      · rename_i hc; omega
      · rfl
    simp [hne, hiv, parseEpoch, hm, hint]
  · have hf' : (partitionChar ':' t).2.1 = false := by simpa using hf
    simp only [hf', Bool.false_eq_true, if_false] at hve hvr hu hr hlen
    have hae := validRest_afterEpoch _ hvr hu hr
    have hm : ':' ∉ t := fun m => hf ((partitionChar_found_iff ':' t).mpr m)
    have hne : t.isEmpty = false := by
      have := afterEpoch_ne_nil hae
      cases t with
      | nil => exact absurd rfl this
      | cons _ _ => rfl
    have hiv : isValidVersion t = true := by
      simp [isValidVersion, hf', hae]
    simp [hne, hiv, parseEpoch, hm]

end Proofs.VersionParse
