/-
Whole-version comparison: `compare_version_objects` / `compare_versions` compute
`Spec.VerOrder.cmpVer` under dpkg's ranks, for all accepted version strings.
-/
import DebInspector.Tie.VersionTables
import DebInspector.Proofs.VersionParse

namespace Proofs.VersionOrder
open Py Spec Spec.VerOrder PadLex Model.Version Proofs.VersionCompare Proofs.VersionParse Tie.VersionTables

/-- `compare_strings` against the declarative order with dpkg's ranks -/
theorem compareStrings_dpkg (a b : Str) (ha : a.all Policy.upChar = true) (hb : b.all Policy.upChar = true) :
    compareStrings a b = .ok (ordInt (cmpStr dpkgRk a b)) := by
  rw [compareStrings_eq tableOK a b ha hb, cmpStr_iso a b ha hb]

theorem ordInt_eq_zero (o : Ordering) : ordInt o = 0 ↔ o = .eq := by
  cases o <;> simp [ordInt]

theorem cmpStr_nil_nil (rk : Option Char → Int) : cmpStr rk [] [] = .eq := by
  simp [cmpStr, tokens_nil, cmpPad]

def tupleOf (v : Ver) : Nat × Str × Str := (v.epoch, v.upstream, v.revision)

/-- `compare_version_objects` on versions whose components use only allowed characters -/
theorem compareVersionObjects_eq (a b : Ver)
    (hau : a.upstream.all Policy.upChar = true) (har : a.revision.all Policy.upChar = true)
    (hbu : b.upstream.all Policy.upChar = true) (hbr : b.revision.all Policy.upChar = true) :
    compareVersionObjects a b = .ok (ordInt (cmpVer dpkgRk (tupleOf a) (tupleOf b))) := by
  unfold compareVersionObjects cmpVer tupleOf
  simp only
  rcases Nat.lt_trichotomy a.epoch b.epoch with h | h | h
  · have : ((a.epoch : Int) < b.epoch) := by omega
    simp [h, cmpNat, (cmpInt_lt _ _).mpr this, Ordering.then, ordInt]
  · simp only [h, gt_iff_lt, Nat.lt_irrefl, if_false, cmpNat, (cmpInt_eq _ _).mpr rfl, Ordering.then]
    rw [compareStrings_dpkg _ _ hau hbu]
    simp only
    cases hc : cmpStr dpkgRk a.upstream b.upstream with
    | lt => simp [ordInt]
    | gt => simp [ordInt]
    | eq =>
      have h00 : ¬ ((0 : Int) ≠ 0) := by simp
      simp only [ordInt, h00, if_false]
      by_cases hcond : (!a.revision.isEmpty || !b.revision.isEmpty) = true
      · simp only [hcond, if_true]
        exact compareStrings_dpkg _ _ har hbr
      · simp only [hcond, if_false]
        have h1 : a.revision = [] := by
          cases hr : a.revision with
          | nil => rfl
          | cons _ _ => simp [hr] at hcond
        have h2 : b.revision = [] := by
          cases hr : b.revision with
          | nil => rfl
          | cons _ _ => simp [hr] at hcond
        rw [h1, h2, cmpStr_nil_nil]
        simp
  · have hne : ¬ a.epoch < b.epoch := by omega
    have : ((b.epoch : Int) < a.epoch) := by omega
    simp [hne, h, cmpNat, (cmpInt_gt _ _).mpr this, Ordering.then, ordInt]

/-- the components of a policy-valid version contain only allowed characters -/
theorem valid_components (t : Str) (h : Policy.valid t = true) :
    (Policy.split t).2.1.all Policy.upChar = true ∧ (Policy.split t).2.2.all Policy.upChar = true := by
  simp only [Policy.valid, Bool.and_eq_true] at h
  obtain ⟨_, hr⟩ := h
  simp only [Policy.validRest, Bool.and_eq_true] at hr
  obtain ⟨⟨_, hu⟩, hrv⟩ := hr
  simp only [Policy.split]
  refine ⟨hu, ?_⟩
  cases hh : (Policy.splitRevision (Policy.splitEpoch t).2).2 with
  | none => decide
  | some r =>
    rw [hh] at hrv
    simp only [Bool.and_eq_true] at hrv
    exact all_revChar_upChar hrv.2

/-- **`compare_versions` on two strings**: whenever both are accepted, the result is the
declarative dpkg order of their dpkg decompositions -/
theorem compareVersions_eq (a b : Str) (va vb : Ver)
    (ha : fromString a = .ok va) (hb : fromString b = .ok vb) :
    compareVersions a b =
      .ok (ordInt (cmpVer dpkgRk (Policy.split (strip a)) (Policy.split (strip b)))) := by
  unfold compareVersions
  simp only [ha, hb]
  obtain ⟨hva, hsa⟩ := fromString_ok a va ha
  obtain ⟨hvb, hsb⟩ := fromString_ok b vb hb
  have ca := valid_components _ hva
  have cb := valid_components _ hvb
  rw [← hsa] at ca
  rw [← hsb] at cb
  rw [compareVersionObjects_eq va vb ca.1 ca.2 cb.1 cb.2]
  simp only [tupleOf, hsa, hsb]

theorem compareVersions_error (a b : Str) (e : PyExc) (h : compareVersions a b = .error e) :
    e = .valueError := by
  cases ha : fromString a with
  | error x =>
    unfold compareVersions at h
    rw [ha] at h; simp only at h; cases h; exact fromString_error a _ ha
  | ok va =>
    cases hb : fromString b with
    | error x =>
      unfold compareVersions at h
      rw [ha, hb] at h; simp only at h; cases h; exact fromString_error b _ hb
    | ok vb =>
      rw [compareVersions_eq a b va vb ha hb] at h
      cases h

end Proofs.VersionOrder
