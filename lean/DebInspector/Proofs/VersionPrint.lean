/-
`Model.Version.toStr` against `fromString` (C04).
-/
import DebInspector.Proofs.VersionParse

namespace Proofs.VersionPrint
open Py Spec Model.Version Proofs.VersionParse

/-! ### decimal printing -/

theorem natToStr_digits (n : Nat) : (natToStr n).all isAsciiDigit = true := by
  rw [List.all_eq_true]
  intro c hc
  exact Nat.isDigit_of_mem_toDigits (by decide) (by decide) hc

theorem natToStr_ne_nil (n : Nat) : natToStr n ≠ [] := Nat.toDigits_ne_nil

theorem digitsVal_natToStr (n : Nat) : digitsVal (natToStr n) = n :=
  Nat.ofDigitChars_toDigits (by decide) (by decide)

theorem digit_val_le {c : Char} (h : c.isDigit = true) : c.toNat - '0'.toNat ≤ 9 := by
  simp only [Char.isDigit, Bool.and_eq_true, decide_eq_true_eq] at h
  have h2 := h.2
  have : c.toNat = c.val.toNat := rfl
  have e0 : '0'.toNat = 48 := rfl
  rw [e0]
  have : c.val.toNat ≤ 57 := by
    have := UInt32.le_iff_toNat_le.mp h2
    simpa using this
  omega

theorem ofDigitChars_lt (l : Str) (h : l.all Char.isDigit = true) (init : Nat) :
    Nat.ofDigitChars 10 l init < 10 ^ l.length * (init + 1) := by
  induction l generalizing init with
  | nil => simp
  | cons c cs ih =>
    simp only [List.all_cons, Bool.and_eq_true] at h
    have hd := digit_val_le h.1
    rw [Nat.ofDigitChars_cons]
    have := ih h.2 (10 * init + (c.toNat - '0'.toNat))
    calc Nat.ofDigitChars 10 cs (10 * init + (c.toNat - '0'.toNat))
        < 10 ^ cs.length * (10 * init + (c.toNat - '0'.toNat) + 1) := this
      _ ≤ 10 ^ cs.length * (10 * (init + 1)) := Nat.mul_le_mul_left _ (by omega)
      _ = 10 ^ (c :: cs).length * (init + 1) := by
        rw [List.length_cons, Nat.pow_succ, Nat.mul_assoc]

/-- printing an integer never needs more digits than any digit string that denotes it -/
theorem natToStr_length_le (es : Str) (hne : es ≠ []) (hd : es.all isAsciiDigit = true) :
    (natToStr (digitsVal es)).length ≤ es.length := by
  have hpos : 0 < es.length := List.length_pos_iff.mpr hne
  rw [natToStr, Nat.length_toDigits_le_iff (by decide) hpos]
  have := ofDigitChars_lt es hd 0
  simpa [digitsVal] using this

theorem digit_not_colon (ds : Str) (h : ds.all isAsciiDigit = true) : ':' ∉ ds := by
  intro m; exact digit_ne_colon (List.all_eq_true.mp h _ m) rfl
theorem digit_not_hyphen (ds : Str) (h : ds.all isAsciiDigit = true) : '-' ∉ ds := by
  intro m; exact digit_ne_hyphen (List.all_eq_true.mp h _ m) rfl

/-! ### the validity recogniser on `digits:rest` and on `rest` -/

theorem isValid_rest (rest : Str) (h : afterEpoch rest = true) : isValidVersion rest = true := by
  have hnc := (afterEpoch_validRest rest h).2
  have hf : (partitionChar ':' rest).2.1 = false := by
    cases hh : (partitionChar ':' rest).2.1 with
    | false => rfl
    | true => exact absurd ((partitionChar_found_iff ':' rest).mp hh) hnc
  simp [isValidVersion, hf, h]

theorem isValid_epoch_rest (ds rest : Str) (hne : ds ≠ []) (hd : ds.all isAsciiDigit = true)
    (h : afterEpoch rest = true) : isValidVersion (ds ++ ':' :: rest) = true := by
  have := partitionChar_split ':' ds rest (digit_not_colon ds hd)
  simp [isValidVersion, this, hne, hd, h]

/-! ### whitespace: printed versions are not changed by `strip` -/

def verChar (c : Char) : Bool := Policy.upChar c || c = ':'

theorem space_not_verChar : ∀ n ∈ Generated.spaceCodes, verChar (Char.ofNat n) = false := by decide

theorem verChar_not_space {c : Char} (h : verChar c = true) : isSpace c = false := by
  cases hs : isSpace c with
  | false => rfl
  | true =>
    have hm : c.toNat ∈ Generated.spaceCodes := by simpa [isSpace] using hs
    have := space_not_verChar _ hm
    rw [Char.ofNat_toNat] at this
    rw [this] at h; cases h

theorem lstrip_id {s : Str} (h : ∀ c ∈ s, isSpace c = false) : lstrip s = s := by
  cases s with
  | nil => rfl
  | cons c cs => simp [lstrip, h c (by simp)]

theorem rstrip_id {s : Str} (h : ∀ c ∈ s, isSpace c = false) : rstrip s = s := by
  induction s with
  | nil => rfl
  | cons c cs ih =>
    have hcs : ∀ d ∈ cs, isSpace d = false := fun d hd => h d (by simp [hd])
    simp only [rstrip, ih hcs]
    cases cs with
    | nil => simp [h c (by simp)]
    | cons d ds => rfl

theorem strip_id {s : Str} (h : ∀ c ∈ s, isSpace c = false) : strip s = s := by
  simp [strip, lstrip_id h, rstrip_id h]


/-! ### what `fromString` guarantees about an accepted version -/

def epochPrefix (e : Nat) : Str := if e ≠ 0 then natToStr e ++ [':'] else []

/-- the epoch can be printed and read back: it is the value of a digit string short enough for `int()` -/
def EpochOk (e : Nat) : Prop :=
  ∃ es : Str, es ≠ [] ∧ es.all isAsciiDigit = true ∧ digitsVal es = e ∧
    (Generated.intMaxStrDigits = 0 ∨ es.length ≤ Generated.intMaxStrDigits)

@[simp] theorem parseRevision_epoch (e : Nat) (rest : Str) : (parseRevision e rest).epoch = e := by
  unfold parseRevision; split <;> rfl

theorem parseRevision_mem (e : Nat) (rest : Str) (h : '-' ∈ rest) :
    parseRevision e rest = ⟨e, (rpartitionChar '-' rest).1, (rpartitionChar '-' rest).2.2⟩ := by
  simp [parseRevision, h]

theorem parseRevision_not_mem (e : Nat) (rest : Str) (h : '-' ∉ rest) :
    parseRevision e rest = ⟨e, rest, ['0']⟩ := by
  simp [parseRevision, h]

theorem pyIntDigits_ok_len (s : Str) (n : Nat) (h : pyIntDigits s = .ok n) :
    n = digitsVal s ∧ (Generated.intMaxStrDigits = 0 ∨ s.length ≤ Generated.intMaxStrDigits) := by
  unfold pyIntDigits at h
  split at h
  · cases h
  · rename_i hc
    simp only [Except.ok.injEq] at h
    refine ⟨h.symm, ?_⟩
    by_cases h0 : Generated.intMaxStrDigits = 0
    · exact Or.inl h0
    · right
      have : ¬ (s.length > Generated.intMaxStrDigits) := fun hgt => hc ⟨h0, hgt⟩
      omega

theorem fromString_shape (s : Str) (v : Ver) (h : fromString s = .ok v) :
    ∃ e rest, afterEpoch rest = true ∧ v = parseRevision e rest ∧ (e = 0 ∨ EpochOk e) := by
  unfold fromString at h
  simp only at h
  split at h
  · cases h
  · split at h
    · cases h
    · rename_i hv
      have hv' : isValidVersion (strip s) = true := by simpa using hv
      generalize strip s = t at h hv'
      simp only [isValidVersion] at hv'
      unfold parseEpoch at h
      split at hv'
      · rename_i hc
        simp only [Bool.and_eq_true, Bool.not_eq_true', List.isEmpty_eq_false_iff] at hc
        obtain ⟨⟨hf, hne⟩, hd⟩ := hc
        have hm : t.contains ':' = true := by
          simpa using (partitionChar_found_iff ':' t).mp hf
        simp only [hm, if_true] at h
        cases hpi : pyIntDigits (partitionChar ':' t).1 with
        | error x => rw [hpi] at h; simp at h
        | ok n =>
          rw [hpi] at h
          simp only [Except.ok.injEq] at h
          obtain ⟨hn, hlen⟩ := pyIntDigits_ok_len _ _ hpi
          subst hn
          exact ⟨_, _, hv', h.symm, Or.inr ⟨_, hne, hd, rfl, hlen⟩⟩
      · have hnc := (afterEpoch_validRest t hv').2
        have hm : t.contains ':' = false := by simpa using hnc
        simp only [hm, Bool.false_eq_true, if_false] at h
        cases h
        exact ⟨0, t, hv', rfl, Or.inl rfl⟩

theorem pyIntDigits_natToStr (e : Nat) (h : EpochOk e) : pyIntDigits (natToStr e) = .ok e := by
  obtain ⟨es, hne, hd, hval, hlen⟩ := h
  unfold pyIntDigits
  have hle : (natToStr e).length ≤ es.length := by
    rw [← hval]; exact natToStr_length_le es hne hd
  split
  · rename_i hc
    rcases hlen with h0 | h1
    · exact absurd h0 hc.1
    · have := hc.2; omega
  · rw [digitsVal_natToStr]

/-- reading back a printed epoch prefix followed by colon-free text -/
theorem parseEpoch_print (e : Nat) (x : Str) (hx : ':' ∉ x) (he : e = 0 ∨ EpochOk e) :
    parseEpoch (epochPrefix e ++ x) = .ok (e, x) := by
  unfold epochPrefix
  by_cases h0 : e = 0
  · subst h0
    simp [parseEpoch, hx]
  · have hok : EpochOk e := by
      rcases he with h | h
      · exact absurd h h0
      · exact h
    have hd := natToStr_digits e
    have hsplit := partitionChar_split ':' (natToStr e) x (digit_not_colon _ hd)
    simp only [h0, ne_eq, not_false_eq_true, if_true]
    have e1 : natToStr e ++ [':'] ++ x = natToStr e ++ ':' :: x := by simp
    rw [e1]
    have hm : (natToStr e ++ ':' :: x).contains ':' = true := by simp
    unfold parseEpoch
    simp only [hm, if_true]
    rw [hsplit]
    simp [pyIntDigits_natToStr e hok]

theorem epochPrefix_verChar (e : Nat) : ∀ c ∈ epochPrefix e, verChar c = true := by
  intro c hc
  unfold epochPrefix at hc
  split at hc
  · simp only [List.mem_append, List.mem_singleton] at hc
    rcases hc with hc | hc
    · have := List.all_eq_true.mp (natToStr_digits e) c hc
      simp [verChar, digit_upChar this]
    · subst hc; decide
  · cases hc

theorem epochPrefix_no_hyphen (e : Nat) : '-' ∉ epochPrefix e := by
  intro hc
  unfold epochPrefix at hc
  split at hc
  · simp only [List.mem_append, List.mem_singleton] at hc
    rcases hc with hc | hc
    · exact digit_not_hyphen _ (natToStr_digits e) hc
    · cases hc
  · cases hc

theorem isValid_print (e : Nat) (rest : Str) (h : afterEpoch rest = true) :
    isValidVersion (epochPrefix e ++ rest) = true := by
  unfold epochPrefix
  split
  · have := isValid_epoch_rest (natToStr e) rest (natToStr_ne_nil e) (natToStr_digits e) h
    simpa using this
  · simpa using isValid_rest rest h

/-- validity of a printed prefix gives the pattern's tail on what follows the epoch -/
theorem afterEpoch_of_isValid_print (e : Nat) (u : Str) (hu : ':' ∉ u)
    (h : isValidVersion (epochPrefix e ++ u) = true) : afterEpoch u = true := by
  unfold epochPrefix at h
  split at h
  · have hsp := partitionChar_split ':' (natToStr e) u (digit_not_colon _ (natToStr_digits _))
    have e1 : natToStr e ++ [':'] ++ u = natToStr e ++ ':' :: u := by simp
    rw [e1] at h
    simp only [isValidVersion, hsp] at h
    simpa [natToStr_ne_nil, natToStr_digits] using h
  · simp only [List.nil_append] at h
    have hfn : (partitionChar ':' u).2.1 = false := by
      cases hh : (partitionChar ':' u).2.1 with
      | false => rfl
      | true => exact absurd ((partitionChar_found_iff ':' _).mp hh) hu
    simpa [isValidVersion, hfn] using h

theorem afterEpoch_verChar (rest : Str) (h : afterEpoch rest = true) : ∀ c ∈ rest, verChar c = true := by
  have hv := (afterEpoch_validRest rest h).1
  intro c hc
  simp only [Policy.validRest, Bool.and_eq_true] at hv
  obtain ⟨⟨_, hu⟩, hr⟩ := hv
  have hs := rpartitionChar_spec '-' rest
  simp only at hs
  simp only [Policy.splitRevision] at hu hr
  by_cases hf : (rpartitionChar '-' rest).2.1 = true
  · simp only [hf, if_true] at hu hr
    obtain ⟨e, _⟩ := hs.1 hf
    rw [e] at hc
    simp only [Bool.and_eq_true] at hr
    simp only [List.mem_append, List.mem_cons] at hc
    rcases hc with hc | hc | hc
    · simp [verChar, List.all_eq_true.mp hu c hc]
    · subst hc; decide
    · simp [verChar, revChar_upChar (List.all_eq_true.mp hr.2 c hc)]
  · have hf' : (rpartitionChar '-' rest).2.1 = false := by simpa using hf
    simp only [hf', Bool.false_eq_true, if_false] at hu
    simp [verChar, List.all_eq_true.mp hu c hc]

theorem verPrefix_eq (v : Ver) : verPrefix v = epochPrefix v.epoch ++ v.upstream := by
  unfold verPrefix epochPrefix; split <;> simp

/-- parsing `epochPrefix e ++ y` for a colon-free `y` that matches the pattern's tail -/
theorem fromString_print (e : Nat) (he : e = 0 ∨ EpochOk e) (y : Str) (hy : afterEpoch y = true) :
    fromString (epochPrefix e ++ y) = .ok (parseRevision e y) := by
  have hyc := afterEpoch_verChar y hy
  have hync := (afterEpoch_validRest y hy).2
  have hall : ∀ c ∈ epochPrefix e ++ y, isSpace c = false := by
    intro c hc
    simp only [List.mem_append] at hc
    rcases hc with hc | hc
    · exact verChar_not_space (epochPrefix_verChar _ c hc)
    · exact verChar_not_space (hyc c hc)
  unfold fromString
  simp only [strip_id hall]
  have hne : (epochPrefix e ++ y).isEmpty = false := by
    have := afterEpoch_ne_nil hy
    cases y with
    | nil => exact absurd rfl this
    | cons a as => simp
  simp [hne, isValid_print e y hy, parseEpoch_print e y hync he]

/-- **key lemma of C04**: printing an accepted version gives a string that is accepted and parses
to the same version -/
theorem fromString_toStr (s : Str) (v : Ver) (h : fromString s = .ok v) :
    fromString (toStr v) = .ok v := by
  obtain ⟨e, rest, hae, hv, hep⟩ := fromString_shape s v h
  have hnc := (afterEpoch_validRest rest hae).2
  have hs := rpartitionChar_spec '-' rest
  simp only at hs
  obtain ⟨h1, h2⟩ := hs
  unfold toStr
  rw [verPrefix_eq]
  by_cases hm : '-' ∈ rest
  · -- the input had an explicit revision
    have hf := (rpartitionChar_found_iff '-' rest).mpr hm
    obtain ⟨hsplit, hnb⟩ := h1 hf
    rw [parseRevision_mem e rest hm] at hv
    generalize (rpartitionChar '-' rest).1 = u at hsplit hv
    generalize (rpartitionChar '-' rest).2.2 = r at hsplit hnb hv
    subst hv
    simp only
    split
    · -- revision kept: the printed string is `epochPrefix ++ rest`
      have : epochPrefix e ++ u ++ '-' :: r = epochPrefix e ++ rest := by
        rw [List.append_assoc, ← hsplit]
      rw [this, fromString_print e hep rest hae, parseRevision_mem e rest hm]
      have := rpartitionChar_split '-' u r hnb
      rw [← hsplit] at this
      rw [this]
    · -- revision elided
      rename_i hcond
      simp only [Bool.or_eq_true, Bool.not_eq_true', not_or, Bool.not_eq_false, decide_eq_true_eq,
        ne_eq, Decidable.not_not, List.contains_iff_mem] at hcond
      obtain ⟨⟨hr0, hnh⟩, hval⟩ := hcond
      have hnu : '-' ∉ u := fun m => hnh (by simp [m])
      have hucolon : ':' ∉ u := by
        intro m; exact hnc (by rw [hsplit]; simp [m])
      have hau := afterEpoch_of_isValid_print e u hucolon hval
      rw [fromString_print e hep u hau, parseRevision_not_mem e u hnu, hr0]
  · -- the input had no revision: upstream = rest, revision = "0"
    rw [parseRevision_not_mem e rest hm] at hv
    subst hv
    simp only
    have hnh : '-' ∉ epochPrefix e ++ rest := by
      intro m; simp only [List.mem_append] at m
      rcases m with m | m
      · exact epochPrefix_no_hyphen _ m
      · exact hm m
    have hc : (epochPrefix e ++ rest).contains '-' = false := by simpa using hnh
    simp only [hc, isValid_print e rest hae]
    simp only [ne_eq, not_true_eq_false, decide_false, Bool.false_or, Bool.not_true, Bool.false_eq_true, if_false]
    rw [fromString_print e hep rest hae, parseRevision_not_mem e rest hm]

end Proofs.VersionPrint
