/-
`str.splitlines` and the `'\n '.join` encoder: lines produced by `splitlines` contain no line
boundary, and joining boundary-free non-empty pieces with `"\n "` splits back into those pieces.
-/
import DebInspector.Model.Debcon
import DebInspector.Proofs.StrLemmas

namespace Proofs.Splitlines
open Py Model.Debcon

def NoB (l : Str) : Prop := ∀ c ∈ l, isBoundary c = false

theorem nl_boundary : isBoundary '\n' = true := by decide
theorem cr_boundary : isBoundary '\r' = true := by decide
theorem sp_not_boundary : isBoundary ' ' = false := by decide
theorem dot_not_boundary : isBoundary '.' = false := by decide
theorem sp_space : isSpace ' ' = true := by decide
theorem dot_not_space : isSpace '.' = false := by decide

/-- every line boundary is white space -/
theorem boundary_space : ∀ n ∈ Generated.boundaryCodes, n ∈ Generated.spaceCodes := by decide

theorem isBoundary_isSpace {c : Char} (h : isBoundary c = true) : isSpace c = true := by
  simp only [isBoundary, isSpace, List.contains_iff_mem] at *
  exact boundary_space _ h

theorem splitlinesAux_noB (t cur : Str) (cr : Bool) (hc : NoB cur) :
    ∀ l ∈ splitlinesAux t cur cr, NoB l := by
  induction t generalizing cur cr with
  | nil =>
    intro l hl
    simp only [splitlinesAux] at hl
    split at hl
    · cases hl
    · simp only [List.mem_singleton] at hl; subst hl
      intro c hc'; exact hc c (by simpa using hc')
  | cons c rest ih =>
    intro l hl
    simp only [splitlinesAux] at hl
    have hrev : NoB cur.reverse := fun d hd => hc d (by simpa using hd)
    have hnil : NoB ([] : Str) := fun d hd => by cases hd
    split at hl
    · exact ih cur false hc l hl
    · split at hl
      · rcases List.mem_cons.mp hl with rfl | hl
        · exact hrev
        · exact ih [] true hnil l hl
      · split at hl
        · rcases List.mem_cons.mp hl with rfl | hl
          · exact hrev
          · exact ih [] false hnil l hl
        · rename_i hb
          have hcb : isBoundary c = false := by simpa using hb
          refine ih (c :: cur) false ?_ l hl
          intro d hd
          rcases List.mem_cons.mp hd with rfl | hd
          · exact hcb
          · exact hc d hd

/-- **the lines `str.splitlines` returns contain no line boundary** -/
theorem splitlines_noB (t : Str) : ∀ l ∈ splitlines t, NoB l :=
  splitlinesAux_noB t [] false (fun d hd => by cases hd)

/-- scanning a boundary-free, non-empty prefix only accumulates it -/
theorem splitlinesAux_prefix (l rest cur : Str) (cr : Bool) (h : NoB l) (hne : l ≠ []) :
    splitlinesAux (l ++ rest) cur cr = splitlinesAux rest (l.reverse ++ cur) false := by
  induction l generalizing cur cr with
  | nil => exact absurd rfl hne
  | cons c cs ih =>
    have hc : isBoundary c = false := h c (by simp)
    have hcs : NoB cs := fun d hd => h d (by simp [hd])
    have hr : c ≠ '\r' := by intro e; subst e; rw [cr_boundary] at hc; cases hc
    have hn : c ≠ '\n' := by intro e; subst e; rw [nl_boundary] at hc; cases hc
    cases cs with
    | nil => simp [splitlinesAux, hr, hn, hc]
    | cons d ds =>
      have := ih (c :: cur) false hcs (by simp)
      have step : splitlinesAux (c :: (d :: ds ++ rest)) cur cr = splitlinesAux (d :: ds ++ rest) (c :: cur) false := by
        rw [splitlinesAux]
        simp [hn, hr, hc]
      rw [List.cons_append, step, this]
      simp

theorem splitlinesAux_single (l : Str) (h : NoB l) (hne : l ≠ []) :
    splitlinesAux l [] false = [l] := by
  have := splitlinesAux_prefix l [] [] false h hne
  simp only [List.append_nil] at this
  rw [this]
  simp [splitlinesAux, hne]

/-- **inversion of the `"\n "` join**: boundary-free non-empty pieces come back, the later ones
with their leading space -/
theorem splitlines_joinNlSp (p : Str) (ps : List Str) (hp : NoB p) (hpne : p ≠ [])
    (hps : ∀ q ∈ ps, NoB q ∧ q ≠ []) :
    splitlines (joinNlSp (p :: ps)) = p :: ps.map (' ' :: ·) := by
  unfold splitlines
  induction ps generalizing p with
  | nil => simpa [joinNlSp] using splitlinesAux_single p hp hpne
  | cons q qs ih =>
    have hq := hps q (by simp)
    have hqs : ∀ r ∈ qs, NoB r ∧ r ≠ [] := fun r hr => hps r (by simp [hr])
    have e : joinNlSp (p :: q :: qs) = p ++ '\n' :: joinNlSp ((' ' :: q) :: qs) := by
      cases qs <;> simp [joinNlSp]
    rw [e, splitlinesAux_prefix p _ [] false hp hpne]
    have hnl : ('\n' : Char) ≠ '\r' := by decide
    simp only [splitlinesAux, List.append_nil, List.reverse_reverse, nl_boundary, if_true, hnl, if_false,
      and_false, Bool.false_eq_true]
    have hq' : NoB (' ' :: q) := by
      intro d hd
      rcases List.mem_cons.mp hd with rfl | hd
      · exact sp_not_boundary
      · exact hq.1 d hd
    rw [ih (' ' :: q) hq' (by simp) hqs]
    simp

/-- scanning a boundary-free prefix (possibly empty) that is followed by `\n`, from a fresh line -/
theorem splitlinesAux_line (l rest : Str) (h : NoB l) :
    splitlinesAux (l ++ '\n' :: rest) [] false = l :: splitlinesAux rest [] false := by
  have hnl : ('\n' : Char) ≠ '\r' := by decide
  cases l with
  | nil => simp [splitlinesAux, nl_boundary, hnl]
  | cons c cs =>
    rw [splitlinesAux_prefix (c :: cs) _ [] false h (by simp)]
    simp [splitlinesAux, nl_boundary, hnl]

theorem splitlinesAux_last (l : Str) (h : NoB l) :
    splitlinesAux l [] false = if l.isEmpty then [] else [l] := by
  cases l with
  | nil => simp [splitlinesAux]
  | cons c cs => simpa using splitlinesAux_single (c :: cs) h (by simp)

/-- drop one trailing empty line -/
def dropLastEmpty : List Str → List Str
  | [] => []
  | [l] => if l.isEmpty then [] else [l]
  | l :: m :: ms => l :: dropLastEmpty (m :: ms)

/-- **inversion of the `"\n"` join** for boundary-free pieces, some of which may be empty:
`splitlines` gives the pieces back except that one trailing empty piece is dropped. -/
theorem splitlines_joinNl (ls : List Str) (h : ∀ l ∈ ls, NoB l) :
    splitlines (joinNl ls) = dropLastEmpty ls := by
  unfold splitlines
  induction ls with
  | nil => simp [joinNl, splitlinesAux, dropLastEmpty]
  | cons l ls ih =>
    cases ls with
    | nil => simpa [joinNl, dropLastEmpty] using splitlinesAux_last l (h l (by simp))
    | cons m ms =>
      have e : joinNl (l :: m :: ms) = l ++ '\n' :: joinNl (m :: ms) := by simp [joinNl]
      rw [e, splitlinesAux_line l _ (h l (by simp)), ih (fun x hx => h x (by simp [hx]))]
      simp [dropLastEmpty]

end Proofs.Splitlines
