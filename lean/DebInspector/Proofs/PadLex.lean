/-
Padded lexicographic comparison over a total preorder is a total preorder.
Used twice for Debian version comparison: characters of a non-digit run padded with "end of run",
and (non-digit run, number) tokens padded with ([], 0).
-/
namespace PadLex

/-- padded lexicographic comparison with default element `d` -/
def cmpPad {α} (cmp : α → α → Ordering) (d : α) : List α → List α → Ordering
  | [], [] => .eq
  | a :: as, [] => (cmp a d).then (cmpPad cmp d as [])
  | [], b :: bs => (cmp d b).then (cmpPad cmp d [] bs)
  | a :: as, b :: bs => (cmp a b).then (cmpPad cmp d as bs)

structure IsPre {α} (cmp : α → α → Ordering) : Prop where
  refl : ∀ a, cmp a a = .eq
  swap : ∀ a b, cmp b a = (cmp a b).swap
  trans_lt : ∀ a b c, cmp a b = .lt → cmp b c = .lt → cmp a c = .lt
  eq_left : ∀ a b c, cmp a b = .eq → cmp a c = cmp b c

theorem IsPre.eq_right {α} {cmp : α → α → Ordering} (h : IsPre cmp) (a b c : α)
    (hbc : cmp b c = .eq) : cmp a b = cmp a c := by
  have h1 := h.swap a b; have h2 := h.swap a c
  have h3 : cmp c b = .eq := by rw [h.swap b c, hbc]; rfl
  have := h.eq_left c b a h3
  rw [h1, h2] at this
  cases hab : cmp a b <;> cases hac : cmp a c <;> simp_all [Ordering.swap]

theorem IsPre.eq_symm {α} {cmp : α → α → Ordering} (h : IsPre cmp) (a b : α)
    (hab : cmp a b = .eq) : cmp b a = .eq := by rw [h.swap a b, hab]; rfl

theorem IsPre.eq_trans {α} {cmp : α → α → Ordering} (h : IsPre cmp) (a b c : α)
    (hab : cmp a b = .eq) (hbc : cmp b c = .eq) : cmp a c = .eq := by
  rw [h.eq_left a b c hab, hbc]

theorem IsPre.gt_iff_lt {α} {cmp : α → α → Ordering} (h : IsPre cmp) (a b : α) :
    cmp a b = .gt ↔ cmp b a = .lt := by
  rw [h.swap a b]; cases cmp a b <;> simp [Ordering.swap]

/-- `≤` is transitive, including through order-equal elements -/
theorem IsPre.trans_le {α} {cmp : α → α → Ordering} (h : IsPre cmp) (a b c : α)
    (hab : cmp a b ≠ .gt) (hbc : cmp b c ≠ .gt) : cmp a c ≠ .gt := by
  cases h1 : cmp a b with
  | gt => exact absurd h1 hab
  | eq => rw [h.eq_left a b c h1]; exact hbc
  | lt =>
    cases h2 : cmp b c with
    | gt => exact absurd h2 hbc
    | eq => rw [← h.eq_right a b c h2, h1]; simp
    | lt => rw [h.trans_lt a b c h1 h2]; simp

/-- comparison through any function into a linear order (here: `Int`, `Nat`) is a total preorder -/
theorem cmpInt_lt (x y : Int) : compare x y = .lt ↔ x < y := by
  simp only [compare, compareOfLessAndEq]; split <;> (try split) <;> simp_all <;> omega
theorem cmpInt_eq (x y : Int) : compare x y = .eq ↔ x = y := by
  simp only [compare, compareOfLessAndEq]; split <;> (try split) <;> simp_all <;> omega
theorem cmpInt_gt (x y : Int) : compare x y = .gt ↔ y < x := by
  simp only [compare, compareOfLessAndEq]; split <;> (try split) <;> simp_all <;> omega

theorem isPre_of_key {α} (f : α → Int) : IsPre (fun a b => compare (f a) (f b)) := by
  constructor
  · intro a; exact (cmpInt_eq _ _).mpr rfl
  · intro a b
    show compare (f b) (f a) = (compare (f a) (f b)).swap
    rcases Int.lt_trichotomy (f a) (f b) with h | h | h
    · rw [(cmpInt_lt _ _).mpr h, (cmpInt_gt _ _).mpr h]; rfl
    · rw [(cmpInt_eq _ _).mpr h, (cmpInt_eq _ _).mpr h.symm]; rfl
    · rw [(cmpInt_gt _ _).mpr h, (cmpInt_lt _ _).mpr h]; rfl
  · intro a b c h1 h2
    have h1' := (cmpInt_lt _ _).mp h1
    have h2' := (cmpInt_lt _ _).mp h2
    exact (cmpInt_lt _ _).mpr (by omega)
  · intro a b c h1
    have h1' := (cmpInt_eq _ _).mp h1
    show compare (f a) (f c) = compare (f b) (f c)
    rw [h1']

def cmpPadS {α} (cmp : α → α → Ordering) (d : α) (x y : List α) (n : Nat) : Ordering :=
  match n with
  | 0 => .eq
  | n+1 => (cmp (x.headD d) (y.headD d)).then (cmpPadS cmp d x.tail y.tail n)

theorem cmpPad_eq_S {α} (cmp : α → α → Ordering) (d : α) (hr : cmp d d = .eq) (x y : List α) (n : Nat)
    (hx : x.length ≤ n) (hy : y.length ≤ n) : cmpPad cmp d x y = cmpPadS cmp d x y n := by
  induction n generalizing x y with
  | zero =>
    have : x = [] := by cases x <;> simp_all
    have : y = [] := by cases y <;> simp_all
    subst_vars; simp [cmpPad, cmpPadS]
  | succ n ih =>
    cases x with
    | nil => cases y with
      | nil =>
        simp only [cmpPadS, List.headD, List.tail, hr, Ordering.then]
        rw [← ih [] [] (by simp) (by simp)]
      | cons b bs => simp only [cmpPad, cmpPadS, List.headD, List.tail]; rw [ih [] bs (by simp) (by simpa using hy)]
    | cons a as => cases y with
      | nil => simp only [cmpPad, cmpPadS, List.headD, List.tail]; rw [ih as [] (by simpa using hx) (by simp)]
      | cons b bs => simp only [cmpPad, cmpPadS, List.headD, List.tail]; rw [ih as bs (by simpa using hx) (by simpa using hy)]

theorem cmpPadS_pre {α} {cmp : α → α → Ordering} (h : IsPre cmp) (d : α) (n : Nat) :
    IsPre (fun x y => cmpPadS cmp d x y n) := by
  induction n with
  | zero => constructor <;> intros <;> simp_all [cmpPadS, Ordering.swap]
  | succ n ih =>
    constructor
    · intro a; simp [cmpPadS, h.refl, ih.refl, Ordering.then]
    · intro a b; simp only [cmpPadS]; rw [h.swap (a.headD d) (b.headD d), ih.swap a.tail b.tail]
      cases cmp (a.headD d) (b.headD d) <;> simp [Ordering.then, Ordering.swap]
    · intro a b c; simp only [cmpPadS]
      intro h1 h2
      cases hab : cmp (a.headD d) (b.headD d) <;> cases hbc : cmp (b.headD d) (c.headD d) <;>
        simp_all [Ordering.then]
      · rw [h.trans_lt _ _ _ hab hbc]
      · rw [← h.eq_right _ _ _ hbc, hab]
      · rw [h.eq_left _ _ _ hab, hbc]
      · rw [h.eq_left _ _ _ hab, hbc]; exact ih.trans_lt _ _ _ h1 h2
    · intro a b c; simp only [cmpPadS]
      cases hab : cmp (a.headD d) (b.headD d) <;> simp only [Ordering.then] <;> intro h1 <;> try contradiction
      rw [h.eq_left _ _ _ hab]
      cases hbc : cmp (b.headD d) (c.headD d) <;> simp only [Ordering.then]
      exact ih.eq_left _ _ _ h1

/-- **padded lexicographic comparison over a total preorder is a total preorder** -/
theorem cmpPad_pre {α} {cmp : α → α → Ordering} (h : IsPre cmp) (d : α) : IsPre (cmpPad cmp d) := by
  have hr := h.refl d
  constructor
  · intro a
    rw [cmpPad_eq_S cmp d hr a a a.length (Nat.le_refl _) (Nat.le_refl _)]
    exact (cmpPadS_pre h d _).refl a
  · intro a b
    have n := a.length + b.length
    rw [cmpPad_eq_S cmp d hr b a (a.length + b.length) (by omega) (by omega),
        cmpPad_eq_S cmp d hr a b (a.length + b.length) (by omega) (by omega)]
    exact (cmpPadS_pre h d _).swap a b
  · intro a b c
    rw [cmpPad_eq_S cmp d hr a b (a.length + b.length + c.length) (by omega) (by omega),
        cmpPad_eq_S cmp d hr b c (a.length + b.length + c.length) (by omega) (by omega),
        cmpPad_eq_S cmp d hr a c (a.length + b.length + c.length) (by omega) (by omega)]
    exact (cmpPadS_pre h d _).trans_lt a b c
  · intro a b c
    rw [cmpPad_eq_S cmp d hr a b (a.length + b.length + c.length) (by omega) (by omega),
        cmpPad_eq_S cmp d hr a c (a.length + b.length + c.length) (by omega) (by omega),
        cmpPad_eq_S cmp d hr b c (a.length + b.length + c.length) (by omega) (by omega)]
    exact (cmpPadS_pre h d _).eq_left a b c

/-- lexicographic product of two total preorders -/
def cmpProd {α β} (c1 : α → α → Ordering) (c2 : β → β → Ordering) (x y : α × β) : Ordering :=
  (c1 x.1 y.1).then (c2 x.2 y.2)

theorem cmpProd_pre {α β} {c1 : α → α → Ordering} {c2 : β → β → Ordering} (h1 : IsPre c1) (h2 : IsPre c2) :
    IsPre (cmpProd c1 c2) := by
  constructor
  · intro a; simp [cmpProd, h1.refl, h2.refl, Ordering.then]
  · intro a b; simp only [cmpProd]; rw [h1.swap a.1 b.1, h2.swap a.2 b.2]
    cases c1 a.1 b.1 <;> simp [Ordering.then, Ordering.swap]
  · intro a b c; simp only [cmpProd]
    intro ha hb
    cases hab : c1 a.1 b.1 <;> cases hbc : c1 b.1 c.1 <;> simp_all [Ordering.then]
    · rw [h1.trans_lt _ _ _ hab hbc]
    · rw [← h1.eq_right _ _ _ hbc, hab]
    · rw [h1.eq_left _ _ _ hab, hbc]
    · rw [h1.eq_left _ _ _ hab, hbc]; exact h2.trans_lt _ _ _ ha hb
  · intro a b c; simp only [cmpProd]
    cases hab : c1 a.1 b.1 <;> simp only [Ordering.then] <;> intro ha <;> try contradiction
    rw [h1.eq_left _ _ _ hab]
    cases hbc : c1 b.1 c.1 <;> simp only [Ordering.then]
    exact h2.eq_left _ _ _ ha

/-- the comparison only depends on pairwise comparisons of the elements -/
theorem cmpPad_congr {α} (c1 c2 : α → α → Ordering) (d : α) (P : α → Prop) (hd : P d)
    (h : ∀ a b, P a → P b → c1 a b = c2 a b) (x y : List α)
    (hx : ∀ a ∈ x, P a) (hy : ∀ a ∈ y, P a) : cmpPad c1 d x y = cmpPad c2 d x y := by
  induction x generalizing y with
  | nil =>
    induction y with
    | nil => simp [cmpPad]
    | cons b bs ih =>
      simp only [cmpPad]
      rw [h d b hd (hy b (by simp)), ih (fun a ha => hy a (by simp [ha]))]
  | cons a as ih =>
    cases y with
    | nil =>
      simp only [cmpPad]
      rw [h a d (hx a (by simp)) hd, ih [] (fun z hz => hx z (by simp [hz])) (by simp)]
    | cons b bs =>
      simp only [cmpPad]
      rw [h a b (hx a (by simp)) (hy b (by simp)),
          ih bs (fun z hz => hx z (by simp [hz])) (fun z hz => hy z (by simp [hz]))]

end PadLex
