/-
Invariants of the deb822 generator loop (`Model.Deb822.go`).
-/
import DebInspector.Model.Deb822

namespace Proofs.Deb822
open Py Model.Deb822

def nums (ps : List (List Fld)) : List Nat := ps.flatMap fun g => g.flatMap fun f => f.lines.map (·.num)

def stNums : St → List Nat
  | none => []
  | some (done, cur) => (done ++ [cur]).flatMap fun f => f.lines.map (·.num)

theorem rstripLines_sublist (ls : List NL) : (rstripLines ls).Sublist ls := by
  induction ls with
  | nil => simp [rstripLines]
  | cons l ls ih =>
    simp only [rstripLines]
    split
    · rename_i h; split
      · exact List.nil_sublist _
      · rw [h] at ih; exact (List.Sublist.cons_cons l ih)
    · exact List.Sublist.cons_cons l ih

theorem nums_flush (st : St) : (nums (flush st)).Sublist (stNums st) := by
  cases st with
  | none => simp [flush, nums]
  | some s =>
    obtain ⟨done, cur⟩ := s
    simp only [flush, nums, clean, stNums, List.flatMap_cons, List.flatMap_nil, List.append_nil]
    generalize done ++ [cur] = g
    induction g with
    | nil => simp
    | cons f fs ih =>
      simp only [List.map_cons, List.flatMap_cons]
      exact List.Sublist.append ((rstripLines_sublist f.lines).map _) ih

theorem nums_append (a b : List (List Fld)) : nums (a ++ b) = nums a ++ nums b := by
  simp [nums]

theorem stNums_addLine (s : List Fld × Fld) (l : NL) :
    stNums (some (addLine s l)) = stNums (some s) ++ [l.num] := by
  obtain ⟨done, cur⟩ := s
  simp [stNums, addLine]

theorem stNums_open (s : List Fld × Fld) (l : NL) :
    stNums (some (s.1 ++ [s.2], fromLine l)) = stNums (some s) ++ [l.num] := by
  obtain ⟨done, cur⟩ := s
  simp [stNums, fromLine]

/-- every reported line number comes from the state or the remaining input, in order -/
theorem nums_go (st : St) (ls : List NL) :
    (nums (go st ls)).Sublist (stNums st ++ ls.map (·.num)) := by
  induction ls generalizing st with
  | nil => simpa [go] using nums_flush st
  | cons l rest ih =>
    have hflush : (nums (flush st ++ go none rest)).Sublist (stNums st ++ (l :: rest).map (·.num)) := by
      rw [nums_append]
      refine List.Sublist.append (nums_flush st) ?_
      have := ih none
      simp only [stNums, List.nil_append] at this
      simpa using List.Sublist.cons _ this
    unfold go
    split
    · -- blank
      split
      · split
        · rename_i s n rest' hcond
          have := ih (some (addLine s ⟨l.num, rstrip l.val⟩))
          rw [stNums_addLine] at this
          simpa using this
        · exact hflush
      · exact hflush
    · split
      · rename_i s
        split
        · have := ih (some (addLine s ⟨l.num, rstrip l.val⟩))
          rw [stNums_addLine] at this
          simpa using this
        · split
          · have := ih (some (s.1 ++ [s.2], fromLine l))
            rw [stNums_open] at this
            simpa using this
          · rw [List.append_assoc, nums_append, nums_append]
            have h0 := ih none
            simp only [stNums, List.nil_append] at h0
            have : (nums [[(⟨unknownName, [l]⟩ : Fld)]] ++ nums (go none rest)).Sublist ((l :: rest).map (·.num)) := by
              simpa [nums] using h0
            exact List.Sublist.append (nums_flush _) (by simpa using this)
      · split
        · have := ih (some ([], fromLine l))
          simpa [stNums, fromLine] using this
        · rw [nums_append]
          have h0 := ih none
          simp only [stNums, List.nil_append] at h0 ⊢
          simpa [nums] using h0

theorem numberFrom_nums (n : Nat) (ls : List Str) :
    (numberFrom n ls).map (·.num) = List.range' n ls.length := by
  induction ls generalizing n with
  | nil => rfl
  | cons l ls ih => simp [numberFrom, ih, List.range'_succ]

/-! ### the two line classifiers -/

theorem mem_dropBlanksTabs {c : Char} {l : Str} (h : c ∈ dropBlanksTabs l) : c ∈ l := by
  induction l with
  | nil => simp [dropBlanksTabs] at h
  | cons d ds ih =>
    simp only [dropBlanksTabs] at h
    split at h
    · exact List.mem_cons_of_mem _ (ih h)
    · exact h

/-- a continuation line is not a declaration line -/
theorem cont_not_decl (l : Str) (h : isCont l = true) : isDecl l = false := by
  cases l with
  | nil => simp [isCont, headP] at h
  | cons c cs =>
    simp only [isCont, headP, Bool.and_eq_true, Bool.or_eq_true, decide_eq_true_eq] at h
    have : isLetterIC c = false := by
      rcases h.1 with e | e <;> subst e <;> decide
    simp [isDecl, headP, this]

/-- a continuation line is not blank -/
theorem cont_not_blank (l : Str) (h : isCont l = true) : isBlank l = false := by
  simp only [isCont, Bool.and_eq_true, Bool.not_eq_true'] at h
  exact h.2

/-! ### one step of the loop -/

theorem go_cont_step (s : List Fld × Fld) (l : NL) (rest : List NL) (hnb : isBlank l.val = false)
    (hc : isCont l.val = true) : go (some s) (l :: rest) = go (some (addLine s ⟨l.num, rstrip l.val⟩)) rest := by
  conv => lhs; unfold go
  simp only [hnb, Bool.false_eq_true, if_false, hc, if_true]

theorem go_decl_step_open (s : List Fld × Fld) (l : NL) (rest : List NL) (hnb : isBlank l.val = false)
    (hc : isCont l.val = false) (hd : isDecl l.val = true) :
    go (some s) (l :: rest) = go (some (s.1 ++ [s.2], fromLine l)) rest := by
  conv => lhs; unfold go
  simp only [hnb, Bool.false_eq_true, if_false, hc, hd, if_true]

theorem go_decl_step_none (l : NL) (rest : List NL) (hnb : isBlank l.val = false) (hd : isDecl l.val = true) :
    go none (l :: rest) = go (some ([], fromLine l)) rest := by
  conv => lhs; unfold go
  simp only [hnb, Bool.false_eq_true, if_false, hd, if_true]

theorem go_blank_none (l : NL) (rest : List NL) (hb : isBlank l.val = true) : go none (l :: rest) = go none rest := by
  conv => lhs; unfold go
  simp only [hb, if_true, flush, List.nil_append]

/-- a blank line closes the paragraph when the next line is blank or a declaration, or there is none -/
theorem go_blank_break (s : List Fld × Fld) (l : NL) (rest : List NL) (hb : isBlank l.val = true)
    (hn : ∀ n ∈ rest.head?, isDecl n.val = true ∨ isBlank n.val = true) :
    go (some s) (l :: rest) = flush (some s) ++ go none rest := by
  conv => lhs; unfold go
  simp only [hb, if_true]
  cases rest with
  | nil => rfl
  | cons n tl =>
    simp only
    have := hn n (by simp)
    rcases this with h | h <;> simp [h]

/-! ### trailing-blank trimming -/

theorem rstripLines_prefix (ls : List NL) : ∃ t, ls = rstripLines ls ++ t := by
  induction ls with
  | nil => exact ⟨[], rfl⟩
  | cons l ls ih =>
    obtain ⟨t, ht⟩ := ih
    simp only [rstripLines]
    cases hr : rstripLines ls with
    | nil =>
      by_cases hb : isBlank l.val = true
      · exact ⟨l :: ls, by simp [hb]⟩
      · refine ⟨ls, by simp [hb]⟩
    | cons r rs =>
      rw [hr] at ht
      exact ⟨t, by simp; exact ht⟩

theorem rstripLines_mem_or_blank (ls : List NL) : ∀ l ∈ ls, l ∈ rstripLines ls ∨ isBlank l.val = true := by
  induction ls with
  | nil => intro l hl; cases hl
  | cons a as ih =>
    intro l hl
    simp only [rstripLines]
    cases hr : rstripLines as with
    | nil =>
      rcases List.mem_cons.mp hl with rfl | hl
      · by_cases hb : isBlank l.val = true
        · exact Or.inr hb
        · simp [hb]
      · have := ih l hl
        rw [hr] at this
        rcases this with h | h
        · cases h
        · exact Or.inr h
    | cons r rs =>
      rcases List.mem_cons.mp hl with rfl | hl
      · simp
      · have := ih l hl
        rw [hr] at this
        rcases this with h | h
        · exact Or.inl (List.mem_cons_of_mem _ h)
        · exact Or.inr h

end Proofs.Deb822
