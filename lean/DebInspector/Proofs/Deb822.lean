/-
Invariants of the deb822 generator loop (`Model.Deb822.go`).
-/
import DebInspector.Model.Deb822

namespace Proofs.Deb822
open Py Model.Deb822

def nums (ps : List (List Fld)) : List Nat := ps.flatMap fun g => g.flatMap fun f => f.lines.map (·.num)

def stNums : St → List Nat
  | none => []
  | some (done, cur) => (done ++ [cur]).flatMap fun f => f.lines.map (·.num)

theorem rstripLines_sublist (ls : List NL) : (rstripLines ls).Sublist ls := by
  induction ls with
  | nil => simp [rstripLines]
  | cons l ls ih =>
    simp only [rstripLines]
    split
    · rename_i h; split
      · exact List.nil_sublist _
      · rw [h] at ih; exact (List.Sublist.cons_cons l ih)
    · exact List.Sublist.cons_cons l ih

theorem nums_flush (st : St) : (nums (flush st)).Sublist (stNums st) := by
  cases st with
  | none => simp [flush, nums]
  | some s =>
    obtain ⟨done, cur⟩ := s
    simp only [flush, nums, clean, stNums, List.flatMap_cons, List.flatMap_nil, List.append_nil]
    generalize done ++ [cur] = g
    induction g with
    | nil => simp
    | cons f fs ih =>
      simp only [List.map_cons, List.flatMap_cons]
      exact List.Sublist.append ((rstripLines_sublist f.lines).map _) ih

theorem nums_append (a b : List (List Fld)) : nums (a ++ b) = nums a ++ nums b := by
  simp [nums]

theorem stNums_addLine (s : List Fld × Fld) (l : NL) :
    stNums (some (addLine s l)) = stNums (some s) ++ [l.num] := by
  obtain ⟨done, cur⟩ := s
  simp [stNums, addLine]

theorem stNums_open (s : List Fld × Fld) (l : NL) :
    stNums (some (s.1 ++ [s.2], fromLine l)) = stNums (some s) ++ [l.num] := by
  obtain ⟨done, cur⟩ := s
  simp [stNums, fromLine]

/-- every reported line number comes from the state or the remaining input, in order -/
theorem nums_go (st : St) (ls : List NL) :
    (nums (go st ls)).Sublist (stNums st ++ ls.map (·.num)) := by
  induction ls generalizing st with
  | nil => simpa [go] using nums_flush st
  | cons l rest ih =>
    have hflush : (nums (flush st ++ go none rest)).Sublist (stNums st ++ (l :: rest).map (·.num)) := by
      rw [nums_append]
      refine List.Sublist.append (nums_flush st) ?_
      have := ih none
      simp only [stNums, List.nil_append] at this
      simpa using List.Sublist.cons _ this
    unfold go
    split
    · -- blank
      split
      · split
        · rename_i s n rest' hcond
          have := ih (some (addLine s ⟨l.num, rstrip l.val⟩))
          rw [stNums_addLine] at this
          simpa using this
        · exact hflush
      · exact hflush
    · split
      · rename_i s
        split
        · have := ih (some (addLine s ⟨l.num, rstrip l.val⟩))
          rw [stNums_addLine] at this
          simpa using this
        · split
          · have := ih (some (s.1 ++ [s.2], fromLine l))
            rw [stNums_open] at this
            simpa using this
          · rw [List.append_assoc, nums_append, nums_append]
            have h0 := ih none
            simp only [stNums, List.nil_append] at h0
            have : (nums [[(⟨unknownName, [l]⟩ : Fld)]] ++ nums (go none rest)).Sublist ((l :: rest).map (·.num)) := by
              simpa [nums] using h0
            exact List.Sublist.append (nums_flush _) (by simpa using this)
      · split
        · have := ih (some ([], fromLine l))
          simpa [stNums, fromLine] using this
        · rw [nums_append]
          have h0 := ih none
          simp only [stNums, List.nil_append] at h0 ⊢
          simpa [nums] using h0

theorem numberFrom_nums (n : Nat) (ls : List Str) :
    (numberFrom n ls).map (·.num) = List.range' n ls.length := by
  induction ls generalizing n with
  | nil => rfl
  | cons l ls ih => simp [numberFrom, ih, List.range'_succ]

end Proofs.Deb822
