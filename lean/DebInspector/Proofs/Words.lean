/-
Words of texts: how the white-space tokens of a string relate to those of its lines, of its trimmed
form, and of the joins the renderers use.
-/
import DebInspector.Proofs.SplitJoin
import DebInspector.Proofs.Splitlines
import DebInspector.Spec.Words
import DebInspector.Model.Debcon

namespace Proofs.Words
open Py Spec.Words Proofs.Splitlines Model.Debcon

theorem splitWsAux_space (a b cur : Str) (c : Char) (hc : isSpace c = true) :
    splitWsAux (a ++ c :: b) cur = splitWsAux a cur ++ splitWsAux b [] := by
  induction a generalizing cur with
  | nil =>
    simp only [List.nil_append, splitWsAux, hc, if_true]
    by_cases h : cur.isEmpty = true
    · simp [h]
    · simp [h]
  | cons x xs ih =>
    simp only [List.cons_append, splitWsAux]
    by_cases hx : isSpace x = true
    · simp only [hx, if_true]
      by_cases h : cur.isEmpty = true
      · simp only [h, if_true]; exact ih []
      · have h' : cur.isEmpty = false := by simpa using h
        simp only [h', Bool.false_eq_true, if_false, List.cons_append]; rw [ih []]
    · simp only [hx, if_false]; exact ih (x :: cur)

theorem splitWs_space (a b : Str) (c : Char) (hc : isSpace c = true) : splitWs (a ++ c :: b) = splitWs a ++ splitWs b :=
  splitWsAux_space a b [] c hc

theorem splitWs_nil : splitWs [] = [] := rfl

theorem splitWs_cons_space (c : Char) (s : Str) (hc : isSpace c = true) : splitWs (c :: s) = splitWs s := by
  have := splitWs_space [] s c hc
  simpa [splitWs_nil] using this

theorem splitWs_snoc_space (s : Str) (c : Char) (hc : isSpace c = true) : splitWs (s ++ [c]) = splitWs s := by
  have := splitWs_space s [] c hc
  simpa [splitWs_nil] using this

theorem splitWs_all_space (w : Str) (h : ∀ c ∈ w, isSpace c = true) : splitWs w = [] := by
  induction w with
  | nil => rfl
  | cons c cs ih => rw [splitWs_cons_space c cs (h c (by simp))]; exact ih (fun x hx => h x (by simp [hx]))

theorem splitWs_lpad (a m : Str) (ha : ∀ c ∈ a, isSpace c = true) : splitWs (a ++ m) = splitWs m := by
  induction a with
  | nil => rfl
  | cons c cs ih =>
    simp only [List.cons_append]
    rw [splitWs_cons_space c _ (ha c (by simp))]
    exact ih (fun x hx => ha x (by simp [hx]))

theorem splitWs_rpad (m b : Str) (hb : ∀ c ∈ b, isSpace c = true) : splitWs (m ++ b) = splitWs m := by
  cases b with
  | nil => simp
  | cons c cs =>
    rw [splitWs_space m cs c (hb c (by simp)), splitWs_all_space cs (fun x hx => hb x (by simp [hx]))]
    simp

theorem splitWs_lstrip (s : Str) : splitWs (lstrip s) = splitWs s := by
  obtain ⟨w, hw, e⟩ := lstrip_decomp s
  conv => rhs; rw [e]
  exact (splitWs_lpad w _ hw).symm

theorem splitWs_rstrip (s : Str) : splitWs (rstrip s) = splitWs s := by
  obtain ⟨w, hw, e⟩ := rstrip_decomp s
  conv => rhs; rw [e]
  exact (splitWs_rpad _ w hw).symm

theorem splitWs_strip (s : Str) : splitWs (strip s) = splitWs s := by
  unfold strip; rw [splitWs_rstrip, splitWs_lstrip]

theorem words_strip (s : Str) : words (strip s) = words s := by unfold words; rw [splitWs_strip]
theorem words_lstrip (s : Str) : words (lstrip s) = words s := by unfold words; rw [splitWs_lstrip]
theorem words_rstrip (s : Str) : words (rstrip s) = words s := by unfold words; rw [splitWs_rstrip]

theorem words_space (a b : Str) (c : Char) (hc : isSpace c = true) : words (a ++ c :: b) = words a ++ words b := by
  unfold words; rw [splitWs_space a b c hc, List.filter_append]

theorem words_nil : words [] = [] := rfl

theorem words_joinNl (ls : List Str) : words (joinNl ls) = ls.flatMap words := by
  induction ls with
  | nil => rfl
  | cons l ls ih =>
    cases ls with
    | nil => simp [joinNl]
    | cons m ms =>
      simp only [joinNl, List.flatMap_cons] at ih ⊢
      rw [words_space l _ '\n' (by decide), ih]

theorem words_joinNlSp (ls : List Str) : words (joinNlSp ls) = ls.flatMap words := by
  induction ls with
  | nil => rfl
  | cons l ls ih =>
    cases ls with
    | nil => simp [joinNlSp]
    | cons m ms =>
      simp only [joinNlSp, List.flatMap_cons] at ih ⊢
      rw [words_space l _ '\n' (by decide)]
      have : words (' ' :: joinNlSp (m :: ms)) = words (joinNlSp (m :: ms)) := by
        have := words_space [] (joinNlSp (m :: ms)) ' ' (by decide)
        simpa [words_nil] using this
      rw [this, ih]

/-- the words of a text are the words of its lines (`str.splitlines` breaks only at white space) -/
theorem splitWs_splitlinesAux (t cur : Str) (cr : Bool) (hcr : cr = true → cur = []) :
    (splitlinesAux t cur cr).flatMap splitWs = splitWs (cur.reverse ++ t) := by
  induction t generalizing cur cr with
  | nil =>
    simp only [splitlinesAux, List.append_nil]
    by_cases h : cur.isEmpty = true
    · have : cur = [] := List.isEmpty_iff.mp h
      simp [h, this, splitWs_nil]
    · simp [h]
  | cons c rest ih =>
    unfold splitlinesAux
    by_cases h1 : c = '\n' ∧ cr = true
    · simp only [h1, and_self, if_true]
      have hc := hcr h1.2
      subst hc
      rw [ih [] false (by simp)]
      simp only [List.reverse_nil, List.nil_append]
      rw [splitWs_cons_space '\n' rest (by decide)]
    · simp only [h1, if_false]
      by_cases h2 : c = '\r'
      · simp only [h2, if_true, List.flatMap_cons]
        rw [ih [] true (by simp)]
        simp only [List.reverse_nil, List.nil_append]
        rw [splitWs_space cur.reverse rest '\r' (by decide)]
      · simp only [h2, if_false]
        by_cases h3 : isBoundary c = true
        · simp only [h3, if_true, List.flatMap_cons]
          rw [ih [] false (by simp)]
          simp only [List.reverse_nil, List.nil_append]
          rw [splitWs_space cur.reverse rest c (isBoundary_isSpace h3)]
        · have h3' : isBoundary c = false := by simpa using h3
          simp only [h3', Bool.false_eq_true, if_false]
          rw [ih (c :: cur) false (by simp)]
          simp [List.append_assoc]

theorem words_splitlines (v : Str) : (splitlines v).flatMap words = words v := by
  have := splitWs_splitlinesAux v [] false (by simp)
  simp only [List.reverse_nil, List.nil_append] at this
  unfold words
  rw [← this]
  unfold splitlines
  induction splitlinesAux v [] false with
  | nil => rfl
  | cons l ls ih => simp only [List.flatMap_cons, List.filter_append, ih]

end Proofs.Words
