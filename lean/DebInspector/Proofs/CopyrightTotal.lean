/-
Totality of paragraph construction (`Model.Copyright.fromFields`): the duplicate-renaming loop always
finds an unused name, so the clash assertion and the index errors are unreachable.
-/
import DebInspector.Model.Copyright
import DebInspector.Proofs.VersionPrint

namespace Proofs.CopyrightTotal
open Py Model.Deb822 Model.Debcon Model.Copyright

def cand (base : Str) (k : Nat) : Str := base ++ '_' :: natToStr k

theorem natToStr_inj {a b : Nat} (h : natToStr a = natToStr b) : a = b := by
  have := congrArg digitsVal h
  rwa [Proofs.VersionPrint.digitsVal_natToStr, Proofs.VersionPrint.digitsVal_natToStr] at this

theorem cand_inj (base : Str) {a b : Nat} (h : cand base a = cand base b) : a = b := by
  unfold cand at h
  have := List.append_cancel_left h
  simp only [List.cons.injEq, true_and] at this
  exact natToStr_inj this

theorem cand_ne_base (base : Str) (k : Nat) : cand base k ≠ base := by
  intro h
  have := congrArg List.length h
  simp [cand] at this

/-- the names the loop may still try: the current one and every later candidate -/
def Future (base name : Str) (suffix : Nat) (x : Str) : Prop := x = name ∨ ∃ k, suffix ≤ k ∧ x = cand base k

/-- the loop only looks at `seen` through membership of the names it may still try -/
theorem freshName_congr (base : Str) (fuel : Nat) (name : Str) (suffix : Nat) (seen seen' : List Str)
    (h : ∀ x, Future base name suffix x → (x ∈ seen ↔ x ∈ seen')) :
    freshName seen base fuel name suffix = freshName seen' base fuel name suffix := by
  induction fuel generalizing name suffix with
  | zero => rfl
  | succ fuel ih =>
    have hn := h name (Or.inl rfl)
    unfold freshName
    by_cases hm : name ∈ seen
    · have hm' : name ∈ seen' := hn.mp hm
      simp only [List.contains_iff_mem, hm, hm', if_true]
      apply ih
      intro x hx
      apply h
      rcases hx with rfl | ⟨k, hk, rfl⟩
      · exact Or.inr ⟨suffix, Nat.le_refl _, rfl⟩
      · exact Or.inr ⟨k, by omega, rfl⟩
    · have hm' : name ∉ seen' := fun m => hm (hn.mpr m)
      simp [hm, hm']

/-- the current name is the base or an earlier candidate, hence differs from every later candidate -/
def NameInv (base name : Str) (suffix : Nat) : Prop := name = base ∨ ∃ j, j < suffix ∧ name = cand base j

theorem future_ne_name {base name : Str} {suffix k : Nat} (hi : NameInv base name suffix) (hk : suffix ≤ k) :
    cand base k ≠ name := by
  rcases hi with rfl | ⟨j, hj, rfl⟩
  · exact cand_ne_base _ k
  · intro e; have := cand_inj base e; omega

/-- the result of the loop is one of the names it may try -/
theorem freshName_future (base : Str) : ∀ (fuel : Nat) (nm : Str) (sf : Nat) (sn : List Str) (r : Str × Nat),
    freshName sn base fuel nm sf = some r → Future base nm sf r.1 := by
  intro fuel
  induction fuel with
  | zero => intro nm sf sn r h; simp [freshName] at h
  | succ fuel ihf =>
    intro nm sf sn r h
    unfold freshName at h
    split at h
    · rcases ihf _ _ _ _ h with e | ⟨k, hk, e⟩
      · exact Or.inr ⟨sf, Nat.le_refl _, e⟩
      · exact Or.inr ⟨k, by omega, e⟩
    · simp only [Option.some.injEq] at h; subst h; exact Or.inl rfl

theorem freshName_some_aux (base : Str) : ∀ (len : Nat) (seen : List Str), seen.length ≤ len →
    ∀ (fuel : Nat) (name : Str) (suffix : Nat), seen.length < fuel → NameInv base name suffix →
      ∃ n s, freshName seen base fuel name suffix = some (n, s) ∧ n ∉ seen := by
  intro len
  induction len with
  | zero =>
    intro seen hl fuel name suffix hf hi
    have : seen = [] := by cases seen <;> simp_all
    subst this
    cases fuel with
    | zero => simp at hf
    | succ fuel => exact ⟨name, suffix, by simp [freshName], by simp⟩
  | succ len ih =>
    intro seen hl fuel name suffix hf hi
    cases fuel with
    | zero => omega
    | succ fuel =>
      unfold freshName
      by_cases hm : name ∈ seen
      · simp only [List.contains_iff_mem, hm, if_true]
        have hpos : 0 < seen.length := List.length_pos_of_mem hm
        -- the remaining iterations behave as if `name` were removed from `seen`
        have hcongr := freshName_congr base fuel (cand base suffix) (suffix + 1) seen (seen.erase name) (by
          intro x hx
          have hne : x ≠ name := by
            rcases hx with rfl | ⟨k, hk, rfl⟩
            · exact future_ne_name hi (Nat.le_refl _)
            · exact future_ne_name hi (by omega)
          constructor
          · intro hx'; exact (List.mem_erase_of_ne hne).mpr hx'
          · intro hx'; exact List.mem_of_mem_erase hx')
        obtain ⟨n, s, hr, hn⟩ := ih (seen.erase name)
          (by rw [List.length_erase_of_mem hm]; omega) fuel (cand base suffix) (suffix + 1)
          (by rw [List.length_erase_of_mem hm]; omega)
          (Or.inr ⟨suffix, Nat.lt_succ_self _, rfl⟩)
        refine ⟨n, s, ?_, ?_⟩
        · show freshName seen base fuel (cand base suffix) (suffix + 1) = some (n, s)
          rw [hcongr, hr]
        · intro hns
          by_cases hnn : n = name
          · have hfut : Future base (cand base suffix) (suffix + 1) n := freshName_future base _ _ _ _ _ hr
            rcases hfut with e | ⟨k, hk, e⟩
            · exact future_ne_name hi (Nat.le_refl _) (e ▸ hnn)
            · exact future_ne_name hi (show suffix ≤ k by omega) (e ▸ hnn)
          · exact hn ((List.mem_erase_of_ne hnn).mpr hns)
      · exact ⟨name, suffix, by simp [hm], hm⟩

/-- **the renaming loop always terminates with an unused name** within `|seen| + 1` iterations -/
theorem freshName_some (base : Str) (seen : List Str) (fuel : Nat) (name : Str) (suffix : Nat)
    (hf : seen.length < fuel) (hi : NameInv base name suffix) :
    ∃ n s, freshName seen base fuel name suffix = some (n, s) ∧ n ∉ seen :=
  freshName_some_aux base seen.length seen (Nat.le_refl _) fuel name suffix hf hi


/-! ### `from_fields` never raises -/

/-- every name stored so far has been recorded in `seen_names` -/
def KeysSeen (a : Acc) : Prop :=
  (∀ k ∈ a.known.map (·.1), k ∈ a.seen) ∧ (∀ k ∈ a.extra.map (·.1), k ∈ a.seen)

theorem lookup_isSome_mem {α} (l : List (Str × α)) (k : Str) (h : (l.lookup k).isSome = true) :
    k ∈ l.map (·.1) := by
  induction l with
  | nil => simp [List.lookup] at h
  | cons kv rest ih =>
    obtain ⟨k', v⟩ := kv
    simp only [List.lookup] at h
    by_cases e : k = k'
    · subst e; simp
    · have : (k == k') = false := by simpa using e
      simp only [this] at h
      simp [ih h]

/-- **one field**: the loop body of `from_fields` returns normally and keeps the invariant -/
theorem addField_ok (knownNames : List Str) (a : Acc) (f : Fld) (hinv : KeysSeen a) :
    ∃ a', addField knownNames a f = .ok a' ∧ KeysSeen a' := by
  unfold addField
  simp only
  by_cases hv : (fieldText f).isEmpty = true
  · exact ⟨a, by simp [hv], hinv⟩
  · simp only [hv, Bool.false_eq_true, if_false]
    obtain ⟨name, suffix, hfresh, hnotin⟩ :=
      freshName_some (replaceChar '-' '_' f.name) a.seen (a.seen.length + 1) (replaceChar '-' '_' f.name) a.suffix
        (Nat.lt_succ_self _) (Or.inl rfl)
    rw [hfresh]
    simp only
    have hk : (a.known.lookup name).isSome = false := by
      cases h : (a.known.lookup name).isSome with
      | false => rfl
      | true => exact absurd (hinv.1 name (lookup_isSome_mem _ _ h)) hnotin
    have he : (a.extra.lookup name).isSome = false := by
      cases h : (a.extra.lookup name).isSome with
      | false => rfl
      | true => exact absurd (hinv.2 name (lookup_isSome_mem _ _ h)) hnotin
    simp only [hk, he, Bool.and_false, Bool.or_self, Bool.false_eq_true, if_false]
    have hne : f.lines ≠ [] := by
      intro e
      apply hv
      simp [fieldText, e, joinNl]
    cases hl : f.lines with
    | nil => exact absurd hl hne
    | cons l ls =>
      have hlast : ∃ x, (l :: ls).getLast? = some x := ⟨(l :: ls).getLast (by simp), List.getLast?_eq_getLast _⟩
      obtain ⟨x, hx⟩ := hlast
      simp only [List.head?_cons, hx]
      by_cases hkn : knownNames.contains name = true
      · simp only [hkn, if_true]
        refine ⟨_, rfl, ?_, ?_⟩
        · intro k hk'
          simp only [List.map_append, List.map_cons, List.map_nil, List.mem_append, List.mem_singleton] at hk' ⊢
          rcases hk' with h | h
          · exact Or.inl (hinv.1 k h)
          · exact Or.inr h
        · intro k hk'
          simp only [List.mem_append, List.mem_singleton]
          exact Or.inl (hinv.2 k hk')
      · simp only [hkn, Bool.false_eq_true, if_false]
        refine ⟨_, rfl, ?_, ?_⟩
        · intro k hk'
          simp only [List.mem_append, List.mem_singleton]
          exact Or.inl (hinv.1 k hk')
        · intro k hk'
          simp only [List.map_append, List.map_cons, List.map_nil, List.mem_append, List.mem_singleton] at hk' ⊢
          rcases hk' with h | h
          · exact Or.inl (hinv.2 k h)
          · exact Or.inr h

theorem addFields_ok (knownNames : List Str) (fs : List Fld) (a : Acc) (hinv : KeysSeen a) :
    ∃ a', addFields knownNames a fs = .ok a' ∧ KeysSeen a' := by
  induction fs generalizing a with
  | nil => exact ⟨a, rfl, hinv⟩
  | cons f fs ih =>
    obtain ⟨a1, h1, hi1⟩ := addField_ok knownNames a f hinv
    obtain ⟨a2, h2, hi2⟩ := ih a1 hi1
    exact ⟨a2, by simp [addFields, h1, h2], hi2⟩

/-- **`cls.from_fields(fields)` returns normally for every list of fields**: whatever the names —
duplicates, numerically suffixed names, names equal to internal attribute names -/
theorem fromFields_ok (k : Kind) (fields : List Fld) : ∃ p, fromFields k fields = .ok p := by
  unfold fromFields
  simp only
  obtain ⟨a, h, _⟩ := addFields_ok (if k = .catchall then [] else (typedFields k).map (·.1)) fields ⟨[], [], [], [], 1⟩
    ⟨by simp, by simp⟩
  rw [h]
  exact ⟨_, rfl⟩

end Proofs.CopyrightTotal
