/-
Split / join / strip inversions for the Python string primitives: `sep.join(ps).split(sep) = ps`,
`" ".join(ws).split() = ws`, trimming around a core, stripping before or after splitting.
-/
import DebInspector.Proofs.StrLemmas
namespace Py

theorem rstrip_of_last (m : Str) (h : lastP (fun c => !isSpace c) m = true) : rstrip m = m := by
  induction m with
  | nil => simp [lastP] at h
  | cons c cs ih =>
    cases cs with
    | nil =>
      simp only [lastP, Bool.not_eq_true'] at h
      simp [rstrip, h]
    | cons d ds =>
      have := ih (by simpa [lastP] using h)
      simp only [rstrip] at this ⊢
      rw [this]

theorem lstrip_all_space_append (w s : Str) (hw : ∀ c ∈ w, isSpace c = true) : lstrip (w ++ s) = lstrip s := by
  induction w with
  | nil => rfl
  | cons c cs ih =>
    simp only [List.cons_append, lstrip, hw c (by simp), if_true]
    exact ih (fun d hd => hw d (by simp [hd]))

theorem rstrip_all_space' (sp : Str) (hs : ∀ c ∈ sp, isSpace c = true) : rstrip sp = [] := by
  induction sp with
  | nil => rfl
  | cons c cs ih =>
    simp [rstrip, ih (fun d hd => hs d (by simp [hd])), hs c (by simp)]

theorem rstrip_append_all_space (v sp : Str) (hs : ∀ c ∈ sp, isSpace c = true) : rstrip (v ++ sp) = rstrip v := by
  induction v with
  | nil => simp [rstrip_all_space' sp hs, rstrip]
  | cons c cs ih => simp only [List.cons_append, rstrip, ih]

/-- trimming white space around a core that starts and ends with a non-space character -/
theorem strip_core (a m b : Str) (ha : ∀ c ∈ a, isSpace c = true) (hb : ∀ c ∈ b, isSpace c = true)
    (hh : headP isSpace m = false) (hl : lastP (fun c => !isSpace c) m = true) : strip (a ++ m ++ b) = m := by
  unfold strip
  rw [List.append_assoc, lstrip_all_space_append a _ ha]
  have hne : m ≠ [] := lastP_true_ne_nil hl
  have hhm : headP isSpace (m ++ b) = false := by
    cases m with
    | nil => exact absurd rfl hne
    | cons c cs => simpa [headP] using hh
  rw [lstrip_of_head hhm, rstrip_append_all_space _ _ hb, rstrip_of_last m hl]

theorem splitChar_ne_nil (sep : Char) (s : Str) : splitChar sep s ≠ [] := by
  cases s with
  | nil => simp [splitChar]
  | cons c cs =>
    unfold splitChar
    split
    · simp
    · split <;> simp

theorem splitChar_not_mem (sep : Char) (s : Str) (h : sep ∉ s) : splitChar sep s = [s] := by
  induction s with
  | nil => rfl
  | cons c cs ih =>
    have hc : c ≠ sep := fun e => h (by simp [e])
    have := ih (fun hm => h (List.mem_cons_of_mem _ hm))
    simp [splitChar, hc, this]

/-- splitting `w ++ sep :: rest` when `w` has no separator -/
theorem splitChar_piece (sep : Char) (w rest : Str) (h : sep ∉ w) :
    splitChar sep (w ++ sep :: rest) = w :: splitChar sep rest := by
  induction w with
  | nil => simp [splitChar]
  | cons c cs ih =>
    have hc : c ≠ sep := fun e => h (by simp [e])
    have := ih (fun hm => h (List.mem_cons_of_mem _ hm))
    simp only [List.cons_append, splitChar, hc, if_false, this]

theorem join1_cons2 (sep : Char) (p q : Str) (ps : List Str) :
    join [sep] (p :: q :: ps) = p ++ sep :: join [sep] (q :: ps) := by
  simp [join]

/-- **`sep.join(pieces).split(sep) = pieces`** when no piece holds the separator -/
theorem splitChar_join (sep : Char) (ps : List Str) (hne : ps ≠ []) (h : ∀ p ∈ ps, sep ∉ p) :
    splitChar sep (join [sep] ps) = ps := by
  induction ps with
  | nil => exact absurd rfl hne
  | cons p ps ih =>
    cases ps with
    | nil => simpa [join] using splitChar_not_mem sep p (h p (by simp))
    | cons q qs =>
      rw [join1_cons2, splitChar_piece sep p _ (h p (by simp)), ih (by simp) (fun x hx => h x (by simp [hx]))]

theorem lstrip_decomp (s : Str) : ∃ w, (∀ c ∈ w, isSpace c = true) ∧ s = w ++ lstrip s := by
  induction s with
  | nil => exact ⟨[], by simp, rfl⟩
  | cons c cs ih =>
    by_cases hc : isSpace c = true
    · obtain ⟨w, hw, e⟩ := ih
      refine ⟨c :: w, ?_, ?_⟩
      · intro d hd
        rcases List.mem_cons.mp hd with rfl | hd
        · exact hc
        · exact hw d hd
      · simp only [lstrip, hc, if_true, List.cons_append]
        rw [← e]
    · exact ⟨[], by simp, by simp [lstrip, hc]⟩

theorem rstrip_decomp (s : Str) : ∃ w, (∀ c ∈ w, isSpace c = true) ∧ s = rstrip s ++ w := by
  induction s with
  | nil => exact ⟨[], by simp, rfl⟩
  | cons c cs ih =>
    obtain ⟨w, hw, e⟩ := ih
    simp only [rstrip]
    cases hr : rstrip cs with
    | nil =>
      rw [hr] at e
      by_cases hc : isSpace c = true
      · refine ⟨c :: w, ?_, by simp [hc]; exact e⟩
        intro d hd
        rcases List.mem_cons.mp hd with rfl | hd
        · exact hc
        · exact hw d hd
      · exact ⟨w, hw, by simp [hc]; exact e⟩
    | cons d ds =>
      rw [hr] at e
      exact ⟨w, hw, by simp; exact e⟩

/-- a separator-free prefix joins the first piece -/
theorem splitChar_prefix (sep : Char) (w s : Str) (h : sep ∉ w) :
    splitChar sep (w ++ s) = (w ++ (splitChar sep s).headD []) :: (splitChar sep s).tail := by
  induction w with
  | nil =>
    cases hs : splitChar sep s with
    | nil => exact absurd hs (splitChar_ne_nil sep s)
    | cons p ps => simpa using hs
  | cons c cs ih =>
    have hc : c ≠ sep := fun e => h (by simp [e])
    have := ih (fun hm => h (List.mem_cons_of_mem _ hm))
    simp only [List.cons_append, splitChar, hc, if_false, this]

theorem dropLast_append_lastD {α} (l : List α) (d : α) (h : l ≠ []) : l.dropLast ++ [l.getLast?.getD d] = l := by
  induction l with
  | nil => exact absurd rfl h
  | cons a as ih =>
    cases as with
    | nil => simp
    | cons b bs =>
      have := ih (by simp)
      simp only [List.dropLast_cons_cons, List.getLast?_cons_cons, List.cons_append]
      rw [this]

/-- a separator-free suffix joins the last piece -/
theorem splitChar_suffix (sep : Char) (s w : Str) (h : sep ∉ w) :
    splitChar sep (s ++ w) = (splitChar sep s).dropLast ++ [((splitChar sep s).getLast?.getD []) ++ w] := by
  induction s with
  | nil => simpa [splitChar] using splitChar_not_mem sep w h
  | cons c cs ih =>
    by_cases hc : c = sep
    · subst hc
      simp only [List.cons_append, splitChar, if_true, ih]
      cases hs : splitChar c cs with
      | nil => exact absurd hs (splitChar_ne_nil c cs)
      | cons p ps => simp [List.dropLast, List.getLast?_cons_cons]
    · simp only [List.cons_append, splitChar, hc, if_false, ih]
      cases hs : splitChar sep cs with
      | nil => exact absurd hs (splitChar_ne_nil sep cs)
      | cons p ps =>
        cases ps with
        | nil => simp
        | cons q qs => simp [List.dropLast, List.getLast?_cons_cons]

theorem strip_prefix_space (w p : Str) (hw : ∀ c ∈ w, isSpace c = true) : strip (w ++ p) = strip p := by
  unfold strip; rw [lstrip_all_space_append w p hw]

theorem strip_suffix_space (p w : Str) (hw : ∀ c ∈ w, isSpace c = true) : strip (p ++ w) = strip p := by
  rcases lstrip_decomp p with ⟨v, hv, e⟩
  unfold strip
  by_cases hb : isBlank p = true
  · have hall : ∀ c ∈ p ++ w, isSpace c = true := by
      intro c hc
      rcases List.mem_append.mp hc with h | h
      · exact (List.all_eq_true.mp hb) c h
      · exact hw c h
    have h1 : isBlank (lstrip (p ++ w)) = true := by rw [isBlank_lstrip]; exact List.all_eq_true.mpr hall
    have h2 : isBlank (lstrip p) = true := by rw [isBlank_lstrip]; exact hb
    rw [(rstrip_eq_nil_iff _).mpr h1, (rstrip_eq_nil_iff _).mpr h2]
  · have hb' : isBlank p = false := by simpa using hb
    rw [lstrip_append_nonblank p w hb', rstrip_append_all_space _ _ hw]

/-- stripping the whole string first does not change the stripped pieces -/
theorem map_strip_splitChar_strip (sep : Char) (hsep : isSpace sep = false) (s : Str) :
    (splitChar sep (strip s)).map strip = (splitChar sep s).map strip := by
  have nosep : ∀ w : Str, (∀ c ∈ w, isSpace c = true) → sep ∉ w := by
    intro w hw hm
    rw [hw sep hm] at hsep; cases hsep
  obtain ⟨w1, hw1, e1⟩ := lstrip_decomp s
  obtain ⟨w2, hw2, e2⟩ := rstrip_decomp (lstrip s)
  have es : s = w1 ++ (strip s ++ w2) := by
    unfold strip; rw [← e2, ← e1]
  conv => rhs; rw [es]
  rw [splitChar_prefix sep w1 _ (nosep w1 hw1), splitChar_suffix sep (strip s) w2 (nosep w2 hw2)]
  cases hs : splitChar sep (strip s) with
  | nil => exact absurd hs (splitChar_ne_nil sep _)
  | cons p ps =>
    cases ps with
    | nil =>
      simp only [List.dropLast, List.getLast?_singleton, Option.getD_some, List.nil_append, List.headD_cons,
        List.tail_cons, List.map_cons, List.map_nil]
      rw [strip_prefix_space _ _ hw1, strip_suffix_space _ _ hw2]
    | cons q qs =>
      simp only [List.dropLast_cons_cons, List.cons_append, List.headD_cons, List.tail_cons, List.map_cons, List.map_append,
        List.map_nil]
      rw [strip_prefix_space _ _ hw1]
      congr 1
      have hl : ((p :: q :: qs).getLast?.getD []) = ((q :: qs).getLast?.getD []) := by
        simp [List.getLast?_cons_cons]
      rw [hl, strip_suffix_space _ _ hw2]
      have := congrArg (List.map strip) (dropLast_append_lastD (q :: qs) [] (by simp))
      simpa using this.symm


theorem splitWsAux_word (w rest cur : Str) (hw : ∀ c ∈ w, isSpace c = false) :
    splitWsAux (w ++ rest) cur = splitWsAux rest (w.reverse ++ cur) := by
  induction w generalizing cur with
  | nil => rfl
  | cons c cs ih =>
    simp only [List.cons_append, splitWsAux, hw c (by simp), Bool.false_eq_true, if_false]
    rw [ih (c :: cur) (fun d hd => hw d (by simp [hd]))]
    simp

/-- **`' '.join(words).split() = words`** for non-empty words without white space -/
theorem splitWs_join (ws : List Str) (h : ∀ w ∈ ws, w ≠ [] ∧ ∀ c ∈ w, isSpace c = false) :
    splitWs (join [' '] ws) = ws := by
  unfold splitWs
  induction ws with
  | nil => rfl
  | cons w ws ih =>
    obtain ⟨hne, hns⟩ := h w (by simp)
    have hrev : w.reverse.isEmpty = false := by cases w <;> simp_all
    cases ws with
    | nil =>
      have := splitWsAux_word w [] [] hns
      simp only [List.append_nil] at this
      simp only [join, this, splitWsAux, hrev, Bool.false_eq_true, if_false, List.reverse_reverse]
    | cons v vs =>
      have hsp : isSpace ' ' = true := by decide
      rw [join1_cons2, splitWsAux_word w _ [] hns]
      simp only [List.append_nil, splitWsAux, hsp, if_true, hrev, Bool.false_eq_true, if_false, List.reverse_reverse]
      rw [ih (fun x hx => h x (by simp [hx]))]

theorem join_splitChar (sep : Char) (s : Str) : join [sep] (splitChar sep s) = s := by
  induction s with
  | nil => rfl
  | cons c cs ih =>
    unfold splitChar
    split
    · rename_i h
      cases hs : splitChar sep cs with
      | nil => exact absurd hs (splitChar_ne_nil sep cs)
      | cons p ps =>
        rw [hs] at ih
        simp only [join1_cons2, ih, h]
        rfl
    · cases hs : splitChar sep cs with
      | nil => exact absurd hs (splitChar_ne_nil sep cs)
      | cons p ps =>
        rw [hs] at ih
        simp only
        cases ps with
        | nil => simp only [join] at ih ⊢; rw [ih]
        | cons q qs =>
          rw [join1_cons2] at ih ⊢
          rw [List.cons_append, ih]

theorem splitChar_no_sep (sep : Char) (s : Str) : ∀ p ∈ splitChar sep s, sep ∉ p := by
  induction s with
  | nil => intro p hp; simp [splitChar] at hp; subst hp; simp
  | cons c cs ih =>
    intro p hp
    unfold splitChar at hp
    split at hp
    · simp only [List.mem_cons] at hp
      rcases hp with rfl | hp
      · simp
      · exact ih p hp
    · rename_i hc
      cases hs : splitChar sep cs with
      | nil => exact absurd hs (splitChar_ne_nil sep cs)
      | cons q qs =>
        rw [hs] at hp ih
        simp only [List.mem_cons] at hp
        rcases hp with rfl | hp
        · intro hm
          simp only [List.mem_cons] at hm
          rcases hm with h | h
          · exact hc h.symm
          · exact ih q (by simp) h
        · exact ih p (by simp [hp])

theorem mem_of_mem_splitChar (sep : Char) (s p : Str) (hp : p ∈ splitChar sep s) : ∀ c ∈ p, c ∈ s := by
  intro c hc
  have : c ∈ join [sep] (splitChar sep s) := mem_join_of_mem sep _ p c hp hc
  rwa [join_splitChar] at this
where
  mem_join_of_mem (sep : Char) (ps : List Str) (p : Str) (c : Char) (hp : p ∈ ps) (hc : c ∈ p) : c ∈ join [sep] ps := by
    induction ps with
    | nil => cases hp
    | cons q qs ih =>
      cases qs with
      | nil => simp only [List.mem_singleton] at hp; subst hp; simpa [join] using hc
      | cons r rs =>
        rw [join1_cons2]
        rcases List.mem_cons.mp hp with rfl | hp
        · simp [hc]
        · simp only [List.mem_append, List.mem_cons]
          exact Or.inr (Or.inr (ih hp))


end Py
