/-
`deb822.split_lines` (`splitLinesAscii`): lines end at LF, CRLF, CR only.  Splitting a text made of
terminator-free lines each followed by `\n` gives the lines back.
-/
import DebInspector.Py.Str

namespace Proofs.LinesAscii
open Py

def NoT (l : Str) : Prop := '\n' ∉ l ∧ '\r' ∉ l

theorem splitLinesAsciiAux_prefix (l rest cur : Str) (cr : Bool) (h : NoT l) (hne : l ≠ []) :
    splitLinesAsciiAux (l ++ rest) cur cr = splitLinesAsciiAux rest (l.reverse ++ cur) false := by
  induction l generalizing cur cr with
  | nil => exact absurd rfl hne
  | cons c cs ih =>
    have hn : c ≠ '\n' := fun e => h.1 (by simp [e])
    have hr : c ≠ '\r' := fun e => h.2 (by simp [e])
    have hcs : NoT cs := ⟨fun m => h.1 (List.mem_cons_of_mem _ m), fun m => h.2 (List.mem_cons_of_mem _ m)⟩
    cases cs with
    | nil => simp [splitLinesAsciiAux, hn, hr]
    | cons d ds =>
      have := ih (c :: cur) false hcs (by simp)
      have step : splitLinesAsciiAux (c :: (d :: ds ++ rest)) cur cr = splitLinesAsciiAux (d :: ds ++ rest) (c :: cur) false := by
        rw [splitLinesAsciiAux]; simp [hn, hr]
      rw [List.cons_append, step, this]; simp

theorem splitLinesAscii_line (l rest : Str) (h : NoT l) :
    splitLinesAscii (l ++ '\n' :: rest) = l :: splitLinesAscii rest := by
  unfold splitLinesAscii
  have hnl : ('\n' : Char) ≠ '\r' := by decide
  cases l with
  | nil => simp [splitLinesAsciiAux, hnl]
  | cons c cs =>
    rw [splitLinesAsciiAux_prefix (c :: cs) _ [] false h (by simp)]
    simp [splitLinesAsciiAux, hnl]

theorem splitLinesAscii_last (l : Str) (h : NoT l) (hne : l ≠ []) : splitLinesAscii l = [l] := by
  unfold splitLinesAscii
  have := splitLinesAsciiAux_prefix l [] [] false h hne
  simp only [List.append_nil] at this
  rw [this]; simp [splitLinesAsciiAux, hne]

theorem splitLinesAscii_seps (sep : List Str) (rest : Str) (h : ∀ x ∈ sep, NoT x) :
    splitLinesAscii ((sep.flatMap fun l => l ++ ['\n']) ++ rest) = sep ++ splitLinesAscii rest := by
  induction sep with
  | nil => rfl
  | cons s ss ih =>
    have e : ((s :: ss).flatMap fun l => l ++ ['\n']) ++ rest = s ++ '\n' :: ((ss.flatMap fun l => l ++ ['\n']) ++ rest) := by
      simp [List.flatMap_cons]
    rw [e, splitLinesAscii_line s _ (h s (by simp)), ih (fun x hx => h x (by simp [hx]))]
    simp


end Proofs.LinesAscii
