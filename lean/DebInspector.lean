-- Root of the `DebInspector` library: models, specifications, property statements and proofs.
import DebInspector.Py.Str
import DebInspector.Py.Exc
import DebInspector.Proto
import DebInspector.Model.Version
