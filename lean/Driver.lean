/-
Driver: `<id> <op> <val tokens>` per input line  ↦  `<id> <val tokens>` per output line.
Imports models, specs and property *definitions* only (never the proofs), so that it still
builds when a proof obligation is broken by a change to /repo.
-/
import DebInspector.Props.C01
import DebInspector.Props.C02
import DebInspector.Props.C03
import DebInspector.Props.C04
import DebInspector.Props.C05
import DebInspector.Props.C06
import DebInspector.Props.C07
import DebInspector.Props.C08
import DebInspector.Props.C09
import DebInspector.Props.C10
import DebInspector.Props.C11
import DebInspector.Props.C12
import DebInspector.Props.C13
import DebInspector.Props.C14
import DebInspector.Props.C15
import DebInspector.Props.C16
import DebInspector.Props.C17
import DebInspector.Props.C18
import DebInspector.Props.C19
import DebInspector.Props.C20

open Proto

def dispatch (op : String) (v : Val) : Option Val :=
  match op with
  | "C01" => Props.C01.check.run v
  | "C01s" => Props.C01.checkS.run v
  | "C01c" => Props.C01.checkC.run v
  | "C02" => Props.C02.check.run v
  | "C03" => Props.C03.check.run v
  | "C04" => Props.C04.check.run v
  | "C05" => Props.C05.check.run v
  | "C06" => Props.C06.check.run v
  | "C06n" => Props.C06.checkNarrow.run v
  | "C07" => Props.C07.check.run v
  | "C08" => Props.C08.check.run v
  | "C08m" => Props.C08.checkM.run v
  | "C09" => Props.C09.check.run v
  | "C10" => Props.C10.check.run v
  | "C11" => Props.C11.check.run v
  | "C12" => Props.C12.check.run v
  | "C13" => Props.C13.check.run v
  | "C13k" => Props.C13.checkK1.run v
  | "C14" => Props.C14.check.run v
  | "C14e" => Props.C14.checkE.run v
  | "C15" => Props.C15.check.run v
  | "C15m" => Props.C15.checkM.run v
  | "C18" => Props.C18.check.run v
  | "C19" => Props.C19.run v
  | "C19t" => Props.C19.checkT.run v
  | "C19m" => Props.C19.checkM.run v
  | "C19r" => Props.C19.checkR.run v
  | "C20" => Props.C20.check.run v
  | "C20p" => Props.C20.checkPartial.run v
  | "C16" => Props.C16.check.run v
  | "C16w" => Props.C16.checkW.run v
  | "C16k" => Props.C16.checkWK6.run v
  | "C17a" => Props.C17.checkA.run v
  | "C17b" => Props.C17.checkB.run v
  | "C17c" => Props.C17.checkC.run v
  | _ => none

def handle (line : String) : String :=
  match (line.trimAscii.toString.splitOn " ").filter (· ≠ "") with
  | id :: op :: toks =>
    match parse toks with
    | some v =>
      match dispatch op v with
      | some r => id ++ " " ++ render r
      | none => id ++ " eBadRequest"
    | none => id ++ " eBadEncoding"
  | _ => "? eBadLine"

partial def loop (h : IO.FS.Stream) (out : IO.FS.Stream) : IO Unit := do
  let line ← h.getLine
  if line.isEmpty then return ()
  out.putStrLn (handle line)
  out.flush
  loop h out

def main : IO Unit := do
  let stdin ← IO.getStdin
  let stdout ← IO.getStdout
  loop stdin stdout
